"""Shared input generators (all randomness from the rng handed in, so runs replay exactly)."""

SYMS = {0: '.', 1: '', 2: '=', 3: '#', 4: '$'}


def rand_tree(rng, n, max_children=3):
    """parent array of a random rooted tree on 0..n-1 (node i's parent < i), children lists"""
    children = {i: [] for i in range(n)}
    for i in range(1, n):
        cands = [p for p in range(i) if len(children[p]) < max_children]
        p = rng.choice(cands[-3:] if rng.random() < 0.6 else cands)
        children[p].append(i)
    return children


def render_base(rng, names, children, orders, ring_edges, explicit_single=False):
    """CGsmiles text (without braces) for a rooted tree with extra ring edges.
    orders: {(parent, child): order}; ring_edges: list of (u, v, order) with u visited before v."""
    # DFS order decides which ring end is opened first; single-digit markers, lowest free first
    order_seen = []

    def visit(u):
        order_seen.append(u)
        for c in children[u]:
            visit(c)
    visit(0)
    pos = {u: i for i, u in enumerate(order_seen)}
    rings = {}
    for (u, v, o) in ring_edges:
        a, b_ = (u, v) if pos[u] < pos[v] else (v, u)
        rings[(a, b_)] = o
    free = list(range(1, 10))
    marker_of = {}
    out_markers = {u: [] for u in order_seen}
    for u in order_seen:
        for (a, b_), o in rings.items():
            if b_ == u and (a, b_) in marker_of:
                m = marker_of.pop((a, b_))
                out_markers[u].append(('close', m, o))
                free.append(m)
                free.sort()
        for (a, b_), o in rings.items():
            if a == u:
                m = free.pop(0)
                marker_of[(a, b_)] = m
                out_markers[u].append(('open', m, o))

    def node_text(u):
        t = '[#%s]' % names[u]
        for kind, m, o in out_markers[u]:
            sym = SYMS[o] if kind == 'open' else ''
            if kind == 'open' and o == 1 and explicit_single and rng.random() < 0.3:
                sym = '-'
            t += sym + str(m)
        return t

    def emit(u):
        t = node_text(u)
        ch = children[u]
        for k, c in enumerate(ch):
            sym = SYMS[orders[(u, c)]]
            if orders[(u, c)] == 1 and explicit_single and rng.random() < 0.2:
                sym = '-'
            if k < len(ch) - 1:
                t += sym + '(' + emit(c) + ')'
            else:
                t += sym + emit(c)
        return t
    return emit(0)


def rand_base_graph(rng, names_pool, nmax=6, max_order=3, p_ring=0.3, p_zero=0.1, virtual=None):
    """returns (text_with_braces, description) for a random connected base graph"""
    n = rng.randint(1, nmax)
    children = rand_tree(rng, n)
    names = [rng.choice(names_pool) for _ in range(n)]
    orders = {}
    for p, cs in children.items():
        for c in cs:
            r = rng.random()
            orders[(p, c)] = 0 if r < p_zero else (1 if r < 0.6 else rng.randint(1, max_order))
    ring_edges = []
    if n >= 3 and rng.random() < p_ring:
        for _ in range(rng.randint(1, 2)):
            u, v = sorted(rng.sample(range(n), 2))
            if v in children[u] or u in children[v] or any({u, v} == {a, b_} for a, b_, _ in ring_edges):
                continue
            ring_edges.append((u, v, rng.choice([1, 1, 2, 3][:max_order + 1])))
    # %nn followed by digit ambiguity is avoided by using only single-digit markers unless one ring per node
    text = render_base(rng, names, children, orders, ring_edges)
    return '{' + text + '}', {'n': n, 'rings': len(ring_edges)}


# ---------------------------------------------------------------- fragments with descriptors
AA_SKELETONS = ['C', 'CC', 'COC', 'CC(C)C', 'C=C', 'CCO', 'N', 'O', 'CC(=O)O', 'C1CC1', 'CCN', 'CS', 'c1ccccc1', 'c1ccncc1',
                'C(F)C', 'CCl', 'C#C', 'CC(C)(C)C', 'C(F)(Cl)C', 'CC(C)(C(=O)OC)', 'C(C)(O)',
                # an upper-case atom directly before an aromatic one: the two letters spell an element (Sc, Cs)
                'CSc1ccccc1', 'CSc1ccccc1CO', 'OCSc1ccncc1C', 'CC(Sc1ccccc1)C', 'c1ccccc1SC']
CG_SKELETONS = ['[#A]', '[#A][#B]', '[#A][#B][#C]', '[#A]([#B])[#C]', '[#A]1[#B][#C]1', '[#X]=[#Y]', '[#P]([#Q])([#R])',
                '[#P]([#Q])([#R])[#S]']


def owners(text):
    """[(position, atom index)]: the positions of a skeleton at which a descriptor may be written and the
    atom it then belongs to — after each atom token (and its ring digits), and after a closed branch (the
    atom the branch hangs on)"""
    out = []
    stack = []
    cur = -1
    count = 0
    i = 0
    while i < len(text):
        c = text[i]
        if c == '[':
            i = text.index(']', i) + 1
            while i < len(text) and (text[i].isdigit()):
                i += 1
            cur = count
            count += 1
            out.append((i, cur))
        elif c.isalpha():
            i += 2 if text[i:i + 2] in ('Cl', 'Br') else 1
            while i < len(text) and text[i].isdigit():
                i += 1
            cur = count
            count += 1
            out.append((i, cur))
        elif c == '(':
            stack.append(cur)
            i += 1
        elif c == ')':
            cur = stack.pop()
            i += 1
            out.append((i, cur))
        else:
            i += 1
    return out


def split_atoms(text):
    """positions (end index) after each atom token of a simple SMILES / CGsmiles skeleton"""
    ends = []
    i = 0
    while i < len(text):
        c = text[i]
        if c == '[':
            j = text.index(']', i)
            i = j + 1
            # swallow ring digits
            while i < len(text) and text[i].isdigit():
                i += 1
            ends.append(i)
        elif c.isalpha():
            if text[i:i + 2] in ('Cl', 'Br'):
                i += 2
            else:
                i += 1
            while i < len(text) and text[i].isdigit():
                i += 1
            ends.append(i)
        else:
            i += 1
    return ends


def rand_descriptor(rng, kinds='$$$><!', labels=('', '', 'A', 'B', '1'), syms=('', '', '', '=', '#')):
    k = rng.choice(kinds)
    return k + rng.choice(labels), rng.choice(syms)


SYM_ORDER = {'': 1, '-': 1, '=': 2, '#': 3, '.': 0}


def decorate(rng, skeleton, ndesc, expect=None, **kw):
    """insert ndesc descriptors after random atoms or closed branches (symbol before the descriptor);
    when `expect` is a dict it receives {atom index: [kind+label+order, ...]} in textual order"""
    pos = owners(skeleton)
    ins = {}
    for _ in range(ndesc):
        e, owner = rng.choice(pos)
        d, sym = rand_descriptor(rng, **kw)
        ins.setdefault(e, []).append((sym + '[' + d + ']', owner, d + str(SYM_ORDER[sym])))
    out = ''
    prev = 0
    for e in sorted(ins):
        out += skeleton[prev:e] + ''.join(t for t, _, _ in ins[e])
        prev = e
        if expect is not None:
            for _, owner, full in ins[e]:
                expect.setdefault(owner, []).append(full)
    return out + skeleton[prev:]


def rand_fragment_set(rng, names, all_atom=True, max_desc=3, expect=None, **kw):
    """{#N=...,#M=...} with descriptors on purpose ambiguous; `expect` (dict) receives per fragment
    name the descriptors the text writes on each atom index"""
    pool = AA_SKELETONS if all_atom else CG_SKELETONS
    defs = []
    for nm in names:
        sk = rng.choice(pool)
        ex = {} if expect is not None else None
        defs.append('#%s=%s' % (nm, decorate(rng, sk, rng.randint(0, max_desc), expect=ex, **kw)))
        if expect is not None:
            expect[nm] = {str(k): v for k, v in ex.items()}
    return '{' + ','.join(defs) + '}'
