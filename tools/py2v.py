#!/usr/bin/env python3
"""py2v: fail-closed translator from a small Python subset to Gallina (error monad of
CGV.Base.PyBase).  It never imports or evaluates the package under /repo: it reads the
source text with `ast` and emits Coq text.  Anything outside the supported subset raises
Unsupported, which the caller reports as a broken proof obligation (never silently skipped).

Supported statements: docstring, return, if/elif/else, assignment to a name or a tuple of
names, augmented assignment (+=), `for x in xs:` / `for i, x in enumerate(xs[, start]):`
(with early `return` inside the body), `continue` as the last statement of a loop body.
Supported expressions: names, str/int/bool/float constants, 2-tuples, x[c], x[-c], x[a:], x[:-1],
and/or/not, ==, !=, in, not in (chained), +, int(), str(), len(), table[expr] for a
module/function-level dict of constants, list literals of constants.
Types are tracked (str, int, bool, float, list[str], tuple) because `+`, `in` and `==` are
overloaded in Python and are not in Gallina.
"""
import ast
import sys


class Unsupported(Exception):
    pass


def coq_str(text):
    for ch in text:
        if ord(ch) > 126 or ord(ch) < 32:
            raise Unsupported('non printable-ASCII constant %r' % text)
    return '(S "%s")' % text.replace('"', '""')


def coq_const(v):
    """Gallina term of type pyval-free primitive for table values"""
    if isinstance(v, bool):
        return ('bool', 'true' if v else 'false')
    if isinstance(v, int):
        return ('int', '(%d)%%Z' % v)
    if isinstance(v, float):
        return ('float', coq_str(repr(v)))
    if isinstance(v, str):
        return ('str', coq_str(v))
    if v is None:
        return ('none', 'tt')
    raise Unsupported('constant %r' % (v,))


class Fn:
    """Translate one function definition."""

    def __init__(self, fn, argtypes, tables, rettype):
        self.fn = fn
        self.tables = tables        # name -> (keytype, valtype, coq_name)
        self.argtypes = argtypes
        self.rettype = rettype
        self.counter = 0

    def fresh(self, base):
        self.counter += 1
        return '%s_%d' % (base, self.counter)

    # ---------------------------------------------------------------- expressions
    def expr(self, e, env):
        """returns (type, term : res T)"""
        if isinstance(e, ast.Name):
            if e.id not in env:
                raise Unsupported('free name ' + e.id)
            return env[e.id], 'ret %s' % e.id
        if isinstance(e, ast.Constant):
            t, c = coq_const(e.value)
            return t, 'ret %s' % c
        if isinstance(e, ast.List):
            elts = []
            for x in e.elts:
                if not (isinstance(x, ast.Constant) and isinstance(x.value, str)):
                    raise Unsupported('list literal of non-string constants')
                elts.append(coq_str(x.value))
            return 'list[str]', 'ret [%s]' % '; '.join(elts)
        if isinstance(e, ast.Tuple) and len(e.elts) == 2:
            ta, a = self.expr(e.elts[0], env)
            tb, b = self.expr(e.elts[1], env)
            return ('tuple', ta, tb), 'pair2 (%s) (%s)' % (a, b)
        if isinstance(e, ast.Subscript):
            if isinstance(e.value, ast.Name) and e.value.id in self.tables and e.value.id not in env:
                kt, vt, cname = self.tables[e.value.id]
                ti, i = self.expr(e.slice, env)
                if ti != kt:
                    raise Unsupported('table %s indexed with %s, keys are %s' % (e.value.id, ti, kt))
                return vt, 'bind (%s) (fun k_ => %s_lookup k_)' % (i, cname)
            tv, v = self.expr(e.value, env)
            sl = e.slice
            if tv != 'str':
                raise Unsupported('subscript of %s' % (tv,))
            if isinstance(sl, ast.Constant) and isinstance(sl.value, int):
                return 'str', 'bind (%s) (fun s_ => py_index s_ (%d)%%Z)' % (v, sl.value)
            if isinstance(sl, ast.UnaryOp) and isinstance(sl.op, ast.USub) and isinstance(sl.operand, ast.Constant) \
                    and isinstance(sl.operand.value, int):
                return 'str', 'bind (%s) (fun s_ => py_index s_ (-%d)%%Z)' % (v, sl.operand.value)
            if isinstance(sl, ast.Slice) and sl.step is None:
                lo, up = sl.lower, sl.upper
                if up is None and isinstance(lo, ast.Constant) and isinstance(lo.value, int) and lo.value >= 0:
                    return 'str', 'bind (%s) (fun s_ => ret (py_slice_from s_ %d))' % (v, lo.value)
                if up is None and lo is not None:
                    tl, l = self.expr(lo, env)
                    if tl != 'int':
                        raise Unsupported('slice bound type')
                    return 'str', 'bind (%s) (fun s_ => bind (%s) (fun a_ => py_slice_from_z s_ a_))' % (v, l)
                if lo is None and isinstance(up, ast.UnaryOp) and isinstance(up.op, ast.USub) \
                        and isinstance(up.operand, ast.Constant) and up.operand.value == 1:
                    return 'str', 'bind (%s) (fun s_ => ret (py_drop_last s_))' % v
            raise Unsupported('subscript form')
        if isinstance(e, ast.BoolOp):
            op = 'py_and' if isinstance(e.op, ast.And) else 'py_or'
            parts = []
            for v in e.values:
                t, x = self.expr(v, env)
                if t != 'bool':
                    raise Unsupported('and/or on non-bool (%s)' % (t,))
                parts.append(x)
            out = parts[-1]
            for p in reversed(parts[:-1]):
                out = '%s (%s) (%s)' % (op, p, out)
            return 'bool', out
        if isinstance(e, ast.UnaryOp) and isinstance(e.op, ast.Not):
            t, x = self.expr(e.operand, env)
            if t != 'bool':
                raise Unsupported('not on non-bool')
            return 'bool', 'py_not (%s)' % x
        if isinstance(e, ast.Compare):
            parts = []
            left = e.left
            for op, right in zip(e.ops, e.comparators):
                tl, l = self.expr(left, env)
                tr, r = self.expr(right, env)
                if isinstance(op, (ast.Eq, ast.NotEq)):
                    if tl != tr:
                        raise Unsupported('== between %s and %s' % (tl, tr))
                    parts.append('%s (%s) (%s)' % ('py_eq' if isinstance(op, ast.Eq) else 'py_ne', l, r))
                elif isinstance(op, (ast.In, ast.NotIn)):
                    if tl == 'str' and tr == 'str':
                        f = 'py_in'
                    elif tl == 'str' and tr == 'list[str]':
                        f = 'py_in_list'
                    else:
                        raise Unsupported('in between %s and %s' % (tl, tr))
                    term = '%s (%s) (%s)' % (f, l, r)
                    parts.append(term if isinstance(op, ast.In) else 'py_not (%s)' % term)
                else:
                    raise Unsupported('comparison operator')
                left = right
            out = parts[-1]
            for p in reversed(parts[:-1]):
                out = 'py_and (%s) (%s)' % (p, out)
            return 'bool', out
        if isinstance(e, ast.BinOp) and isinstance(e.op, ast.Add):
            tl, l = self.expr(e.left, env)
            tr, r = self.expr(e.right, env)
            if tl == tr == 'str':
                return 'str', 'py_concat (%s) (%s)' % (l, r)
            if tl == tr == 'int':
                return 'int', 'py_addz (%s) (%s)' % (l, r)
            raise Unsupported('+ between %s and %s' % (tl, tr))
        if isinstance(e, ast.Call) and isinstance(e.func, ast.Name) and not e.keywords and len(e.args) == 1:
            ta, a = self.expr(e.args[0], env)
            if e.func.id == 'int' and ta == 'str':
                return 'int', 'bind (%s) py_int' % a
            if e.func.id == 'str' and ta == 'str':
                return 'str', a
            if e.func.id == 'str' and ta == 'int':
                return 'str', 'bind (%s) (fun z_ => ret (str_of_Z z_))' % a
            if e.func.id == 'len' and ta in ('str', 'list[str]'):
                return 'int', 'bind (%s) (fun s_ => ret (Z.of_nat (length s_)))' % a
        raise Unsupported(ast.dump(e)[:80])

    # ---------------------------------------------------------------- statements
    @staticmethod
    def assigned(stmts):
        out = []
        for s in stmts:
            for n in ast.walk(s):
                if isinstance(n, (ast.Assign, ast.AugAssign)):
                    tgts = n.targets if isinstance(n, ast.Assign) else [n.target]
                    for t in tgts:
                        for m in ast.walk(t):
                            if isinstance(m, ast.Name) and m.id not in out:
                                out.append(m.id)
        return out

    def block(self, stmts, env, k):
        """translate stmts then continue with k(env) -> term"""
        if not stmts:
            return k(env)
        s, rest = stmts[0], stmts[1:]
        if isinstance(s, ast.Expr) and isinstance(s.value, ast.Constant):
            return self.block(rest, env, k)
        if isinstance(s, ast.Return):
            t, x = self.expr(s.value, env)
            if t != self.rettype:
                raise Unsupported('return type %s, expected %s' % (t, self.rettype))
            return 'bind (%s) (fun r_ => ret (RReturn r_))' % x
        if isinstance(s, ast.If):
            tt, c = self.expr(s.test, env)
            if tt != 'bool':
                raise Unsupported('if on non-bool (%s)' % (tt,))
            # each branch continues with its own environment (CPS), so a name first assigned in
            # one branch is simply not in scope on the other path: a later use there is rejected
            # as a free name instead of modelling Python's UnboundLocalError
            kont = lambda env2: self.block(rest, env2, k)
            return 'bind (%s) (fun c_ : bool => if c_ then (%s) else (%s))' % (
                c, self.block(s.body, env, kont), self.block(s.orelse, env, kont))
        if isinstance(s, ast.Assign) and len(s.targets) == 1:
            tg = s.targets[0]
            if isinstance(tg, ast.Tuple) and isinstance(s.value, ast.Tuple) and len(tg.elts) == len(s.value.elts):
                env2 = dict(env)
                vals = [self.expr(v, env) for v in s.value.elts]
                for t_, (ty, _) in zip(tg.elts, vals):
                    if not isinstance(t_, ast.Name):
                        raise Unsupported('assign target')
                    env2[t_.id] = ty
                out = self.block(rest, env2, k)
                for t_, (ty, v) in reversed(list(zip(tg.elts, vals))):
                    out = 'bind (%s) (fun %s => %s)' % (v, t_.id, out)
                return out
            if isinstance(tg, ast.Name):
                ty, v = self.expr(s.value, env)
                if tg.id in env and env[tg.id] != ty:
                    raise Unsupported('variable %s changes type %s -> %s' % (tg.id, env[tg.id], ty))
                env2 = dict(env)
                env2[tg.id] = ty
                return 'bind (%s) (fun %s => %s)' % (v, tg.id, self.block(rest, env2, k))
        if isinstance(s, ast.AugAssign) and isinstance(s.op, ast.Add) and isinstance(s.target, ast.Name):
            new = ast.Assign(targets=[s.target], value=ast.BinOp(left=ast.Name(id=s.target.id, ctx=ast.Load()),
                                                                 op=ast.Add(), right=s.value))
            return self.block([new] + rest, env, k)
        if isinstance(s, ast.For) and not s.orelse:
            return self.for_loop(s, rest, env, k)
        raise Unsupported('statement ' + type(s).__name__)

    def for_loop(self, s, rest, env, k):
        it = s.iter
        start = None
        if isinstance(it, ast.Call) and isinstance(it.func, ast.Name) and it.func.id == 'enumerate':
            if not (isinstance(s.target, ast.Tuple) and len(s.target.elts) == 2):
                raise Unsupported('enumerate target')
            idx_name, x_name = s.target.elts[0].id, s.target.elts[1].id
            seq = it.args[0]
            if len(it.args) == 2:
                start = it.args[1]
            elif it.keywords:
                if len(it.keywords) == 1 and it.keywords[0].arg == 'start':
                    start = it.keywords[0].value
                else:
                    raise Unsupported('enumerate keywords')
        else:
            if not isinstance(s.target, ast.Name):
                raise Unsupported('for target')
            idx_name, x_name = None, s.target.id
            seq = it
        tseq, seq_t = self.expr(seq, env)
        if tseq == 'str':
            elem_t, conv = 'str', 'map (fun c_ => [c_])'
        elif tseq == 'list[str]':
            elem_t, conv = 'str', 'id'
        else:
            raise Unsupported('for over %s' % (tseq,))
        body_assigned = [n for n in self.assigned(s.body) if n not in (idx_name, x_name)]
        # names assigned in the body but not defined before the loop are iteration-local; reading
        # a stale value from a previous iteration or after the loop is rejected as a free name
        carried = [nm for nm in body_assigned if nm in env]
        st_pat = ('(' + ', '.join(carried) + ')') if len(carried) > 1 else (carried[0] if carried else 'tt_')
        st_val = ('(' + ', '.join(carried) + ')') if len(carried) > 1 else (carried[0] if carried else 'tt')
        env_body = dict(env)
        env_body[x_name] = elem_t
        if idx_name:
            env_body[idx_name] = 'int'
        body_k = lambda env2: 'ret (RNext %s)' % st_val
        body = self.block(list(s.body), env_body, body_k)
        def unpack(pat, val, single):
            return ('let %s := %s in ' if single else "let '%s := %s in ") % (pat, val)
        st_unpack = unpack(st_pat, 'st_', len(carried) <= 1)
        if idx_name:
            if start is not None:
                ts, st = self.expr(start, env)
                if ts != 'int':
                    raise Unsupported('enumerate start type')
            else:
                st = 'ret 0%Z'
            loop = ('bind (%s) (fun seq_ => bind (%s) (fun start_ => '
                    "py_for (enumerate_from start_ (%s seq_)) %s (fun st_ ix_ => %slet '(%s, %s) := ix_ in %s)))"
                    % (seq_t, st, conv, st_val, st_unpack, idx_name, x_name, body))
        else:
            loop = ('bind (%s) (fun seq_ => py_for (%s seq_) %s (fun st_ %s => %s%s))'
                    % (seq_t, conv, st_val, x_name, st_unpack, body))
        after = self.block(rest, env, k)
        return ('bind (%s) (fun lr_ => match lr_ with RReturn r_ => ret (RReturn r_) | RNext st_ => %s%s end)'
                % (loop, st_unpack, after))

    def translate(self):
        fn = self.fn
        args = [a.arg for a in fn.args.args]
        for a in args:
            if a not in self.argtypes:
                raise Unsupported('no type for argument ' + a)
        env = {a: self.argtypes[a] for a in args}
        body = self.block(list(fn.body), env, lambda env2: 'Err ENoReturn')
        return args, body


GTYPES = {'str': 'pystr', 'bool': 'bool', 'int': 'Z', 'list[str]': 'list pystr', 'float': 'pystr'}


def find_function(tree, name):
    for n in ast.walk(tree):
        if isinstance(n, ast.FunctionDef) and n.name == name:
            return n
    raise Unsupported('function %s not found' % name)


def translate_function(tree, name, argtypes, rettype, tables=None, coq_name=None):
    fn = find_function(tree, name)
    tr = Fn(fn, argtypes, tables or {}, rettype)
    args, body = tr.translate()
    sig = ' '.join('(%s : %s)' % (a, GTYPES[argtypes[a]]) for a in args)
    cname = coq_name or name.lstrip('_')
    return ('Definition %s %s : res %s :=\n  unwrap_return (%s).\n' % (cname, sig, GTYPES[rettype], body))


def find_dict(tree, name):
    """first `name = {const: const, ...}` assignment anywhere in the module"""
    for n in ast.walk(tree):
        if isinstance(n, ast.Assign) and len(n.targets) == 1 and isinstance(n.targets[0], ast.Name) \
                and n.targets[0].id == name and isinstance(n.value, ast.Dict):
            out = []
            for k, v in zip(n.value.keys, n.value.values):
                if not (isinstance(k, ast.Constant) and isinstance(v, ast.Constant)):
                    raise Unsupported('table %s has non-constant entries' % name)
                out.append((k.value, v.value))
            return out
    raise Unsupported('table %s not found' % name)


def table_def(cname, entries, keytype, valtype):
    """assoc list + lookup (KeyError when missing). valtype 'num' = pyval (VInt / VFlt)"""
    def key(k):
        t, c = coq_const(k)
        if t != keytype:
            raise Unsupported('table %s key %r is not %s' % (cname, k, keytype))
        return c

    def val(v):
        if valtype == 'num':
            if isinstance(v, bool) or not isinstance(v, (int, float)):
                raise Unsupported('table %s value %r is not a number' % (cname, v))
            return '(VInt (%d)%%Z)' % v if isinstance(v, int) else '(VFlt %s)' % coq_str(repr(v))
        t, c = coq_const(v)
        if t != valtype:
            raise Unsupported('table %s value %r is not %s' % (cname, v, valtype))
        return c
    kty = GTYPES[keytype]
    vty = 'pyval' if valtype == 'num' else GTYPES[valtype]
    rows = '; '.join('(%s, %s)' % (key(k), val(v)) for k, v in entries)
    eqb = {'str': 'str_eqb', 'int': 'Z.eqb'}[keytype]
    return ('Definition %s : list (%s * %s) := [%s].\n'
            'Definition %s_lookup (k : %s) : res %s :=\n'
            '  match find (fun kv => %s k (fst kv)) %s with Some kv => Ok (snd kv) | None => Err EKey end.\n'
            % (cname, kty, vty, rows, cname, kty, vty, eqb, cname))


HEADER = ('(* GENERATED by tools/py2v.py from %s -- do not edit; regenerated on every run *)\n'
          'From Coq Require Import String.\nFrom Coq Require Import List Ascii ZArith Bool.\n'
          'From CGV Require Import Base.PyBase Base.PyVal Base.PyGen.\nImport ListNotations.\n\n')

if __name__ == '__main__':
    src, fname = sys.argv[1], sys.argv[2]
    tree = ast.parse(open(src).read())
    print(translate_function(tree, fname, {}, 'bool'))
