"""gen plug-in of the hydrogen-completion / shared-atom component (C09, C10).

Target HydroGen (theories/Gen/HydroGen.v), regenerated on every run:
  * valence_table      obtained by CALLING the installed pysmiles (`pysmiles.smiles_helper.valence`)
                       for H B C N O F Na Mg Si P S Cl Br I x charges -2..+2 (None = the library
                       raises ValueError for that element/charge);
  * atomic_masses      `pysmiles.PTE[e]['AtomicMass']` as exact repr() and float.hex() strings;
  * h_atom_defaults    what `add_explicit_hydrogens` puts on a new node (parse_atom('[H]') minus hcount);
  * from cgsmiles/pysmiles_utils.py (ast, fail closed): the defaults `keep_bonding`, `copy_attrs` of
    rebuild_h_atoms and the constants it hands to pysmiles (strict=, the hcount reset value,
    respect_hcount=), the attribute names of the inheritance loop;
  * from cgsmiles/resolve.py (ast, fail closed): the descriptor prefix squash_atoms tests, the
    `self_loops` keyword it hands to networkx, the two attributes it concatenates.
"""
import ast
import json
import os
import subprocess
import sys

import py2v
from py2v import Unsupported, coq_str

import gen  # noqa: E402  (tools/gen.py; when gen.py runs as a script the plug-in registers there as well)


def _target(name, sources):
    mods = [gen]
    main_mod = sys.modules.get('__main__')
    if main_mod is not None and main_mod is not gen and hasattr(main_mod, 'TARGETS') and hasattr(main_mod, 'target'):
        mods.append(main_mod)

    def deco(f):
        for m in mods:
            m.TARGETS[name] = (sources, f)
        return f
    return deco


ELEMENTS = "H B C N O F Na Mg Si P S Cl Br I".split()
CHARGES = [-2, -1, 0, 1, 2]

_PROBE = r'''
import json, sys
import pysmiles
from pysmiles.smiles_helper import valence, parse_atom
els = %r
chs = %r
rows = []
for e in els:
    for q in chs:
        try:
            v = valence({'element': e, 'charge': q})
            if not (isinstance(v, list) and all(isinstance(x, int) and not isinstance(x, bool) for x in v)):
                raise SystemExit('valence(%%s,%%s) is not a list of ints: %%r' %% (e, q, v))
        except ValueError:
            v = None
        rows.append([e, q, v])
masses = []
for e in els:
    m = pysmiles.PTE[e]['AtomicMass']
    if not isinstance(m, float):
        m = float(m)
    masses.append([e, repr(m), m.hex()])
h = parse_atom('[H]')
del h['hcount']
try:
    from importlib.metadata import version
    ver = version('pysmiles')
except Exception:
    ver = ''
print(json.dumps({'version': ver,
                  'rows': rows, 'masses': masses, 'h_atom': h}))
'''


def probe_pysmiles():
    code = _PROBE % (ELEMENTS, CHARGES)
    try:
        import pysmiles  # noqa: F401
        exe = sys.executable
    except ImportError:
        exe = '/venv/bin/python'
    env = dict(os.environ)
    try:
        p = subprocess.run([exe, '-W', 'ignore', '-c', code], stdout=subprocess.PIPE, stderr=subprocess.PIPE,
                           text=True, timeout=120, env=env)
    except (OSError, subprocess.TimeoutExpired) as exc:
        raise Unsupported('cannot run the installed pysmiles: %s' % exc)
    if p.returncode != 0:
        raise Unsupported('probing the installed pysmiles failed: %s' % p.stderr[-500:])
    line = [l for l in p.stdout.splitlines() if l.startswith('{')]
    if not line:
        raise Unsupported('no answer from the pysmiles probe')
    return json.loads(line[-1])


def zlit(n):
    return '(%d)%%Z' % n


def pyval_lit(v):
    if v is None:
        return 'VNone'
    if isinstance(v, bool):
        return '(VBool %s)' % ('true' if v else 'false')
    if isinstance(v, int):
        return '(VInt %s)' % zlit(v)
    if isinstance(v, float):
        return '(VFlt %s)' % coq_str(repr(v))
    if isinstance(v, str):
        return '(VStr %s)' % coq_str(v)
    raise Unsupported('attribute value %r of a fresh hydrogen' % (v,))


def const(node, types, what):
    if not (isinstance(node, ast.Constant) and isinstance(node.value, types)):
        raise Unsupported('%s is not a constant of the expected type' % what)
    return node.value


def calls_in(fn, attr):
    return sorted([n for n in ast.walk(fn) if isinstance(n, ast.Call)
                   and ((isinstance(n.func, ast.Attribute) and n.func.attr == attr)
                        or (isinstance(n.func, ast.Name) and n.func.id == attr))],
                  key=lambda n: (n.lineno, n.col_offset))


def kw(call, name, what):
    ks = [k for k in call.keywords if k.arg == name]
    if len(ks) != 1:
        raise Unsupported('%s: keyword %s missing' % (what, name))
    return ks[0].value


@_target('HydroGen', ['cgsmiles/pysmiles_utils.py', 'cgsmiles/resolve.py'])
def gen_hydro(trees):
    out = 'From Coq Require Import Floats.PrimFloat.\n'
    # ------------------------------------------------------------------ installed pysmiles
    pr = probe_pysmiles()
    rows = []
    for e, q, v in pr['rows']:
        vv = 'None' if v is None else '(Some [%s])' % '; '.join(zlit(x) for x in v)
        rows.append('  ((%s, %s), %s)' % (coq_str(e), zlit(q), vv))
    out += ('(* valence({element, charge}) of the installed pysmiles %s, evaluated by calling it;\n'
            '   None = the library raises ValueError *)\n' % pr.get('version', ''))
    out += 'Definition valence_table : list ((pystr * Z) * option (list Z)) := [\n%s].\n' % ';\n'.join(rows)
    out += 'Definition valence_elements : list pystr := [%s].\n' % '; '.join(coq_str(e) for e in ELEMENTS)
    out += 'Definition valence_charges : list Z := [%s].\n\n' % '; '.join(zlit(q) for q in CHARGES)
    out += '(* pysmiles.PTE[e]["AtomicMass"]: (element, repr, float.hex) *)\n'
    out += 'Definition atomic_masses : list (pystr * (pystr * pystr)) := [\n%s].\n\n' % ';\n'.join(
        '  (%s, (%s, %s))' % (coq_str(e), coq_str(r), coq_str(h)) for e, r, h in pr['masses'])
    out += 'Definition atomic_mass_floats : list (pystr * PrimFloat.float) := [\n%s].\n\n' % ';\n'.join(
        '  (%s, (%s)%%float)' % (coq_str(e), h) for e, r, h in pr['masses'])
    out += '(* attributes add_explicit_hydrogens gives a new node: parse_atom("[H]") without hcount *)\n'
    out += 'Definition h_atom_defaults : attrs := [%s].\n\n' % '; '.join(
        '(%s, %s)' % (coq_str(k), pyval_lit(v)) for k, v in pr['h_atom'].items())

    # ------------------------------------------------------------------ pysmiles_utils.py
    t = trees['cgsmiles/pysmiles_utils.py']
    fn = py2v.find_function(t, 'rebuild_h_atoms')
    args = [a.arg for a in fn.args.args]
    if args != ['mol_graph', 'keep_bonding', 'copy_attrs'] or len(fn.args.defaults) != 2:
        raise Unsupported('signature of rebuild_h_atoms changed: %s' % args)
    keep_bonding = const(fn.args.defaults[0], bool, 'default of keep_bonding')
    copy_attrs = gen.str_list(fn.args.defaults[1])
    car = calls_in(fn, 'correct_aromatic_rings')
    fv = calls_in(fn, 'fill_valence')
    aeh = calls_in(fn, 'add_explicit_hydrogens')
    sna = calls_in(fn, 'set_node_attributes')
    if not (len(car) == 1 and len(fv) == 1 and len(aeh) == 1 and len(sna) == 1):
        raise Unsupported('rebuild_h_atoms no longer calls correct_aromatic_rings, set_node_attributes, '
                          'fill_valence, add_explicit_hydrogens exactly once each')
    if not (car[0].lineno < sna[0].lineno < fv[0].lineno < aeh[0].lineno):
        raise Unsupported('order of the steps of rebuild_h_atoms changed')
    for c in (car[0], fv[0], aeh[0]):
        if not (len(c.args) == 1 and isinstance(c.args[0], ast.Name) and c.args[0].id == 'mol_graph'):
            raise Unsupported('a pysmiles helper is not applied to mol_graph')
    if [k.arg for k in car[0].keywords] != ['strict'] or [k.arg for k in fv[0].keywords] != ['respect_hcount'] \
            or aeh[0].keywords:
        raise Unsupported('keywords handed to the pysmiles helpers changed')
    strict = const(kw(car[0], 'strict', 'correct_aromatic_rings'), bool, 'strict')
    respect = const(kw(fv[0], 'respect_hcount', 'fill_valence'), bool, 'respect_hcount')
    if not (len(sna[0].args) == 3 and isinstance(sna[0].args[0], ast.Name) and sna[0].args[0].id == 'mol_graph'):
        raise Unsupported('set_node_attributes call in rebuild_h_atoms changed shape')
    reset_val = const(sna[0].args[1], int, 'hcount reset value')
    reset_attr = const(sna[0].args[2], str, 'hcount reset attribute')
    if isinstance(reset_val, bool):
        raise Unsupported('hcount reset value is a bool')
    # the inheritance loop: the literals it tests (`element == "H"`, `.get("single_h_frag", False)`).  Its
    # control flow is hand-modelled and tied by the per-run correspondence, so only the literals are pinned.
    loops = [n for n in fn.body if isinstance(n, ast.For) and n.lineno > aeh[0].lineno]
    if len(loops) != 1:
        raise Unsupported('expected one for loop (attribute inheritance) after add_explicit_hydrogens')
    loop = loops[0]
    cmps = [n for n in ast.walk(loop) if isinstance(n, ast.Compare) and len(n.ops) == 1 and isinstance(n.ops[0], ast.Eq)
            and isinstance(n.comparators[0], ast.Constant) and isinstance(n.comparators[0].value, str)]
    gets = [n for n in ast.walk(loop) if isinstance(n, ast.Call) and isinstance(n.func, ast.Attribute)
            and n.func.attr == 'get' and len(n.args) == 2 and isinstance(n.args[0], ast.Constant)
            and isinstance(n.args[0].value, str) and isinstance(n.args[1], ast.Constant)
            and isinstance(n.args[1].value, bool)]
    if len(cmps) != 1 or len(gets) != 1:
        raise Unsupported('inheritance loop: expected one `== "<element>"` test and one `.get("<flag>", <bool>)`')
    h_elem = cmps[0].comparators[0].value
    skip_attr = gets[0].args[0].value
    skip_default = gets[0].args[1].value
    out += '(* cgsmiles/pysmiles_utils.py: rebuild_h_atoms *)\n'
    out += 'Definition rebuild_keep_bonding_default : bool := %s.\n' % ('true' if keep_bonding else 'false')
    out += 'Definition rebuild_copy_attrs_default : list pystr := [%s].\n' % '; '.join(coq_str(a) for a in copy_attrs)
    out += 'Definition rebuild_strict : bool := %s.\n' % ('true' if strict else 'false')
    out += 'Definition rebuild_respect_hcount : bool := %s.\n' % ('true' if respect else 'false')
    out += 'Definition rebuild_reset_attr : pystr := %s.\n' % coq_str(reset_attr)
    out += 'Definition rebuild_reset_value : Z := %s.\n' % zlit(reset_val)
    out += 'Definition inherit_element : pystr := %s.\n' % coq_str(h_elem)
    out += 'Definition inherit_skip_attr : pystr := %s.\n' % coq_str(skip_attr)
    out += 'Definition inherit_skip_default : bool := %s.\n\n' % ('true' if skip_default else 'false')

    # ------------------------------------------------------------------ resolve.py: squash_atoms
    t = trees['cgsmiles/resolve.py']
    fn = py2v.find_function(t, 'squash_atoms')
    sw = calls_in(fn, 'startswith')
    cn = calls_in(fn, 'contracted_nodes')
    gea = calls_in(fn, 'get_edge_attributes')
    if not (len(sw) == 1 and len(cn) == 1 and len(gea) == 1):
        raise Unsupported('squash_atoms changed shape')
    if not (isinstance(sw[0].func.value, ast.Subscript) and isinstance(sw[0].func.value.slice, ast.Constant)
            and sw[0].func.value.slice.value == 0) or len(sw[0].args) != 1:
        raise Unsupported('squash_atoms tests %s' % ast.unparse(sw[0]))
    prefix = const(sw[0].args[0], str, 'squash prefix')
    edge_attr = const(gea[0].args[1], str, 'edge attribute of squash_atoms')
    if len(cn[0].args) != 3 or [k.arg for k in cn[0].keywords] != ['self_loops']:
        raise Unsupported('arguments of contracted_nodes changed')
    self_loops = const(kw(cn[0], 'self_loops', 'contracted_nodes'), bool, 'self_loops')
    aug = [n for n in ast.walk(fn) if isinstance(n, ast.AugAssign)]
    aug.sort(key=lambda n: n.lineno)
    names = []
    for a in aug:
        if not (isinstance(a.op, ast.Add) and isinstance(a.target, ast.Subscript)):
            raise Unsupported('augmented assignment in squash_atoms changed shape')
        nm = const(a.target.slice, str, 'concatenated attribute')
        names.append(nm)
    # the hydrogen count of the merged atom: `kept['hcount'] = min(kept['hcount'], removed['hcount'])`
    mins = calls_in(fn, 'min')
    if len(mins) != 1 or len(mins[0].args) != 2 or mins[0].keywords:
        raise Unsupported('squash_atoms: expected exactly one min(a, b) call (hydrogen count of the merged atom)')
    keys = []
    for a in mins[0].args:
        if not (isinstance(a, ast.Subscript) and isinstance(a.slice, ast.Constant) and isinstance(a.slice.value, str)):
            raise Unsupported('squash_atoms: arguments of min are not <dict>[<constant>]')
        keys.append(a.slice.value)
    if keys[0] != keys[1]:
        raise Unsupported('squash_atoms: min compares different attributes')
    out += '(* cgsmiles/resolve.py: squash_atoms *)\n'
    out += 'Definition squash_min_attr : pystr := %s.\n' % coq_str(keys[0])
    out += 'Definition squash_prefix : pystr := %s.\n' % coq_str(prefix)
    out += 'Definition squash_edge_attr : pystr := %s.\n' % coq_str(edge_attr)
    out += 'Definition squash_self_loops : bool := %s.\n' % ('true' if self_loops else 'false')
    out += 'Definition squash_concat_attrs : list pystr := [%s].\n' % '; '.join(coq_str(a) for a in names)
    return out


# ---------------------------------------------------------------------------------------------------------------
# HydroCutGen: what the IMPLEMENTATION reads and builds for one worked description with shared atoms (one atom shared
# by three fragments plus an ordinary cut bond), written with `!`, with `$`, and as the molecule's own cut.  Recorded
# by running /repo; theories/Hydro/ShareCutImpl.v decides the hypotheses of C10_share_vs_cut_resolver_full on these
# dictionaries and compares the model's graphs with the recorded ones.  Fail closed: if a run raises or a graph
# changes, the generated file disappears / the examples stop compiling.
CUT_EXAMPLE = {
    'bang': "{[#A][#B][#E][#F]}.{#A=CC[!s],#B=C[!s][!t]O,#E=C[!t]N[$c],#F=C[$c]}",
    'dollar': "{[#A][#B][#E][#F]}.{#A=CC[$s],#B=C[$s][$t]O,#E=C[$t]N[$c],#F=C[$c]}",
    'plain': "{[#A]([#B])[#E][#F]}.{#A=CC[$a][$b],#B=O[$a],#E=N[$b][$c],#F=C[$c]}",
}

_CUT_PROBE = r'''
import copy, json, sys
sys.path.insert(0, %r)
import lit
from cgsmiles.resolve import MoleculeResolver
ex = %r
out = {}
for key, text in ex.items():
    r = MoleculeResolver.from_string(text)
    fd = r.fragment_dicts[0]
    rec = {'fd': lit.lst([lit.pair(lit.s(nm), lit.nxgraph(g)) for nm, g in fd.items()]),
           'base': lit.nxgraph(copy.deepcopy(r.molecule))}
    o1 = r.edges_from_bonding_descrpt
    o2 = r.squash_atoms
    def w1(all_atom=True, o1=o1, r=r, rec=rec):
        o1(all_atom=all_atom)
        rec['aa'] = bool(all_atom)
        rec['m2'] = lit.nxgraph(copy.deepcopy(r.molecule))
    def w2(o2=o2, r=r, rec=rec):
        o2()
        rec['sq'] = lit.nxgraph(copy.deepcopy(r.molecule))
    r.edges_from_bonding_descrpt = w1
    r.squash_atoms = w2
    r.resolve()
    for k in ('aa', 'm2', 'sq'):
        if k not in rec:
            raise SystemExit('resolve() of %%r did not reach %%s' %% (text, k))
    out[key] = rec
print(json.dumps(out))
'''


def probe_cut_example():
    here = os.path.dirname(os.path.abspath(__file__))
    code = _CUT_PROBE % (here, CUT_EXAMPLE)
    env = dict(os.environ)
    repo = env.get('CGV_REPO', '/repo')
    env['PYTHONPATH'] = repo + (os.pathsep + env['PYTHONPATH'] if env.get('PYTHONPATH') else '')
    env.setdefault('PBR_VERSION', '0.0.0')
    try:
        import pysmiles  # noqa: F401
        exe = sys.executable
    except ImportError:
        exe = '/venv/bin/python'
    try:
        p = subprocess.run([exe, '-W', 'ignore', '-c', code], stdout=subprocess.PIPE, stderr=subprocess.PIPE,
                           text=True, timeout=120, env=env, cwd=here)
    except (OSError, subprocess.TimeoutExpired) as exc:
        raise Unsupported('cannot run the implementation on the shared-atom example: %s' % exc)
    if p.returncode != 0:
        raise Unsupported('the implementation failed on the shared-atom example: %s' % p.stderr[-500:])
    line = [l for l in p.stdout.splitlines() if l.startswith('{')]
    if not line:
        raise Unsupported('no answer from the shared-atom example probe')
    return json.loads(line[-1])


@_target('HydroCutGen', ['cgsmiles/resolve.py', 'cgsmiles/read_fragments.py', 'cgsmiles/read_cgsmiles.py',
                          'cgsmiles/pysmiles_utils.py'])
def gen_hydro_cut(trees):
    pr = probe_cut_example()
    out = 'From CGV Require Import Base.NxGraph.\nOpen Scope Z_scope.\n\n'
    out += ('(* recorded by RUNNING the implementation (MoleculeResolver.from_string / resolve) on one description with\n'
            '   shared atoms: the fragment dictionary and the base graph as read, the fine graph right after\n'
            '   edges_from_bonding_descrpt and right after squash_atoms *)\n')
    for key in ('bang', 'dollar', 'plain'):
        rec = pr[key]
        out += 'Definition cutex_%s_string : pystr := %s.\n' % (key, coq_str(CUT_EXAMPLE[key]))
        out += 'Definition cutex_%s_fd : list (pystr * graph) := %s.\n' % (key, rec['fd'])
        out += 'Definition cutex_%s_base : graph := %s.\n' % (key, rec['base'])
        out += 'Definition cutex_%s_aa : bool := %s.\n' % (key, 'true' if rec['aa'] else 'false')
        out += 'Definition cutex_%s_bonded : graph := %s.\n' % (key, rec['m2'])
        out += 'Definition cutex_%s_squashed : graph := %s.\n\n' % (key, rec['sq'])
    return out


# ---------------------------------------------------------------------------------------------------------------
# AromGen: the constants of the installed pysmiles that theories/Hydro/Aromatic.v (model of
# smiles_helper.correct_aromatic_rings / dekekulize) reads, obtained by IMPORTING the library: AROMATIC_ATOMS and the
# default thresholds of dekekulize (taken from its source text; fail closed when the two `if ... is not None else N`
# lines are no longer there), and the parameter lists of the functions the model follows.
_AROM_PROBE = r'''
import inspect, json, re
from pysmiles import smiles_helper as SH
src = inspect.getsource(SH.dekekulize)
thr = re.findall(r'estimation_threshold = estimation_threshold if estimation_threshold is not None else (\d+)', src)
mrs = re.findall(r'max_ring_size = max_ring_size if max_ring_size is not None else (\d+)', src)
if len(thr) != 1 or len(mrs) != 1:
    raise SystemExit('defaults of dekekulize not found')
sigs = {f: list(inspect.signature(getattr(SH, f)).parameters) for f in
        ('correct_aromatic_rings', 'dekekulize', '_prune_nodes', '_ring_is_aromatic', '_estimate_aromatic_cycles')}
at = list(SH.AROMATIC_ATOMS)
if not all(isinstance(x, str) for x in at):
    raise SystemExit('AROMATIC_ATOMS is not a list of strings')
print(json.dumps({'atoms': at, 'threshold': int(thr[0]), 'max_ring': int(mrs[0]), 'sigs': sigs}))
'''
_AROM_SIGS = {'correct_aromatic_rings': ['mol', 'strict', 'estimation_threshold', 'max_ring_size'],
              'dekekulize': ['mol', 'estimation_threshold', 'max_ring_size'],
              '_prune_nodes': ['nodes', 'mol'], '_ring_is_aromatic': ['mol', 'nodes'],
              '_estimate_aromatic_cycles': ['mol']}


def probe_arom():
    try:
        import pysmiles  # noqa: F401
        exe = sys.executable
    except ImportError:
        exe = '/venv/bin/python'
    try:
        p = subprocess.run([exe, '-W', 'ignore', '-c', _AROM_PROBE], stdout=subprocess.PIPE, stderr=subprocess.PIPE,
                           text=True, timeout=120, env=dict(os.environ))
    except (OSError, subprocess.TimeoutExpired) as exc:
        raise Unsupported('cannot run the installed pysmiles: %s' % exc)
    if p.returncode != 0:
        raise Unsupported('probing pysmiles.smiles_helper (aromaticity) failed: %s' % (p.stderr or p.stdout)[-500:])
    line = [l for l in p.stdout.splitlines() if l.startswith('{')]
    if not line:
        raise Unsupported('no answer from the aromaticity probe')
    return json.loads(line[-1])


@_target('AromGen', [])
def gen_arom(trees):
    pr = probe_arom()
    if pr['sigs'] != _AROM_SIGS:
        raise Unsupported('signatures of the aromaticity helpers of pysmiles changed: %r' % (pr['sigs'],))
    out = 'Open Scope Z_scope.\n'
    out += '(* pysmiles.smiles_helper.AROMATIC_ATOMS of the installed library *)\n'
    out += 'Definition aromatic_atoms : list pystr := [%s].\n' % '; '.join(coq_str(a) for a in pr['atoms'])
    out += '(* dekekulize: ring systems with more nodes than this are estimated, not enumerated *)\n'
    out += 'Definition estimation_threshold : Z := %s.\n' % zlit(pr['threshold'])
    out += 'Definition max_ring_size : Z := %s.\n' % zlit(pr['max_ring'])
    return out
