#!/bin/sh
# confirm_seed.sh <dir with mutN.diff demoN.py metaN.json> <N> <seed-id>   → copies confirmed seed into /verif/seeded/<seed-id>/
src="$1"; n="$2"; id="$3"
wt=$(mktemp -d /tmp/confirm.XXXXXX); rmdir "$wt"
git -C /repo worktree add --detach "$wt" ${CONFIRM_BASE:-HEAD} >/dev/null 2>&1 || { echo "worktree failed"; exit 2; }
run_demo() { (cd "$wt" && PBR_VERSION=0.0.0 PYTHONPATH="$wt" timeout 600 /venv/bin/python "$src/demo$n.py" >/dev/null 2>&1; echo $?); }
clean_rc=$(run_demo)
(cd "$wt" && git apply "$src/mut$n.diff") || { echo "patch does not apply"; git -C /repo worktree remove --force "$wt"; exit 2; }
tests=$(cd "$wt" && PBR_VERSION=0.0.0 timeout 900 /venv/bin/python -m pytest -q -p no:cacheprovider 2>&1 | tail -1)
mut_rc=$(run_demo)
(cd "$wt" && git checkout -- . )
git -C /repo worktree remove --force "$wt"
echo "seed=$id demo_on_clean_rc=$clean_rc tests_with_change='$tests' demo_with_change_rc=$mut_rc"
case "$tests" in *"150 passed"*) t_ok=1;; *) t_ok=0;; esac
if [ "$clean_rc" = 0 ] && [ "$mut_rc" != 0 ] && [ "$t_ok" = 1 ]; then
  mkdir -p /verif/seeded/$id
  cp "$src/mut$n.diff" /verif/seeded/$id/patch.diff; cp "$src/demo$n.py" /verif/seeded/$id/demo.py
  /venv/bin/python - "$src/meta$n.json" "$id" "$tests" <<'PY'
import json,sys
m=json.load(open(sys.argv[1])); 
m['seed_id']=sys.argv[2]
m['confirmed']={'scratch_worktree':'git -C /repo worktree add --detach /tmp/confirm.* HEAD','demo_on_unmodified_code':'exit 0','test_suite_with_change':sys.argv[3],'demo_with_change':'exit non-zero'}
m.setdefault('detected_by',{})
json.dump(m,open('/verif/seeded/%s/meta.json'%sys.argv[2],'w'),indent=1)
PY
  echo CONFIRMED
else echo REJECTED; fi
