#!/bin/sh
# run_all.sh [tier] : every claimed check once on the current tree, with timing
tier=${1:-quick}
cd /verif
for p in $(/venv/bin/python -c "import json; print(' '.join(c['property_id'] for c in json.load(open('MANIFEST.json'))['checks']))"); do
  s=$(date +%s)
  out=$(VERIF_SEED=${VERIF_SEED:-1} timeout 3600 ./check $p --tier $tier 2>&1); rc=$?
  e=$(date +%s)
  echo "$p rc=$rc t=$((e-s))s viol=$(echo "$out" | grep -c '^VIOLATION') known=$(echo "$out" | grep -c '^KNOWN-FINDING')"
  echo "$out" | grep '^VIOLATION' | cut -c1-300
done
/venv/bin/python -c "import sys; sys.path.insert(0,\"/verif/tools\"); import common; h=common.forbidden_hits(None); print(\"GLOBAL-GATE:\", h if h else \"clean (no Admitted/admit/Axiom/Parameter/Conjecture/disabled checks under theories/)\")"
