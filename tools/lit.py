"""Gallina literal printers: Python values -> Coq terms over CGV.Base (PyBase/PyVal/NxGraph).
Every term is self-delimiting (parenthesised) so that callers can concatenate freely."""
import math

def s(text):
    """pystr literal"""
    for ch in text:
        if ord(ch) > 126 or (ord(ch) < 32 and ch not in '\n\t'):
            raise ValueError('non printable-ASCII character in literal: %r' % text)
    return '(S "%s")' % text.replace('"', '""')

def ch(c):
    assert len(c) == 1
    if c == '"':
        return '""""%char'
    return '"%s"%%char' % c

def z(n):
    return '(%d)%%Z' % int(n)

def nat(n):
    assert n >= 0
    return '(%d)%%nat' % int(n)

def b(x):
    return 'true' if x else 'false'

def lst(items):
    return '[' + '; '.join(items) + ']'

def opt(x, f):
    return 'None' if x is None else '(Some %s)' % f(x)

def pair(a, b_):
    return '(%s, %s)' % (a, b_)

def float_repr(x):
    x = float(x)
    if math.isnan(x):
        return 'nan'
    return repr(x)

def pyval(v):
    import numbers
    try:
        import numpy as np
        if isinstance(v, np.generic):
            v = v.item()
        elif isinstance(v, np.ndarray):
            v = v.tolist()
    except ImportError:
        pass
    if v is None:
        return 'VNone'
    if isinstance(v, bool):
        return '(VBool %s)' % b(v)
    if isinstance(v, int):
        return '(VInt %s)' % z(v)
    if isinstance(v, float):
        return '(VFlt %s)' % s(float_repr(v))
    if isinstance(v, str):
        return '(VStr %s)' % s(v)
    if isinstance(v, list):
        return '(VList %s)' % lst([pyval(x) for x in v])
    if isinstance(v, (tuple, set, frozenset)):
        if isinstance(v, (set, frozenset)):
            v = sorted(v)
        return '(VTup %s)' % lst([pyval(x) for x in v])
    if isinstance(v, dict):
        return '(VDict %s)' % lst([pair(pyval(k), pyval(x)) for k, x in v.items()])
    raise TypeError('no Gallina literal for %r' % (type(v),))

def attrs(d, skip=()):
    return lst([pair(s(str(k)), pyval(v)) for k, v in d.items() if k not in skip])

def obs_graph(G, skip_node=(), skip_edge=(), only_node=None, only_edge=None):
    """(nodes_data, edges_data) in networkx iteration order"""
    def filt(d, skip, only):
        return {k: v for k, v in d.items() if k not in skip and (only is None or k in only)}
    nodes = lst([pair(z(n), attrs(filt(d, skip_node, only_node))) for n, d in G.nodes(data=True)])
    edges = lst(['(%s, %s, %s)' % (z(u), z(v), attrs(filt(d, skip_edge, only_edge))) for u, v, d in G.edges(data=True)])
    return '(%s, %s)' % (nodes, edges)

def nxgraph(G, skip_node=(), skip_edge=()):
    """CGV.Base.NxGraph.graph literal with node and adjacency insertion order"""
    recs = []
    for n, d in G._node.items():
        adj = lst([pair(z(w), attrs({k: v for k, v in ed.items() if k not in skip_edge})) for w, ed in G._adj[n].items()])
        recs.append('{| nk := %s; na := %s; nadj := %s |}' % (z(n), attrs({k: v for k, v in d.items() if k not in skip_node}), adj))
    return lst(recs)
