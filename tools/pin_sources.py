#!/usr/bin/env python3
"""pin_sources.py : record the AST digests of /repo's cgsmiles/*.py (at the commit the checks were validated
on) in tools/source_pins.json.  common.run_prop raises its search budget when a relevant file differs."""
import json
import os
import subprocess
import sys
sys.path.insert(0, os.path.dirname(os.path.abspath(__file__)))
import common

d = os.path.join(common.REPO, 'cgsmiles')
files = {'cgsmiles/' + f: common.source_digest(os.path.join(d, f)) for f in sorted(os.listdir(d)) if f.endswith('.py')}
head = subprocess.run('git -C %s rev-parse --short HEAD' % common.REPO, shell=True, capture_output=True, text=True).stdout.strip()
dirty = subprocess.run('git -C %s status --porcelain -- cgsmiles' % common.REPO, shell=True, capture_output=True, text=True).stdout.strip()
assert not dirty, '/repo working tree is not clean: ' + dirty
json.dump({'repo_commit': head, 'files': files}, open(os.path.join(common.VERIF, 'tools', 'source_pins.json'), 'w'), indent=1)
print('pinned', len(files), 'files at', head)
