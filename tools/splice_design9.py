#!/usr/bin/env python3
"""splice_design9.py : replace the per-property paragraphs of DESIGN.md section 9 by the files
.work/design9/Cxx.md (text before a line `---`).  Paragraphs without a file are left alone."""
import glob
import os
import re

D = '/verif/DESIGN.md'
s = open(D).read()
a = s.index('## 9. As built: per property')
b = s.index('## 11. Findings on the unchanged tree')
sec = s[a:b]
# split into head + paragraphs keyed by property id
parts = re.split(r'(?m)^(?=\*\*C\d\d[ .(])', sec)
head, paras = parts[0], parts[1:]
out = [head]
seen = set()
for p in paras:
    ids = re.match(r'\*\*(C\d\d)(?:/(C\d\d))?', p)
    pid = ids.group(1)
    both = [x for x in ids.groups() if x]
    files = [f for f in ('/verif/.work/design9/%s.md' % x for x in both) if os.path.exists(f)]
    if files and len(files) == len(both):
        txt = ''
        for f in files:
            body = open(f).read().split('\n---')[0].strip()
            txt += body + '\n\n'
        out.append(txt)
    else:
        out.append(p if p.endswith('\n\n') else p.rstrip('\n') + '\n\n')
    seen.update(both)
# paragraphs that have a file but are missing from the section are inserted in id order
for f in sorted(glob.glob('/verif/.work/design9/C*.md')):
    pid = os.path.basename(f)[:-3]
    if pid in seen:
        continue
    body = open(f).read().split('\n---')[0].strip() + '\n\n'
    k = 1
    while k < len(out) and (re.match(r'\*\*(C\d\d)', out[k]).group(1) < pid):
        k += 1
    out.insert(k, body)
    seen.add(pid)
open(D, 'w').write(s[:a] + ''.join(out) + s[b:])
print('spliced', sorted(os.path.basename(f)[:-3] for f in glob.glob('/verif/.work/design9/C*.md')))
