#!/bin/sh
# coqchk_all.sh : re-check the compiled property files and everything they depend on with Coq's independent
# checker and record the context summary (axioms, type-in-type, unsafe fixpoints, assumed positivity) per
# property in /verif/coqchk_report.txt.  Needs a complete build (make -C /verif all).  ~1-5 min per file.
cd /verif || exit 2
out=coqchk_report.txt
tmp=$(mktemp -d /tmp/coqchk.XXXXXX)
ls theories/Properties/C*.v | sed 's#theories/Properties/##; s#\.v$##' | \
  xargs -P "${JOBS:-4}" -I{} sh -c 'timeout 3600 coqchk -silent -o -Q theories CGV CGV.Properties.{} > '"$tmp"'/{}.txt 2>&1; echo "rc=$?" >> '"$tmp"'/{}.txt'
{
  echo "coqchk -silent -o -Q theories CGV CGV.Properties.Cxx  (Coq $(coqc --version | head -1 | sed 's/.*version //'))"
  echo "tree: /verif $(git rev-parse --short HEAD), /repo $(git -C /repo rev-parse --short HEAD)"
  for f in $(ls $tmp | sort); do
    echo "=== ${f%.txt}"
    sed -n '/CONTEXT SUMMARY/,$p' "$tmp/$f" | grep -v '^ *$' | grep -v '^=*$'
  done
} > $out
rm -rf "$tmp"
grep -c "rc=0" $out
