#!/usr/bin/env python3
"""run_seeded.py [--jobs N] [--only id,id] : run every seeded change in /verif/seeded/ against the checks
of the properties it may affect, each in a scratch copy of /repo (patch applied) + scratch copy of /verif
(so that neither /repo nor theories/Gen is disturbed), record the outcome in seeded/<id>/meta.json
("detected_by") and write seeded/RESULTS.md."""
import glob
import json
import os
import re
import shutil
import subprocess
import sys
import tempfile
from concurrent.futures import ThreadPoolExecutor

FILE_PROPS = {
    'cgsmiles/read_cgsmiles.py': ['C04', 'C05', 'C20', 'C07'],
    'cgsmiles/read_fragments.py': ['C13', 'C01', 'C15', 'C08'],
    'cgsmiles/resolve.py': ['C03', 'C02', 'C10', 'C11', 'C12', 'C06', 'C01'],
    'cgsmiles/graph_utils.py': ['C02', 'C12', 'C16', 'C06'],
    'cgsmiles/pysmiles_utils.py': ['C09', 'C14', 'C15', 'C17'],
    'cgsmiles/write_cgsmiles.py': ['C07', 'C08'],
    'cgsmiles/sample.py': ['C16', 'C17'],
    'cgsmiles/cgsmiles_utils.py': ['C16', 'C17', 'C06'],
    'cgsmiles/rdkit.py': ['C18'],
    'cgsmiles/coordinates.py': ['C18'],
    'cgsmiles/graph_layout.py': ['C19'],
    'cgsmiles/graph_layout_utils.py': ['C19'],
    'cgsmiles/dialects.py': ['C14', 'C20'],
}


def props_for(seed_id, patch):
    own = seed_id.split('-')[0]
    out = [own]
    if os.environ.get('CGV_OWN_ONLY'):
        return out
    for f in re.findall(r'^\+\+\+ b/(\S+)', open(patch).read(), re.M):
        for p in FILE_PROPS.get(f, []):
            if p not in out:
                out.append(p)
    return out


def run_seed(seed_dir):
    sid = os.path.basename(seed_dir.rstrip('/'))
    patch = os.path.join(seed_dir, 'patch.diff')
    d = tempfile.mkdtemp(prefix='seedrun.', dir='/tmp')
    res = {}
    try:
        subprocess.run('cp -r ' + os.environ.get('CGV_REPO_SRC', '/repo').rstrip('/') + ' %s/repo && rm -rf %s/repo/.git && cd %s/repo && git init -q . && git add -A >/dev/null 2>&1 '
                       '&& git -c user.email=x@y -c user.name=x commit -qm base >/dev/null 2>&1' % (d, d, d), shell=True, check=True)
        subprocess.run('rsync -a --exclude .git --exclude .work --exclude replays %s/ %s/verif/' % (os.environ.get('CGV_VERIF_SRC', '/verif').rstrip('/'), d), shell=True, check=True)
        ap = subprocess.run('cd %s/repo && git apply %s' % (d, patch), shell=True, capture_output=True, text=True)
        if ap.returncode != 0:
            return sid, {'_error': 'patch does not apply to /repo HEAD: ' + ap.stderr[:200]}
        for p in props_for(sid, patch):
            pr = subprocess.run('cd %s/verif && CGV_REPO=%s/repo timeout 3000 ./check %s --tier quick' % (d, d, p), shell=True,
                                capture_output=True, text=True)
            out = pr.stdout
            viol = [l for l in out.splitlines() if l.startswith('VIOLATION')]
            r = {'rc': pr.returncode, 'violation': bool(viol)}
            if viol:
                r['no_failing_input_found'] = viol[0].rstrip().endswith('no-failing-input-found')
                m = re.search(r'replay=(\S+)', viol[0])
                if m and os.path.exists(m.group(1)):
                    rep = json.load(open(m.group(1)))
                    r['failing_input'] = json.dumps(rep.get('input'), default=str)[:400] if rep.get('input') is not None else None
                    r['failing_clause'] = rep.get('failing_clause')
                    if rep.get('broken'):
                        r['broken'] = [b.get('kind') for b in rep['broken']]
            res[p] = r
    finally:
        shutil.rmtree(d, ignore_errors=True)
    return sid, res


def main(argv):
    jobs = 4
    only = None
    i = 0
    while i < len(argv):
        if argv[i] == '--jobs':
            jobs = int(argv[i + 1]); i += 2
        elif argv[i] == '--only':
            only = argv[i + 1].split(','); i += 2
        else:
            raise SystemExit('unknown argument ' + argv[i])
    seeds = sorted(glob.glob('/verif/seeded/C*-*/'))
    if only:
        seeds = [s for s in seeds if os.path.basename(s.rstrip('/')) in only]
    head = subprocess.run('git -C /repo rev-parse --short HEAD', shell=True, capture_output=True, text=True).stdout.strip()
    with ThreadPoolExecutor(max_workers=jobs) as ex:
        for sid, res in ex.map(run_seed, seeds):     # recorded as they finish (in seed order)
            mp = '/verif/seeded/%s/meta.json' % sid
            m = json.load(open(mp))
            m[os.environ.get('CGV_META_FIELD', 'detected_by')] = {'repo_head': head, 'verif_seed': os.environ.get('VERIF_SEED', '0'), 'how': 'tools/run_seeded.py: patch applied to a scratch copy of /repo, '
                                './check <property> --tier quick from a scratch copy of /verif (CGV_REPO)', 'checks': res}
            json.dump(m, open(mp, 'w'), indent=1)
            print(sid, {p: ('input' if r.get('violation') and not r.get('no_failing_input_found') else
                            'noinput' if r.get('violation') else 'silent') if isinstance(r, dict) else r
                        for p, r in res.items()}, flush=True)
    write_results()


def write_results():
    rows = []
    for mp in sorted(glob.glob('/verif/seeded/C*-*/meta.json')):
        sid = os.path.basename(os.path.dirname(mp))
        m = json.load(open(mp))
        det = m.get('detected_by', {}).get('checks', {})
        caught = [p for p, r in det.items() if isinstance(r, dict) and r.get('violation') and not r.get('no_failing_input_found')]
        weak = [p for p, r in det.items() if isinstance(r, dict) and r.get('violation') and r.get('no_failing_input_found')]
        silent = [p for p, r in det.items() if isinstance(r, dict) and not r.get('violation')]
        status = m.get('status', '')
        summ = (m.get('summary') or '').replace('\n', ' ').replace('|', '/')[:150]
        own = sid.split('-')[0]
        clause = ''
        if own in det and isinstance(det[own], dict):
            clause = str(det[own].get('failing_clause') or '')[:90].replace('|', '/')
        rows.append('| %s | %s | %s | %s | %s | %s | %s |' % (
            sid, summ, ', '.join(caught) or '—', ', '.join(weak) or '—', ', '.join(silent) or '—', clause,
            'superseded' if status.startswith('superseded') else ('error: ' + det['_error'][:60] if '_error' in det else '')))
    with open('/verif/seeded/RESULTS.md', 'w') as fh:
        fh.write('# Seeded changes and the checks that catch them\n\n'
                 'Generated by `tools/run_seeded.py`. "caught with input" = the check exits 1 with a VIOLATION line whose replay '
                 'names a concrete failing input; "caught without input" = VIOLATION … no-failing-input-found (a proof obligation '
                 'or the correspondence broke, no failing input found in the budget); "silent" = exit 0.\n\n'
                 '| seed | change | caught with input | caught without input | silent | failing clause (own property) | note |\n'
                 '|---|---|---|---|---|---|---|\n' + '\n'.join(rows) + '\n')


if __name__ == '__main__':
    main(sys.argv[1:])
