#!/venv/bin/python
"""check: ./check <Cxx> [--tier quick|thorough] [--replay file]"""
import importlib
import json
import os
import sys

HERE = os.path.dirname(os.path.abspath(__file__))
sys.path.insert(0, HERE)
import common


def main(argv):
    if not argv:
        raise SystemExit(__doc__)
    pid = argv[0].upper()
    tier = os.environ.get('VERIF_TIER', 'quick')
    replay = None
    i = 1
    while i < len(argv):
        if argv[i] == '--tier':
            tier = argv[i + 1]; i += 2
        elif argv[i] == '--replay':
            replay = argv[i + 1]; i += 2
        else:
            raise SystemExit('unknown argument ' + argv[i])
    seed = int(os.environ.get('VERIF_SEED', '0') or 0)
    common.setup_repo_import()
    mod = importlib.import_module('props.' + pid.lower())
    ctx = common.Ctx(pid, tier, seed)
    prop = mod.PROP
    if replay:
        obj = json.load(open(replay))
        return mod.replay(prop, ctx, obj) if hasattr(mod, 'replay') else common.replay_generic(prop, ctx, obj)
    if hasattr(mod, 'run'):
        return mod.run(prop, ctx)
    return common.run_prop(prop, ctx)


if __name__ == '__main__':
    sys.exit(main(sys.argv[1:]))
