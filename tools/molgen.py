"""molgen: random molecules over the organic subset, random connected partitions (cuts), SMILES
renderings of fragments with bonding descriptors, base-graph strings.  Used by C01 (and reused by
C06/C10/C15).  All randomness from the rng handed in.  The generator knows the expected answer: the
heavy-atom graph with element, charge, aromatic flag, bond orders and the hydrogen count every atom
must end up with (standard valence rule, smallest valence >= sum of bond orders, aromatic bond = 1.5)."""
import itertools
import networkx as nx

# usual valences (element, charge) -> ascending tuple; the subset the property quantifies over
VALENCES = {('C', 0): (4,), ('N', 0): (3, 5), ('O', 0): (2,), ('S', 0): (2, 4, 6), ('P', 0): (3, 5),
            ('F', 0): (1,), ('Cl', 0): (1,), ('Br', 0): (1,),
            ('N', 1): (4,), ('O', -1): (1,), ('S', -1): (1,)}
MAXV = {k: v[0] for k, v in VALENCES.items()}     # the generator stays within the FIRST valence


def new_mol():
    return nx.Graph()


def add_atom(m, el, charge=0, aromatic=False):
    k = len(m)
    m.add_node(k, element=el, charge=charge, aromatic=aromatic)
    return k


def used(m, a):
    return sum(m.edges[a, b]['order'] for b in m[a])


def spare(m, a):
    d = m.nodes[a]
    return MAXV[(d['element'], d['charge'])] - used(m, a)


def rand_molecule(rng, nmax=10, p_ring=0.5, p_arom=0.3, p_charge=0.15, p_multi=0.3, p_fused=0.25):
    m = new_mol()
    n = rng.randint(1, nmax)
    add_atom(m, rng.choice('CCCCNOS'))
    tries = 0
    while len(m) < n and tries < 200:
        tries += 1
        cands = [a for a in m if spare(m, a) >= 1 and not m.nodes[a]['aromatic']]
        arom_c = [a for a in m if m.nodes[a]['aromatic'] and m.nodes[a]['element'] == 'C' and spare(m, a) >= 1]
        cands += arom_c
        if not cands:
            break
        a = rng.choice(cands)
        r = rng.random()
        if r < p_arom * p_fused and not m.nodes[a]['aromatic']:
            # attach a naphthalene / quinoline system (two aromatic six-rings sharing a bond) by a single bond
            npos = rng.choice([None, None, 1, 2, 6, 7])
            ring = [add_atom(m, 'N' if i == npos else 'C', aromatic=True) for i in range(10)]
            for i, j in [(0, 1), (1, 2), (2, 3), (3, 4), (4, 5), (5, 0), (5, 6), (6, 7), (7, 8), (8, 9), (9, 4)]:
                m.add_edge(ring[i], ring[j], order=1.5)
            m.add_edge(a, ring[rng.choice([0, 3])], order=1)
            continue
        if r < p_arom and len(m) + 6 <= nmax + 6 and not m.nodes[a]['aromatic']:
            # attach a benzene or pyridine ring by a single bond
            ring = []
            npos = rng.randrange(6) if rng.random() < 0.3 else None
            for i in range(6):
                ring.append(add_atom(m, 'N' if i == npos and i != 0 else 'C', aromatic=True))
            for i in range(6):
                m.add_edge(ring[i], ring[(i + 1) % 6], order=1.5)
            m.add_edge(a, ring[0], order=1)
            continue
        el = rng.choice(['C', 'C', 'C', 'C', 'N', 'O', 'S', 'P', 'F', 'Cl', 'Br'])
        ch = 0
        if el == 'N' and rng.random() < p_charge:
            ch = 1
        elif el in ('O', 'S') and rng.random() < p_charge:
            ch = -1
        b = add_atom(m, el, ch)
        order = 1
        if rng.random() < p_multi:
            order = rng.choice([2, 2, 3])
        order = max(1, min(order, spare(m, a), MAXV[(el, ch)]))
        if m.nodes[a]['aromatic']:
            order = 1
        m.add_edge(a, b, order=order)
    # aliphatic ring closures
    if rng.random() < p_ring:
        for _ in range(rng.randint(1, 2)):
            cands = [a for a in m if spare(m, a) >= 1 and not m.nodes[a]['aromatic']]
            if len(cands) < 2:
                break
            a, b = rng.sample(cands, 2)
            if m.has_edge(a, b):
                continue
            try:
                path = nx.shortest_path(m, a, b)
            except nx.NetworkXNoPath:
                continue
            d = len(path) - 1
            if d < 2:
                continue
            # keep ring systems unambiguous for aromaticity perception: no aromatic atom in or next to
            # the new ring, no atom already in a ring, at most one multiple bond in the ring
            if any(m.nodes[x]['aromatic'] or any(m.nodes[y]['aromatic'] for y in m[x]) for x in path):
                continue
            if any(x in cyc for cyc in nx.cycle_basis(m) for x in path):
                continue
            multi = sum(1 for x, y in zip(path, path[1:]) if m.edges[x, y]['order'] != 1)
            exo = sum(1 for x in path for y in m[x] if y not in path and m.edges[x, y]['order'] != 1)
            if multi + exo > 1:
                continue
            o = 2 if (multi + exo == 0 and d >= 3 and spare(m, a) >= 2 and spare(m, b) >= 2 and rng.random() < 0.5) else 1
            m.add_edge(a, b, order=o)
    return m


def expected_h(m):
    out = {}
    for a in m:
        d = m.nodes[a]
        u = used(m, a)
        vals = VALENCES[(d['element'], d['charge'])]
        v = next((x for x in vals if x >= u), None)
        if v is None and d['aromatic'] and sum(1 for b in m[a] if m.nodes[b]['aromatic']) == 3:
            v = u          # ring-fusion atom: three aromatic bonds, no hydrogen
        out[a] = None if v is None else int(round(v - u))
    return out


# ------------------------------------------------------------------------------ partitions
def rand_partition(rng, m, kmax=4):
    """list of parts (lists of atoms), each connected"""
    atoms = list(m)
    k = rng.randint(1, min(kmax, len(atoms)))
    if k == 1 and len(atoms) >= 2 and rng.random() < 0.8:
        k = rng.randint(2, max(2, min(kmax, len(atoms))))      # uncut molecules are a small share only
    if rng.random() < 0.12:
        k = min(len(atoms), 9)          # many single-atom fragments (lone ring atoms, all bonds cut)
    seeds = rng.sample(atoms, k)
    owner = {s: i for i, s in enumerate(seeds)}
    frontier = list(seeds)
    while len(owner) < len(atoms):
        rng.shuffle(frontier)
        grew = False
        for a in list(frontier):
            nb = [b for b in m[a] if b not in owner]
            if nb:
                b = rng.choice(nb)
                owner[b] = owner[a]
                frontier.append(b)
                grew = True
                break
            frontier.remove(a)
        if not grew and not frontier:
            break
    parts = [[] for _ in range(k)]
    for a in atoms:
        parts[owner[a]].append(a)
    return [p for p in parts if p]


LABELS = ['a', 'b', 'c', 'd', 'e', 'f', 'g', 'h', 'k', 'm', 'p', 'q', 'r', 't', 'u', 'w', 'x', 'y', 'z',
          'A1', 'B2', 'C3', 'D4', 'E5', 'F6', 'G7', 'H8']


def cuts_of(m, parts):
    owner = {a: i for i, p in enumerate(parts) for a in p}
    return [(a, b) for a, b in m.edges if owner[a] != owner[b]], owner


# ------------------------------------------------------------------------------ SMILES rendering
ORDER_SYM = {1: '', 2: '=', 3: '#', 1.5: ''}


def atom_text(rng, d, explicit_h=None):
    el, ch, ar = d['element'], d['charge'], d['aromatic']
    sym = el.lower() if ar else el
    if ch == 0:
        if rng.random() < 0.08 and not ar:
            return '[%s]' % sym if False else sym
        return sym
    sign = '+' if ch > 0 else '-'
    return '[%s%s]' % (sym, sign)


def render_fragment(rng, m, part, desc, ring_style='low', desc_pos='after'):
    """SMILES of the subgraph induced by `part` with descriptors.
    desc: {atom: [(kind+label, order), ...]}.  Returns (text, atom order list).
    Descriptors are written after the atom; before or after that atom's ring digits per desc_pos;
    the first atom's descriptors may be written leading ([$x]=C)."""
    sub = m.subgraph(part)
    start = rng.choice(list(part))
    order_list = []
    seen = set()
    # choose DFS tree
    tree_children = {a: [] for a in part}
    ring_bonds = []

    def dfs(a, parent):
        seen.add(a)
        order_list.append(a)
        nbrs = [b for b in sub[a] if b != parent]
        rng.shuffle(nbrs)
        for b in nbrs:
            if b in seen:
                if (b, a) not in ring_bonds and (a, b) not in ring_bonds and b != parent:
                    ring_bonds.append((b, a))      # opened at b (earlier), closed at a
                continue
            tree_children[a].append(b)
            dfs(b, a)
    dfs(start, None)
    pos = {a: i for i, a in enumerate(order_list)}
    # ring digits
    open_at = {a: [] for a in part}
    close_at = {a: [] for a in part}
    for (u, v) in ring_bonds:
        a, b = (u, v) if pos[u] < pos[v] else (v, u)
        open_at[a].append((a, b))
        close_at[b].append((a, b))
    free = list(range(1, 90))
    marker = {}
    digits = {a: [] for a in part}
    for a in order_list:
        for rb in close_at[a]:
            mk = marker.pop(rb)
            digits[a].append(('close', mk, sub.edges[rb]['order']))
            free.append(mk)
            free.sort()
        for rb in open_at[a]:
            if ring_style == 'low':
                mk = free.pop(0)
            elif ring_style == 'pct':
                mk = free.pop(rng.randrange(9, 30))
            else:
                mk = free.pop(rng.randrange(0, 6))
            marker[rb] = mk
            digits[a].append(('open', mk, sub.edges[rb]['order']))

    def mk_text(mk):
        return str(mk) if mk < 10 else '%%%d' % mk

    lead = rng.random() < 0.3

    def desc_text(a, leading=False):
        out = ''
        for name, o in desc.get(a, []):
            sym = ORDER_SYM[o]
            out += ('[%s]%s' % (name, sym)) if leading else ('%s[%s]' % (sym, name))
        return out

    def emit(a, is_first=False):
        t = ''
        dtext = desc_text(a)
        if is_first and lead and desc.get(a):
            t += desc_text(a, leading=True)
            dtext = ''
        t += atom_text(rng, m.nodes[a])
        dg = ''
        for k, (kind, mk, o) in enumerate(digits[a]):
            sym = ORDER_SYM[o] if kind == 'open' else ''
            if o == 1.5:
                sym = ''
            dg += sym + mk_text(mk)
        ch = tree_children[a]
        paren_all = desc_pos == 'after_branches' and len(ch) >= 1 and rng.random() < 0.5
        late = desc_pos == 'after_branches' and (len(ch) >= 2 or paren_all)
        if desc_pos == 'before':
            # a %nn marker directly after ']' is fine; descriptor first, digits after
            t += dtext + dg
        elif late:
            t += dg
        else:
            t += dg + dtext
        for k, c in enumerate(ch):
            o = sub.edges[a, c]['order']
            sym = ORDER_SYM[o]
            if k < len(ch) - 1 or paren_all:
                t += '(' + sym + emit(c) + ')'
            else:
                if late:
                    # after the closed branches the descriptor belongs to the atom they hang on
                    t += dtext
                t += sym + emit(c)
        if late and paren_all:
            t += dtext
        return t
    return emit(start, True), order_list


# ------------------------------------------------------------------------------ base graph
BASE_SYM = {0: '.', 1: '', 2: '=', 3: '#', 4: '$'}


def render_base(rng, names, edges):
    """names: list of fragment names in node order (node i = names[i]); edges {(i,j): order}.
    Standard DFS rendering (never produces '))'), ring bonds with single digits / %nn."""
    g = nx.Graph()
    g.add_nodes_from(range(len(names)))
    for (i, j), o in edges.items():
        g.add_edge(i, j, order=o)
    comps = [sorted(c) for c in nx.connected_components(g)]
    comps.sort()
    out = ''
    numbering = []
    for ci, comp in enumerate(comps):
        start = rng.choice(comp)
        seen = set()
        children = {a: [] for a in comp}
        rings = []
        order_list = []

        def dfs(a, parent):
            seen.add(a)
            order_list.append(a)
            nb = sorted(g[a])
            rng.shuffle(nb)
            for b in nb:
                if b == parent:
                    continue
                if b in seen:
                    if (b, a) not in rings and (a, b) not in rings:
                        rings.append((b, a))
                    continue
                children[a].append(b)
                dfs(b, a)
        dfs(start, None)
        pos = {a: i for i, a in enumerate(order_list)}
        free = list(range(1, 90))
        marker = {}
        digits = {a: '' for a in comp}
        for a in order_list:
            for rb in [r for r in rings if max(r, key=lambda x: pos[x]) == a]:
                mk = marker.pop(rb)
                digits[a] += (str(mk) if mk < 10 else '%%%d' % mk)
                free.append(mk)
                free.sort()
            for rb in [r for r in rings if min(r, key=lambda x: pos[x]) == a]:
                mk = free.pop(0)
                marker[rb] = mk
                digits[a] += BASE_SYM[g.edges[rb]['order']] + (str(mk) if mk < 10 else '%%%d' % mk)

        def emit(a):
            t = '[#%s]' % names[a] + digits[a]
            ch = children[a]
            for k, c in enumerate(ch):
                sym = BASE_SYM[g.edges[a, c]['order']]
                if k < len(ch) - 1:
                    t += sym + '(' + emit(c) + ')'
                else:
                    t += sym + emit(c)
            return t
        if ci > 0:
            out += '.'
        out += emit(start)
        numbering += order_list
    return '{' + out + '}', numbering


def kekulized(rng, m):
    """copy of m with every aromatic six-ring written as a Kekule structure (upper-case atoms, alternating
    double bonds, random phase): another way of WRITING the same molecule, which the reader of the
    fragments and the aromaticity pass of the hydrogen step turn back into the aromatic ring"""
    k = m.copy()
    arom = [a for a in m if m.nodes[a]['aromatic']]
    for cyc in nx.cycle_basis(m.subgraph(arom)):
        ph = rng.randrange(2)
        for i in range(len(cyc)):
            k.edges[cyc[i], cyc[(i + 1) % len(cyc)]]['order'] = 2 if (i + ph) % 2 == 0 else 1
    for a in arom:
        k.nodes[a]['aromatic'] = False
    return k


def cut_case(rng, nmax=9, kmax=4, kinds=None, p_kekule=0.2):
    """one C01 input: molecule, partition, labelled cuts, fragment renderings, base graph string"""
    m0 = rand_molecule(rng, nmax=nmax)
    fused = any(m0.nodes[a]['aromatic'] and sum(1 for b in m0[a] if m0.nodes[b]['aromatic']) == 3 for a in m0)
    kek = any(m0.nodes[a]['aromatic'] for a in m0) and not fused and rng.random() < p_kekule
    # m is the molecule as it is WRITTEN in the cut string; m0 the molecule it denotes
    m = kekulized(rng, m0) if kek else m0
    parts = rand_partition(rng, m, kmax=kmax)
    cuts, owner = cuts_of(m, parts)
    # at most 4 cut bonds between a pair of fragments: merge offending parts
    pair_count = {}
    for a, b in cuts:
        key = tuple(sorted((owner[a], owner[b])))
        pair_count[key] = pair_count.get(key, 0) + 1
    if any(c > 4 for c in pair_count.values()):
        parts = [list(m)]
        cuts, owner = cuts_of(m, parts)
        pair_count = {}
    kind = kinds or rng.choice(['$', '><', 'mixed'])
    desc = {}
    labels = rng.sample(LABELS, len(cuts)) if len(cuts) <= len(LABELS) else None
    if labels is None:
        return None
    for (a, b), lab in zip(cuts, labels):
        o = m.edges[a, b]['order']
        oo = 1 if o == 1.5 else o
        k = '$' if kind == '$' else ('><' if kind == '><' else rng.choice(['$', '><']))
        if k == '$':
            da, db = '$' + lab, '$' + lab
        else:
            da, db = ('>' + lab, '<' + lab) if rng.random() < 0.5 else ('<' + lab, '>' + lab)
        desc.setdefault(a, []).append((da, oo))
        desc.setdefault(b, []).append((db, oo))
    for a in desc:
        rng.shuffle(desc[a])
    perm = list(range(len(parts)))
    rng.shuffle(perm)
    parts = [parts[i] for i in perm]
    owner = {a: i for i, p in enumerate(parts) for a in p}
    names = ['F%d' % i for i in range(len(parts))]
    texts = []
    orders = []
    for p in parts:
        style = rng.choice(['low', 'low', 'rand', 'pct'])
        dpos = rng.choice(['after', 'after', 'before', 'after_branches'])
        t, ol = render_fragment(rng, m, p, desc, ring_style=style, desc_pos=dpos)
        texts.append(t)
        orders.append(ol)
    edges = {}
    for a, b in cuts:
        key = tuple(sorted((owner[a], owner[b])))
        edges[key] = edges.get(key, 0) + 1
    base, numbering = render_base(rng, names, edges)
    # base graph lists nodes in DFS order: names must follow that order, so permute names accordingly
    frs = '{' + ','.join('#%s=%s' % (names[i], texts[i]) for i in rng.sample(range(len(parts)), len(parts))) + '}'
    ms = kekulized(rng, m0) if (kek and rng.random() < 0.5) else m0
    single_text, single_order = render_fragment(rng, ms, list(ms), {}, ring_style='low')
    single = '{[#M]}.{#M=%s}' % single_text
    # geometry of the cuts in the coordinates of the bonding step: coarse key = position in the base
    # string; fine key = offset of the fragment copy + index of the atom in its fragment text
    coarse_of_part = {p: k for k, p in enumerate(numbering)}
    offset = {}
    run = 0
    for k, p in enumerate(numbering):
        offset[p] = run
        run += len(parts[p])
    label_of = {}
    for (a, b), lab in zip(cuts, labels):
        label_of[(a, b)] = lab
    cutinfo = {}
    for (a, b) in cuts:
        o = m.edges[a, b]['order']
        oo = 1 if o == 1.5 else o
        lab = label_of[(a, b)]
        da = next(n for n, _ in desc[a] if n[1:] == lab)
        db = next(n for n, _ in desc[b] if n[1:] == lab)
        pa, pb = owner[a], owner[b]
        ka, kb = coarse_of_part[pa], coarse_of_part[pb]
        ua = offset[pa] + orders[pa].index(a)
        ub = offset[pb] + orders[pb].index(b)
        ea = (ua, da + str(oo))
        eb = (ub, db + str(oo))
        if ka > kb:
            ka, kb, ea, eb = kb, ka, eb, ea
        cutinfo.setdefault('%d-%d' % (ka, kb), []).append([ea[0], ea[1], eb[0], eb[1]])
    # the cut at graph level (theories/Compose/CutModel.v): the molecule AS WRITTEN (m, not m0), the parts in the
    # order of the base-graph nodes with their atoms in text order, per bond label / kind / orientation (for a
    # directional pair the first atom carries '>'), and the order in which an atom's descriptors are written
    gbonds = []
    cutset = {frozenset(c): c for c in cuts}
    for a, b in m.edges:
        o = m.edges[a, b]['order']
        c = cutset.get(frozenset((a, b)))
        if c is None:
            gbonds.append([a, b, o, '', True])
            continue
        lab = label_of[c]
        da = next(n for n, _ in desc[a] if n[1:] == lab)
        if da[0] == '$':
            gbonds.append([a, b, o, lab, True])
        elif da[0] == '>':
            gbonds.append([a, b, o, lab, False])
        else:
            gbonds.append([b, a, o, lab, False])
    glevel = {'atoms': [[a, m.nodes[a]['element'], m.nodes[a]['charge'], bool(m.nodes[a]['aromatic'])] for a in m],
              'bonds': gbonds,
              'parts': [[names[p], list(orders[p])] for p in numbering],
              'dord': [[a, [n + str(o) for n, o in desc[a]]] for a in desc],
              # the uncut molecule as the single-fragment string writes it: atoms in text order; whether it is the same
              # written molecule as the cut string's (not when one of them was kekulized)
              'single_order': list(single_order), 'single_same': ms is m}
    return {'s': base + '.' + frs, 'single': single, 'mol': mol_dump(m0), 'ncuts': len(cuts), 'nparts': len(parts),
            'kind': kind, 'cutinfo': cutinfo, 'kekule': kek, 'glevel': glevel}


def mol_dump(m):
    h = expected_h(m)
    return {'atoms': [[a, m.nodes[a]['element'], m.nodes[a]['charge'], bool(m.nodes[a]['aromatic']), h[a]] for a in m],
            'bonds': [[a, b, m.edges[a, b]['order']] for a, b in m.edges]}


def heavy_graph_of_result(g):
    """heavy-atom graph with H counts from an all-atom molecule returned by the resolver"""
    out = nx.Graph()
    for n, d in g.nodes(data=True):
        if d.get('element') != 'H':
            out.add_node(n, element=d.get('element'), charge=d.get('charge', 0), h=0)
    for a, b, d in g.edges(data=True):
        ea, eb = g.nodes[a].get('element'), g.nodes[b].get('element')
        if ea != 'H' and eb != 'H':
            out.add_edge(a, b, order=d.get('order'))
        elif ea == 'H' and eb != 'H':
            out.nodes[b]['h'] += 1
        elif eb == 'H' and ea != 'H':
            out.nodes[a]['h'] += 1
    return out


def expected_graph(mol):
    out = nx.Graph()
    for a, el, ch, ar, h in mol['atoms']:
        out.add_node(a, element=el, charge=ch, h=h)
    for a, b, o in mol['bonds']:
        out.add_edge(a, b, order=o)
    return out


def same_molecule(g1, g2):
    nm = lambda x, y: x['element'] == y['element'] and x['charge'] == y['charge'] and x['h'] == y['h']
    em = lambda x, y: float(x['order']) == float(y['order'])
    if len(g1) != len(g2) or g1.number_of_edges() != g2.number_of_edges():
        return False
    return nx.is_isomorphic(g1, g2, node_match=nm, edge_match=em)


# ------------------------------------------------------------------------------ layered strings (C06)
def render_coarse_fragment(rng, names, nodes, edges, desc):
    """CGsmiles fragment text (no braces) over `nodes` (ids) named names[id]; edges {(i,j): order};
    desc {id: [(kind+label, order)]} written after the node (after its ring digits).
    Standard DFS rendering (never '))'), single-digit ring markers only."""
    g = nx.Graph()
    g.add_nodes_from(nodes)
    for (i, j), o in edges.items():
        g.add_edge(i, j, order=o)
    start = rng.choice(list(nodes))
    seen = set()
    children = {a: [] for a in nodes}
    rings = []
    order_list = []

    def dfs(a, parent):
        seen.add(a)
        order_list.append(a)
        nb = sorted(g[a])
        rng.shuffle(nb)
        for b in nb:
            if b == parent:
                continue
            if b in seen:
                if (b, a) not in rings and (a, b) not in rings:
                    rings.append((b, a))
                continue
            children[a].append(b)
            dfs(b, a)
    dfs(start, None)
    if len(order_list) != len(nodes):
        return None, None
    pos = {a: i for i, a in enumerate(order_list)}
    free = list(range(1, 10))
    marker = {}
    digits = {a: '' for a in nodes}
    for a in order_list:
        for rb in [r for r in rings if max(r, key=lambda x: pos[x]) == a]:
            mk = marker.pop(rb)
            digits[a] += str(mk)
            free.append(mk)
            free.sort()
        for rb in [r for r in rings if min(r, key=lambda x: pos[x]) == a]:
            if not free:
                return None, None
            mk = free.pop(0)
            marker[rb] = mk
            digits[a] += BASE_SYM[g.edges[rb]['order']] + str(mk)

    def emit(a):
        t = '[#%s]' % names[a] + digits[a]
        for nm, o in desc.get(a, []):
            t += BASE_SYM[o] + '[' + nm + ']'
        ch = children[a]
        for k, c in enumerate(ch):
            sym = BASE_SYM[g.edges[a, c]['order']]
            if k < len(ch) - 1:
                t += sym + '(' + emit(c) + ')'
            else:
                t += sym + emit(c)
        return t
    return emit(start), order_list


def group_blocks(rng, graph, kmax):
    """random partition of graph's nodes into connected blocks"""
    nodes = list(graph)
    k = rng.randint(1, min(kmax, len(nodes)))
    seeds = rng.sample(nodes, k)
    owner = {s: i for i, s in enumerate(seeds)}
    changed = True
    while len(owner) < len(nodes) and changed:
        changed = False
        order = list(owner)
        rng.shuffle(order)
        for a in order:
            nb = [b for b in graph[a] if b not in owner]
            if nb:
                owner[rng.choice(nb)] = owner[a]
                changed = True
                break
    blocks = {}
    for a, i in owner.items():
        blocks.setdefault(i, []).append(a)
    return list(blocks.values())


def _hier_cut(atoms, edges, labels, parts, desc):
    """one level of a hierarchy as a cut record: atoms [[id, payload]], bonds [u, v, order, label, dollar] (label '' for
    a bond inside a part; for a directional pair the first atom carries '>'), parts [[name, ids in text order]],
    dord [[id, descriptor texts in written order]]; labels {frozenset(a, b): (label, a, descriptor of a)}"""
    bonds = []
    for a, b, o in edges:
        lb = labels.get(frozenset((a, b)))
        if lb is None:
            bonds.append([a, b, o, '', True])
            continue
        lab, a0, da = lb
        b0 = b if a0 == a else a
        if da[0] == '$':
            bonds.append([a0, b0, o, lab, True])
        elif da[0] == '>':
            bonds.append([a0, b0, o, lab, False])
        else:
            bonds.append([b0, a0, o, lab, False])
    return {'atoms': atoms, 'bonds': bonds, 'parts': parts,
            'dord': [[a, [n + str(o) for n, o in desc[a]]] for a in desc]}


def layered_case(rng, nmax=9, n_intermediate=None, coarse_last=False, squash=False, reuse_names=False, virtual=False):
    """One C06 input.  Levels: atoms < parts F (level 0 blocks) < groups (level 1) < ... ; returns the
    layered string (base + intermediate coarse fragment levels + last level) and the flat two-level string."""
    m = rand_molecule(rng, nmax=nmax)
    parts = rand_partition(rng, m, kmax=rng.choice([3, 4, 6]))
    cuts, owner = cuts_of(m, parts)
    if len(cuts) > len(LABELS):
        return None
    # level-0 graph over parts
    g0 = nx.Graph()
    g0.add_nodes_from(range(len(parts)))
    for a, b in cuts:
        i, j = owner[a], owner[b]
        if g0.has_edge(i, j):
            g0.edges[i, j]['order'] += 1
        else:
            g0.add_edge(i, j, order=1)
    if any(d['order'] > 4 for _, _, d in g0.edges(data=True)):
        return None
    n_int = n_intermediate if n_intermediate is not None else rng.randint(1, 3)
    label_iter = iter(rng.sample(LABELS, len(LABELS)) + ['L%d' % i for i in range(200)])
    # atom-level descriptors (as in cut_case)
    desc = {}
    cut_lab = {}
    for (a, b) in cuts:
        lab = next(label_iter)
        o = m.edges[a, b]['order']
        oo = 1 if o == 1.5 else o
        if rng.random() < 0.5:
            da, db = '$' + lab, '$' + lab
        else:
            da, db = ('>' + lab, '<' + lab) if rng.random() < 0.5 else ('<' + lab, '>' + lab)
        desc.setdefault(a, []).append((da, oo))
        desc.setdefault(b, []).append((db, oo))
        cut_lab[frozenset((a, b))] = (lab, a, da)
    part_names = {i: 'F%d' % i for i in range(len(parts))}
    last_defs = []
    part_orders = []
    for i, p in enumerate(parts):
        t, ol = render_fragment(rng, m, p, desc, ring_style='low', desc_pos=rng.choice(['after', 'before']))
        last_defs.append('#%s=%s' % (part_names[i], t))
        part_orders.append(list(ol))
    # the hierarchy as cut records (theories/Compose/CutModel.v, Levels.v), bottom first; see _hier_cut
    hier = [_hier_cut([[a, {'element': m.nodes[a]['element'], 'charge': m.nodes[a]['charge'], 'aromatic': bool(m.nodes[a]['aromatic'])}]
                       for a in m],
                      [(a, b, m.edges[a, b]['order']) for a, b in m.edges], cut_lab,
                      [[part_names[i], part_orders[i]] for i in range(len(parts))], desc)]
    # intermediate levels: graphs[j] over blocks of level j; names[j]
    graphs = [g0]
    names = [dict(part_names)]
    used_squash = False
    used_virtual = False
    level_defs = []      # fragment definitions of level j (blocks of level j written over level j-1 nodes), j >= 1
    for j in range(1, n_int + 1):
        gprev = graphs[-1]
        blocks = group_blocks(rng, gprev, kmax=max(1, len(gprev) - 1) if len(gprev) > 1 else 1)
        bowner = {a: bi for bi, blk in enumerate(blocks) for a in blk}
        gj = nx.Graph()
        gj.add_nodes_from(range(len(blocks)))
        cdesc = {}
        clab = {}
        extra_nodes = {}
        shared = set()     # a node is shared by at most two blocks (three-way sharing is C10 territory)
        for a, b, d in gprev.edges(data=True):
            if bowner[a] != bowner[b]:
                i, k = bowner[a], bowner[b]
                if gj.has_edge(i, k):
                    gj.edges[i, k]['order'] += 1
                else:
                    gj.add_edge(i, k, order=1)
                lab = next(label_iter)
                if squash and a not in shared and rng.random() < 0.35:
                    shared.add(a)
                    # share node a between the two blocks: block of b gets a copy of a carrying the
                    # edge a-b, both copies marked with the squash operator
                    extra_id = 100000 + sum(len(v) for v in extra_nodes.values()) + 1000 * j
                    extra_nodes.setdefault(bowner[b], []).append((extra_id, a, b, d['order']))
                    names[-1][extra_id] = names[-1][a]
                    cdesc.setdefault(a, []).append(('!' + lab, 1))
                    cdesc.setdefault(extra_id, []).append(('!' + lab, 1))
                    used_squash = True
                    continue
                if rng.random() < 0.5:
                    da, db = '$' + lab, '$' + lab
                else:
                    da, db = '>' + lab, '<' + lab
                cdesc.setdefault(a, []).append((da, d['order']))
                cdesc.setdefault(b, []).append((db, d['order']))
                clab[frozenset((a, b))] = (lab, a, da)
        if any(d['order'] > 4 for _, _, d in gj.edges(data=True)):
            return None
        nm = {bi: 'G%dx%d' % (j, bi) for bi in range(len(blocks))}
        if reuse_names:
            # a block may be named like one of its own members (the same fragment name is then defined on
            # two levels with different content; every level has its own name space)
            for bi, blk in enumerate(blocks):
                if rng.random() < 0.5:
                    nm[bi] = names[-1][rng.choice([x for x in blk])]
        defs = []
        block_orders = []
        for bi, blk in enumerate(blocks):
            sub_edges = {(a, b): d['order'] for a, b, d in gprev.edges(data=True) if bowner[a] == bi and bowner[b] == bi}
            blk = list(blk)
            for extra_id, a, b, o in extra_nodes.get(bi, []):
                blk.append(extra_id)
                sub_edges[(extra_id, b)] = o
            if virtual and (j >= 2 or not coarse_last) and rng.random() < 0.5:
                # a virtual site inside a fragment of an intermediate level: a node with no fragment at the
                # next level, held by an order-0 edge; it produces no fine nodes one level down
                vid = 200000 + 1000 * j + bi
                names[-1][vid] = 'VS%d' % (j * 10 + bi)
                sub_edges[(vid, rng.choice(blk))] = 0
                blk.append(vid)
                used_virtual = True
            t, ol = render_coarse_fragment(rng, names[-1], blk, sub_edges, cdesc)
            if t is None:
                return None
            defs.append('#%s=%s' % (nm[bi], t))
            block_orders.append(list(ol))
        level_defs.append(defs)
        hier.append(_hier_cut([[a, {'atomname': names[-1][a]}] for a in gprev.nodes],
                              [(a, b, d['order']) for a, b, d in gprev.edges(data=True)], clab,
                              [[nm[bi], block_orders[bi]] for bi in range(len(blocks))], cdesc))
        graphs.append(gj)
        names.append(nm)
    top = graphs[-1]
    base, top_numbering = render_base(rng, [names[-1][i] for i in range(len(top))],
                                      {(a, b): d['order'] for a, b, d in top.edges(data=True)})
    # the top cut lists its parts in the order of the base-graph nodes; no shared nodes, one name space
    hier[-1] = dict(hier[-1], parts=[hier[-1]['parts'][p] for p in top_numbering])
    hier_out = None if (used_squash or reuse_names or used_virtual) else {'cuts': list(reversed(hier if not coarse_last else hier[1:]))}
    flat_base, _ = render_base(rng, [part_names[i] for i in range(len(parts))],
                               {(a, b): d['order'] for a, b, d in g0.edges(data=True)})

    def block(defs):
        defs = list(defs)
        rng.shuffle(defs)
        return '{' + ','.join(defs) + '}'
    layers = [block(d) for d in reversed(level_defs)]
    if coarse_last:
        layered = base + '.' + '.'.join(layers)
        flat = flat_base
        expect = {'nodes': [[i, part_names[i]] for i in range(len(parts))],
                  'edges': [[a, b, d['order']] for a, b, d in g0.edges(data=True)]}
        return {'layered': layered, 'flat': flat, 'coarse_last': True, 'levels': n_int, 'expect_cg': expect,
                'nparts': len(parts), 'squash': used_squash, 'reuse_names': reuse_names, 'hier': hier_out, 'virtual': used_virtual}
    layered = base + '.' + '.'.join(layers + [block(last_defs)])
    flat = flat_base + '.' + block(last_defs)
    return {'layered': layered, 'flat': flat, 'coarse_last': False, 'levels': n_int + 1, 'mol': mol_dump(m),
            'nparts': len(parts), 'squash': used_squash, 'reuse_names': reuse_names, 'hier': hier_out, 'virtual': used_virtual}


def block_case(rng):
    """C06 input of the documented block-copolymer kind: blocks written with the expansion operator inside
    intermediate-level fragments ([#X]|2 — larger counts are a known finding of the fragment reader) followed
    by a bonding descriptor.  Block-level descriptors are uniquely labelled per junction and the monomers are
    symmetric, so that the first-match choice of the resolver cannot change the molecule (ambiguous
    descriptor sets are outside the composition clause).  Returns layered + flat strings."""
    monomers = {'PEO': '[<]COC[>]', 'PE': '[<]CC[>]', 'PTHF': '[<]CCOCC[>]', 'PPS': '[<]CSC[>]'}
    nblocks = rng.randint(1, 3)
    names = [rng.choice(sorted(monomers)) for _ in range(nblocks)]
    counts = [rng.choice([1, 2, 2]) for _ in range(nblocks)]
    written_out = [rng.random() < 0.3 for _ in range(nblocks)]
    defs1 = []
    base = ''
    flat = ''
    for i, (nm, c, wo) in enumerate(zip(names, counts, written_out)):
        body = ('[#%s]' % nm) * c if (wo or c == 1) else '[#%s]|%d' % (nm, c)
        left = '[<j%d]' % i if i > 0 else ''
        right = '[>j%d]' % (i + 1) if i < nblocks - 1 else ''
        defs1.append('#B%d=%s%s%s' % (i, left, body, right))
        base += '[#B%d]' % i
        flat += ('[#%s]|%d' % (nm, c)) if c > 1 else '[#%s]' % nm
    used = sorted(set(names))
    last = '{' + ','.join('#%s=%s' % (n, monomers[n]) for n in used) + '}'
    layered = '{' + base + '}.{' + ','.join(defs1) + '}.' + last
    return {'layered': layered, 'flat': '{' + flat + '}.' + last, 'coarse_last': False, 'levels': 2, 'mol': None,
            'nparts': sum(counts), 'squash': False, 'reuse_names': False, 'block': True}


def directional_case(rng):
    """C06 input of the head-to-tail kind: a chain of blocks, every block and every bead written `[>] ... [<]`
    WITHOUT labels.  Every edge then has two compatible descriptor pairs (A.> with B.< and A.< with B.>); the
    resolver takes the first in node order, which differs between the layered and the flat description, so
    these inputs are the class `ambiguous_descriptor_choice` of C06 (the flat string is the beads in block
    order)."""
    beads = {'P': '[>]CO[<]', 'Q': '[>]CN[<]', 'R': '[>]CS[<]', 'T': '[>]CCO[<]'}
    nb = rng.randint(2, 4)
    types = [rng.choice('ABC') for _ in range(nb)]
    defs = {t: [rng.choice('PQRT') for _ in range(rng.randint(1, 3))] for t in sorted(set(types))}
    base = '{' + ''.join('[#%s]' % t for t in types) + '}'
    lvl = '{' + ','.join('#%s=[>]%s[<]' % (t, ''.join('[#%s]' % b for b in defs[t])) for t in sorted(defs)) + '}'
    used = sorted({b for t in defs for b in defs[t]})
    last = '{' + ','.join('#%s=%s' % (b, beads[b]) for b in used) + '}'
    flat = '{' + ''.join('[#%s]' % b for t in types for b in defs[t]) + '}.' + last
    return {'layered': base + '.' + lvl + '.' + last, 'flat': flat, 'coarse_last': False, 'levels': 2, 'mol': None,
            'nparts': sum(len(defs[t]) for t in types), 'squash': False, 'reuse_names': False, 'directional': True}
