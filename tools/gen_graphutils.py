"""gen plug-in of the source tie of the resolver's graph helpers (theories/Resolve/SourceTie.v).

Target GraphUtilsGen (theories/Gen/GraphUtilsGen.v), regenerated from the CURRENT text of
cgsmiles/graph_utils.py on every run: a FAIL-CLOSED, `ast`-based, typed shallow embedding of

    sort_nodes_by_attr, merge_graphs, annotate_fragments, set_atom_names_atomistic

into Gallina definitions `gen_<name>` built from the primitives of theories/Resolve/SourcePrims.v (one
primitive per networkx / builtin call).  theories/Resolve/SourceTie.v proves the generated functions equal
to the hand-written models of theories/Resolve/GraphOps.v, so a semantic change of the Python text changes
the generated term and breaks that proof (a broken obligation of C12 / C02).

How statements are translated (everything else raises py2v.Unsupported; the generated file is then removed):
  * the function body becomes one term of type `res R` in the error monad; a call that can raise is bound
    with `x <- e ;; k`, a pure one with `let x := e in k`; sub-expressions are bound in Python's
    evaluation order (left to right);
  * `x = e` / `a, b = e` re-bind (shadowing let); local names are replaced by positional names x0, x1, ...
    in order of first appearance, so renaming a local does not change the generated text;
  * in-place mutation (`d[k] = v`, `G.add_node(...)`, `nx.set_node_attributes(G, ...)`, `l.append(x)`, ...)
    re-binds the mutated variable; a variable that aliases the inside of a graph (`G.nodes[n]`, ...) or
    whose value was stored into a container may not be mutated afterwards (Unsupported);
  * `for t in xs: body` becomes `fold_res (fun st it => ...) xs st0` where the state tuple holds the
    variables assigned or mutated in the body that exist before the loop, in order of first assignment;
    names first bound inside a loop body are local to one iteration (their use after the loop is Unsupported);
  * `if c: A else: B` yields the tuple of the variables assigned in A or B (both must define them);
  * `try: iter(v) / except TypeError: A / else: B` is the test `py_is_iterable v`;
  * a mutated parameter is returned together with the function's value: (mutated params..., value).
"""
import ast
import sys

import py2v
from py2v import Unsupported, coq_str

gen = sys.modules.get('gen')
if gen is None or not hasattr(gen, 'TARGETS'):
    main_mod = sys.modules.get('__main__')
    if main_mod is not None and hasattr(main_mod, 'TARGETS') and hasattr(main_mod, 'target'):
        gen = main_mod
    else:
        import gen  # noqa: E402


def _target(name, sources):
    mods = [gen]
    main_mod = sys.modules.get('__main__')
    if main_mod is not None and main_mod is not gen and hasattr(main_mod, 'TARGETS') and hasattr(main_mod, 'target'):
        mods.append(main_mod)

    def deco(f):
        for m in mods:
            m.TARGETS[name] = (sources, f)
        return f
    return deco


# ------------------------------------------------------------------------------------------- types
# 'graph' 'str' 'int' 'bool' 'pyval' 'none' 'fgraphs'
# ('list', T) ('dict', K, V) ('tuple', T1, T2) ('ddl', K, T) = defaultdict(list) ('set', T) ('opt', T)
# 'empty_dict' / 'empty_list' / 'empty_set' / 'empty_ddl': literals whose element type is not known yet
ATTRS = ('dict', 'str', 'pyval')
EMPTY = {'empty_dict': 'dict', 'empty_list': 'list', 'empty_set': 'set', 'empty_ddl': 'ddl'}


def coq_type(t):
    if t == 'graph':
        return 'graph'
    if t == 'str':
        return 'pystr'
    if t == 'int':
        return 'Z'
    if t == 'bool':
        return 'bool'
    if t == 'pyval':
        return 'pyval'
    if t == 'none':
        return 'unit'
    if t == 'fgraphs':
        return 'fgraphs'
    if isinstance(t, tuple):
        if t[0] in ('list', 'set'):
            return 'list (%s)' % coq_type(t[1])
        if t[0] == 'opt':
            return 'option (%s)' % coq_type(t[1])
        if t[0] == 'dict':
            return 'list (%s * %s)' % (coq_type(t[1]), coq_type(t[2]))
        if t[0] == 'ddl':
            return 'ddl (%s)' % coq_type(t[2])
        if t[0] == 'tuple':
            return '(%s)' % ' * '.join(coq_type(x) for x in t[1:])
    raise Unsupported('no Coq type for %r' % (t,))


def to_pyval(t, term):
    """coercion of a typed term into pyval (what is stored in an attribute dict)"""
    if t == 'pyval':
        return term
    if t == 'int':
        return '(VInt %s)' % term
    if t == 'bool':
        return '(VBool %s)' % term
    if t == 'str':
        return '(VStr %s)' % term
    if t == 'none':
        return 'VNone'
    if isinstance(t, tuple) and t[0] == 'list':
        return '(VList (map (fun e_ => %s) %s))' % (to_pyval(t[1], 'e_'), term)
    if isinstance(t, tuple) and t[0] == 'tuple':
        # only tuples of pure projections are needed: (a, b) -> VTup [a; b]
        parts = [to_pyval(t[1], '(fst %s)' % term), to_pyval(t[2], '(snd %s)' % term)]
        return '(VTup [%s])' % '; '.join(parts)
    raise Unsupported('cannot store a value of type %r as an attribute value' % (t,))


def join(a, b):
    """type of a variable defined with type a on one path and b on the other"""
    if a == b:
        return a
    for x, y in ((a, b), (b, a)):
        if x in EMPTY and isinstance(y, tuple) and y[0] == EMPTY[x]:
            return y
    scalars = ('int', 'bool', 'str', 'pyval', 'none')

    def storable(t):
        return t in scalars or (isinstance(t, tuple) and t[0] == 'list' and storable(t[1]))
    if storable(a) and storable(b):
        return 'pyval'
    raise Unsupported('a variable has the incompatible types %r and %r on two paths' % (a, b))


def coerce(frm, to, term):
    if frm == to:
        return term
    if frm in EMPTY and isinstance(to, tuple) and to[0] == EMPTY[frm]:
        return term
    if to == 'pyval':
        return to_pyval(frm, term)
    raise Unsupported('no coercion from %r to %r' % (frm, to))


class Var:
    __slots__ = ('coq', 'type', 'borrowed', 'escaped')

    def __init__(self, coq, type_, borrowed=False, escaped=False):
        self.coq, self.type, self.borrowed, self.escaped = coq, type_, borrowed, escaped

    def copy(self):
        return Var(self.coq, self.type, self.borrowed, self.escaped)


def copy_env(env):
    return {k: v.copy() for k, v in env.items()}


def assigned_names(stmts):
    """names assigned or mutated in a statement list, in order of first occurrence (fail closed on
    statements this translator does not know)"""
    out = []

    def add(n):
        if n not in out:
            out.append(n)

    def target(t):
        if isinstance(t, ast.Name):
            add(t.id)
        elif isinstance(t, ast.Tuple):
            for x in t.elts:
                target(x)
        elif isinstance(t, ast.Subscript):
            st = store_root(t)
            add(st + '$g' if st else root_name(t.value))
        else:
            raise Unsupported('assignment target %s' % ast.dump(t))

    def visit(s):
        if isinstance(s, ast.Assign):
            if len(s.targets) != 1:
                raise Unsupported('chained assignment')
            target(s.targets[0])
        elif isinstance(s, ast.AugAssign):
            target(s.target)
        elif isinstance(s, ast.For):
            target(s.target)
            for x in s.body:
                visit(x)
            if s.orelse:
                raise Unsupported('for/else')
        elif isinstance(s, ast.While):
            for x in s.body:
                visit(x)
            if s.orelse:
                raise Unsupported('while/else')
        elif isinstance(s, ast.If):
            for x in s.body + s.orelse:
                visit(x)
        elif isinstance(s, ast.Try):
            for x in s.body + s.orelse + s.finalbody:
                visit(x)
            for h in s.handlers:
                for x in h.body:
                    visit(x)
        elif isinstance(s, ast.Expr):
            m = mutated_by_call(s.value)
            if m:
                add(m)
        elif isinstance(s, (ast.Return, ast.Assert, ast.Pass)):
            pass
        else:
            raise Unsupported('statement %s' % type(s).__name__)
    for s in stmts:
        visit(s)
    return out


def store_target(t):
    """X for the target `X.nodes[n]['graph']` (the graph-valued node attribute), else None"""
    if isinstance(t, ast.Subscript) and isinstance(t.slice, ast.Constant) and t.slice.value == 'graph' \
            and isinstance(t.value, ast.Subscript) and isinstance(t.value.value, ast.Attribute) \
            and t.value.value.attr == 'nodes' and isinstance(t.value.value.value, ast.Name):
        return t.value.value.value.id
    return None


def store_root(t):
    """X when the target chain passes through X.nodes[n]['graph'] (a write into a stored fragment graph or the
    assignment of one), else None"""
    e = t
    while isinstance(e, (ast.Subscript, ast.Attribute)):
        st = store_target(e)
        if st:
            return st
        e = e.value
    return None


def root_name(e):
    """the variable a subscript/attribute chain hangs on: G.nodes[n]['x'] -> G"""
    while True:
        if isinstance(e, ast.Name):
            return e.id
        if isinstance(e, ast.Subscript):
            e = e.value
        elif isinstance(e, ast.Attribute):
            e = e.value
        else:
            raise Unsupported('mutation of something that is not rooted in a variable: %s' % ast.unparse(e))


MUTATING_METHODS = ('add_node', 'add_edge', 'append', 'add')


def mutated_by_call(e):
    """name of the variable an expression statement mutates, or None (docstring)"""
    if isinstance(e, ast.Constant) and isinstance(e.value, str):
        return None
    if not isinstance(e, ast.Call):
        raise Unsupported('expression statement %s' % ast.unparse(e))
    f = e.func
    if isinstance(f, ast.Attribute) and f.attr in MUTATING_METHODS:
        return root_name(f.value)
    if ast.unparse(f) == 'nx.set_node_attributes':
        return root_name(e.args[0])
    if ast.unparse(f) == 'iter':
        return None
    raise Unsupported('expression statement %s' % ast.unparse(e))


class Tr:
    """translate one function"""

    def __init__(self, fn, argtypes, fixed_none=(), stores=()):
        self.fn = fn
        self.argtypes = argtypes
        self.fixed_none = set(fixed_none)
        self.stores = list(stores)      # graph parameters whose nodes carry a graph-valued 'graph' attribute
        self.names = {}
        self.tmp = 0
        # names that are iterated / measured somewhere in the function (a defaultdict that is may not be
        # read by subscript: the read inserts the missing key)
        self.iterated = set()
        for n in ast.walk(fn):
            if isinstance(n, ast.Call) and isinstance(n.func, ast.Attribute) and n.func.attr in ('items', 'keys', 'values') \
                    and isinstance(n.func.value, ast.Name):
                self.iterated.add(n.func.value.id)
            if isinstance(n, (ast.For, ast.comprehension)) and isinstance(n.iter, ast.Name):
                self.iterated.add(n.iter.id)
            if isinstance(n, ast.Call) and isinstance(n.func, ast.Name) and n.func.id in ('len', 'list', 'sorted', 'bool') \
                    and n.args and isinstance(n.args[0], ast.Name):
                self.iterated.add(n.args[0].id)
            if isinstance(n, (ast.If, ast.While)) and isinstance(n.test, ast.Name):
                self.iterated.add(n.test.id)
        self.loads = {}
        for n in ast.walk(fn):
            if isinstance(n, ast.Name) and isinstance(n.ctx, ast.Load):
                self.loads[n.id] = self.loads.get(n.id, 0) + 1

    # ---------------------------------------------------------------- names
    def coq_name(self, py):
        if py not in self.names:
            self.names[py] = 'x%d' % len(self.names)
        return self.names[py]

    def fresh(self):
        self.tmp += 1
        return 't%d_' % self.tmp

    # ---------------------------------------------------------------- expressions
    # expr returns (type, pure term); bindings of calls that can raise are appended to `pre` as
    # (name, term : res T) in evaluation order.
    def bindf(self, pre, term):
        n = self.fresh()
        pre.append((n, term))
        return n

    def pure(self, e, env):
        pre = []
        t, v = self.expr(e, env, pre)
        if pre:
            raise Unsupported('an expression that can raise where only a total one is handled: %s' % ast.unparse(e))
        return t, v

    def expr(self, e, env, pre):
        if isinstance(e, ast.Name):
            if e.id not in env:
                raise Unsupported('free or not-yet-defined name ' + e.id)
            v = env[e.id]
            if v.type == 'none':
                return 'none', 'tt'
            return v.type, v.coq
        if isinstance(e, ast.Constant):
            v = e.value
            if isinstance(v, bool):
                return 'bool', 'true' if v else 'false'
            if isinstance(v, int):
                return 'int', '(%d)' % v
            if isinstance(v, str):
                return 'str', coq_str(v)
            if v is None:
                return 'none', 'tt'
            raise Unsupported('constant %r' % (v,))
        if isinstance(e, ast.Tuple):
            if len(e.elts) != 2:
                raise Unsupported('tuple expression of length %d' % len(e.elts))
            ta, a = self.expr(e.elts[0], env, pre)
            tb, b = self.expr(e.elts[1], env, pre)
            return ('tuple', ta, tb), '(%s, %s)' % (a, b)
        if isinstance(e, ast.List):
            parts = [self.expr(x, env, pre) for x in e.elts]
            if not parts:
                return 'empty_list', '[]'
            t = parts[0][0]
            for tt_, _ in parts[1:]:
                t = join(t, tt_)
            return ('list', t), '[%s]' % '; '.join(coerce(tt_, t, v) for tt_, v in parts)
        if isinstance(e, ast.Dict):
            if e.keys:
                raise Unsupported('non-empty dict literal')
            return 'empty_dict', '[]'
        if isinstance(e, ast.UnaryOp) and isinstance(e.op, ast.Not):
            t, v = self.expr(e.operand, env, pre)
            if t == 'none':
                return 'bool', 'true'
            return 'bool', '(negb %s)' % self.truth(t, v)
        if isinstance(e, ast.UnaryOp) and isinstance(e.op, ast.USub) and isinstance(e.operand, ast.Constant) \
                and isinstance(e.operand.value, int) and not isinstance(e.operand.value, bool):
            return 'int', '(-%d)' % e.operand.value
        if isinstance(e, ast.BinOp) and isinstance(e.op, ast.Add):
            ta, a = self.expr(e.left, env, pre)
            tb, b = self.expr(e.right, env, pre)
            if ta == 'int' and tb == 'int':
                return 'int', '(%s + %s)' % (a, b)
            if ta == 'pyval' and tb == 'int':
                return 'int', self.bindf(pre, 'py_add_pv_int %s %s' % (a, b))
            if ta == 'pyval' and tb == 'str':
                return 'str', self.bindf(pre, 'py_add_pv_str %s %s' % (a, b))
            if ta == 'str' and tb == 'str':
                return 'str', '(%s ++ %s)' % (a, b)
            raise Unsupported('+ on %r and %r' % (ta, tb))
        if isinstance(e, ast.Compare):
            return self.compare(e, env, pre)
        if isinstance(e, ast.BoolOp):
            return self.boolop(e, env, pre)
        if isinstance(e, ast.Subscript):
            return self.subscript(e, env, pre)
        if isinstance(e, ast.Call):
            return self.call(e, env, pre)
        if isinstance(e, ast.DictComp):
            return self.dictcomp(e, env, pre)
        if isinstance(e, ast.ListComp):
            return self.listcomp(e, env, pre)
        if isinstance(e, ast.SetComp):
            t, v = self.listcomp(e, env, pre)
            return ('set', t[1]), v
        if isinstance(e, ast.Attribute):
            return self.attribute(e, env, pre)
        raise Unsupported('expression %s' % ast.unparse(e))

    def truth(self, t, v):
        if t == 'bool':
            return v
        if t == 'pyval':
            return '(truthy %s)' % v
        if isinstance(t, tuple) and t[0] in ('dict', 'list', 'set', 'ddl') or t in EMPTY:
            return '(dict_truthy %s)' % v if (t in ('empty_dict',) or t[0] in ('dict', 'ddl')) else '(list_truthy %s)' % v
        if t == 'graph':
            return '(nx_truthy %s)' % v
        if isinstance(t, tuple) and t[0] == 'opt' and t[1] == 'graph':
            return '(opt_graph_truthy %s)' % v
        raise Unsupported('truth value of a %r' % (t,))

    def compare(self, e, env, pre):
        if len(e.ops) != 1:
            raise Unsupported('chained comparison')
        op = e.ops[0]
        ta, a = self.expr(e.left, env, pre)
        tb, b = self.expr(e.comparators[0], env, pre)
        if isinstance(op, (ast.Eq, ast.NotEq)) and ta == 'int' and tb == 'int':
            r = '(Z.eqb %s %s)' % (a, b)
            return 'bool', r if isinstance(op, ast.Eq) else '(negb %s)' % r
        if isinstance(op, ast.Gt) and ta == 'int' and tb == 'int':
            return 'bool', '(Z.ltb %s %s)' % (b, a)
        if isinstance(op, (ast.In, ast.NotIn)):
            if ta == 'str' and tb == ATTRS:
                r = '(ahas %s %s)' % (a, b)
            elif ta == 'int' and tb in (('set', 'int'), 'empty_set'):
                r = '(zset_mem %s %s)' % (a, b)
            elif ta == 'str' and tb in (('set', 'str'), 'empty_set'):
                r = '(sset_mem %s %s)' % (a, b)
            elif ta == 'str' and tb == ('set', 'pyval'):
                r = '(pvset_mem_str %s %s)' % (a, b)
            else:
                raise Unsupported('`in` on %r and %r' % (ta, tb))
            return 'bool', r if isinstance(op, ast.In) else '(negb %s)' % r
        raise Unsupported('comparison %s' % ast.unparse(e))

    def boolop(self, e, env, pre):
        # short circuit: the right operands must be total (no binding may move in front of the test)
        ta, a = self.expr(e.values[0], env, pre)
        a = self.truth(ta, a)
        for x in e.values[1:]:
            tb, b = self.pure(x, env)
            b = self.truth(tb, b)
            a = '(%s && %s)' % (a, b) if isinstance(e.op, ast.And) else '(%s || %s)' % (a, b)
        return 'bool', a

    def const_index(self, s):
        if isinstance(s, ast.Constant) and isinstance(s.value, int) and not isinstance(s.value, bool):
            return s.value
        return None

    def subscript(self, e, env, pre):
        # G.nodes[n]  /  G.edges[(a, b)]
        if isinstance(e.value, ast.Attribute) and e.value.attr in ('nodes', 'edges'):
            tg, g = self.expr(e.value.value, env, pre)
            if tg != 'graph':
                raise Unsupported('.%s of a %r' % (e.value.attr, tg))
            tk, k = self.expr(e.slice, env, pre)
            if e.value.attr == 'nodes':
                k = self.node_key(tk, k, pre)
                return ATTRS, self.bindf(pre, 'nx_node_attrs %s %s' % (g, k))
            if tk != ('tuple', 'int', 'int'):
                raise Unsupported('G.edges[k] with a key of type %r' % (tk,))
            return ATTRS, self.bindf(pre, 'nx_edge_attrs %s (fst %s) (snd %s)' % (g, k, k))
        tv, v = self.expr(e.value, env, pre)
        ci = self.const_index(e.slice)
        if isinstance(tv, tuple) and tv[0] == 'tuple':
            if ci not in (0, 1):
                raise Unsupported('index of a pair must be the constant 0 or 1')
            return tv[1 + ci], '(%s %s)' % ('fst' if ci == 0 else 'snd', v)
        if tv == 'pyval':
            if ci is None or ci < 0:
                raise Unsupported('index of a Python value must be a non-negative constant')
            return 'pyval', self.bindf(pre, 'py_getitem_pv %s %d' % (v, ci))
        tk, k = self.expr(e.slice, env, pre)
        if tv == ATTRS and tk == 'str':
            return 'pyval', self.bindf(pre, 'attrs_getitem %s %s' % (v, k))
        if isinstance(tv, tuple) and tv[0] == 'dict' and tv[1] == 'int':
            if tk == 'int':
                return tv[2], self.bindf(pre, 'zd_getitem %s %s' % (v, k))
            if tk == 'pyval':
                return tv[2], self.bindf(pre, 'zd_getitem_pv %s %s' % (v, k))
        if isinstance(tv, tuple) and tv[0] == 'ddl' and tk in ('int', 'pyval'):
            # defaultdict(list)[k] as an r-value inserts the missing key; that is not observable as long as
            # the dict is never iterated or measured in this function
            if not isinstance(e.value, ast.Name) or e.value.id in self.iterated:
                raise Unsupported('read of a defaultdict that is iterated in the same function: %s' % ast.unparse(e))
            return ('list', tv[2]), '(ddl_get %s %s)' % (v, to_pyval(tk, k))
        if isinstance(tv, tuple) and tv[0] == 'list' and tk == 'int' and ci == 0:
            return tv[1], self.bindf(pre, 'py_list_head %s' % v)
        raise Unsupported('subscript %s (%r by %r)' % (ast.unparse(e), tv, tk))

    def node_key(self, tk, k, pre):
        if tk == 'int':
            return k
        if tk == 'pyval':
            return self.bindf(pre, 'py_node_key %s' % k)
        raise Unsupported('G.nodes[k] with a key of type %r' % (tk,))

    def attribute(self, e, env, pre):
        if e.attr == 'nodes':
            tg, g = self.expr(e.value, env, pre)
            if tg == 'graph':
                return ('list', 'int'), '(nx_nodes %s)' % g
            if tg == ('opt', 'graph'):
                return ('list', 'int'), self.bindf(pre, 'opt_graph_nodes %s' % g)
        if e.attr == 'edges':
            tg, g = self.expr(e.value, env, pre)
            if tg == 'graph':
                return ('list', ('tuple', 'int', 'int')), '(nx_edges %s)' % g
        raise Unsupported('attribute %s' % ast.unparse(e))

    def lam(self, f, argtype, env):
        """lambda x: e with a total body"""
        if not (isinstance(f, ast.Lambda) and len(f.args.args) == 1 and not f.args.defaults
                and not f.args.vararg and not f.args.kwarg and not f.args.kwonlyargs):
            raise Unsupported('key function is not a one-argument lambda')
        env2 = copy_env(env)
        n = self.coq_name(f.args.args[0].arg)
        env2[f.args.args[0].arg] = Var(n, argtype)
        t, v = self.pure(f.body, env2)
        return t, '(fun %s => %s)' % (n, v)

    def call(self, e, env, pre):
        fname = ast.unparse(e.func)
        kws = {k.arg: k.value for k in e.keywords}
        if None in kws:
            raise Unsupported('**kwargs in an expression call')
        nargs = len(e.args)

        def args():
            return [self.expr(a, env, pre) for a in e.args]
        if fname == 'nx.get_node_attributes' and nargs == 2 and not kws:
            (tg, g), (tn, n) = args()
            if tg == 'graph' and tn == 'str':
                return ('dict', 'int', 'pyval'), '(nx_get_node_attributes %s %s)' % (g, n)
        if fname == 'nx.relabel_nodes' and nargs == 2 and set(kws) == {'copy'}:
            if not (isinstance(kws['copy'], ast.Constant) and kws['copy'].value is True):
                raise Unsupported('relabel_nodes without the constant copy=True')
            (tg, g), (tm, m) = args()
            if tg == 'graph' and tm == ('dict', 'int', 'int'):
                return 'graph', '(nx_relabel_nodes_copy %s %s)' % (g, m)
        if fname == 'nx.Graph' and nargs == 0 and not kws:
            return 'graph', 'nx_Graph'
        if fname == 'sorted' and nargs == 1 and set(kws) == {'key'}:
            (tl, l), = args()
            if not (isinstance(tl, tuple) and tl[0] == 'list'):
                raise Unsupported('sorted of a %r' % (tl,))
            tk, k = self.lam(kws['key'], tl[1], env)
            if tk != ('tuple', 'pyval', 'int'):
                raise Unsupported('sort key of type %r' % (tk,))
            return tl, self.bindf(pre, 'py_sorted_by %s %s' % (k, l))
        if fname == 'enumerate' and nargs == 1 and set(kws) <= {'start'}:
            (tl, l), = args()
            if not (isinstance(tl, tuple) and tl[0] == 'list'):
                raise Unsupported('enumerate of a %r' % (tl,))
            st = '(0)'
            if 'start' in kws:
                ts, st = self.expr(kws['start'], env, pre)
                if ts != 'int':
                    raise Unsupported('enumerate start of type %r' % (ts,))
            return ('list', ('tuple', 'int', tl[1])), '(py_enumerate %s %s)' % (st, l)
        if fname == 'len' and nargs == 1 and not kws:
            (t, v), = args()
            if t == 'graph':
                return 'int', '(nx_len %s)' % v
            if t == 'pyval':
                return 'int', self.bindf(pre, 'py_len_pv %s' % v)
            if isinstance(t, tuple) and t[0] in ('list', 'dict'):
                return 'int', '(Z.of_nat (length %s))' % v
        if fname == 'max' and nargs == 1 and not kws:
            (t, v), = args()
            if t == ('list', 'int'):
                return 'int', self.bindf(pre, 'py_max %s' % v)
            if t == 'pyval':
                return 'int', self.bindf(pre, 'py_max_pv %s' % v)
        if fname == 'str' and nargs == 1 and not kws:
            (t, v), = args()
            if t == 'int':
                return 'str', '(str_of_Z %s)' % v
        if fname == 'list' and nargs == 1 and not kws:
            (t, v), = args()
            if isinstance(t, tuple) and t[0] == 'list':
                return t, v
        if fname == 'isinstance' and nargs == 2 and not kws and ast.unparse(e.args[1]) == 'str':
            t, v = self.expr(e.args[0], env, pre)
            if t == 'pyval':
                return 'bool', '(py_isinstance_str %s)' % v
        if fname == 'copy.deepcopy' and nargs == 1 and not kws:
            (t, v), = args()
            if t == ATTRS:
                return t, v
        if fname == 'defaultdict' and nargs == 1 and not kws and ast.unparse(e.args[0]) == 'list':
            return 'empty_ddl', '[]'
        if fname == 'set' and nargs == 0 and not kws:
            return 'empty_set', '[]'
        if fname == 'itertools.combinations' and nargs == 1 and set(kws) == {'r'} \
                and self.const_index(kws['r']) == 2:
            (t, v), = args()
            if isinstance(t, tuple) and t[0] == 'list':
                return ('list', ('tuple', t[1], t[1])), '(py_combinations2 %s)' % v
        if isinstance(e.func, ast.Attribute):
            m = e.func.attr
            if m == 'items' and nargs == 0 and not kws:
                t, v = self.expr(e.func.value, env, pre)
                if isinstance(t, tuple) and t[0] == 'dict':
                    return ('list', ('tuple', t[1], t[2])), '(dict_items %s)' % v
                if isinstance(t, tuple) and t[0] == 'ddl':
                    return ('list', ('tuple', t[1], ('list', t[2]))), '(dict_items %s)' % v
            if m == 'nodes' and nargs == 0 and not kws:
                t, v = self.expr(e.func.value, env, pre)
                if t == 'graph':
                    return ('list', 'int'), '(nx_nodes %s)' % v
            if m == 'has_edge' and nargs == 2 and not kws:
                t, v = self.expr(e.func.value, env, pre)
                (ta, a), (tb, b) = args()
                if t == 'graph' and ta == 'int' and tb == 'int':
                    return 'bool', '(nx_has_edge %s %s %s)' % (v, a, b)
            if m == 'get' and nargs == 2 and not kws and isinstance(e.func.value, ast.Subscript) \
                    and isinstance(e.func.value.value, ast.Attribute) and e.func.value.value.attr == 'nodes' \
                    and isinstance(e.func.value.value.value, ast.Name) and e.func.value.value.value.id in self.stores \
                    and isinstance(e.args[0], ast.Constant) and e.args[0].value == 'graph':
                # G.nodes[n].get('graph', None): the graph-valued attribute lives in the store beside G
                if not (isinstance(e.args[1], ast.Constant) and e.args[1].value is None):
                    raise Unsupported('default of .get(\'graph\', ...) is not None')
                gname = e.func.value.value.value.id
                tn, n = self.expr(e.func.value.slice, env, pre)
                n = self.node_key(tn, n, pre)
                return ('opt', 'graph'), self.bindf(pre, 'nx_get_node_graph %s %s %s' % (env[gname].coq, env[gname + '$g'].coq, n))
            if m == 'get' and nargs == 2 and not kws:
                if isinstance(e.args[0], ast.Constant) and e.args[0].value == 'graph':
                    raise Unsupported('the graph-valued attribute read from something that is not a store')
                t, v = self.expr(e.func.value, env, pre)
                (tk, k), (td, d) = args()
                if t == ATTRS and tk == 'str':
                    return 'pyval', '(attrs_get %s %s %s)' % (v, k, to_pyval(td, d) if td != 'empty_list' else '(VList [])')
        raise Unsupported('call %s' % ast.unparse(e))

    def bind_target(self, t, ty, env):
        """Coq pattern for a loop/comprehension target of type ty; enters the names into env"""
        if isinstance(t, ast.Name):
            n = self.coq_name(t.id)
            env[t.id] = Var(n, ty)
            return n
        if isinstance(t, ast.Tuple) and len(t.elts) == 2 and isinstance(ty, tuple) and ty[0] == 'tuple':
            a = self.bind_target(t.elts[0], ty[1], env)
            b = self.bind_target(t.elts[1], ty[2], env)
            return "'(%s, %s)" % (a.lstrip("'"), b.lstrip("'"))
        raise Unsupported('loop target %s for elements of type %r' % (ast.unparse(t), ty))

    def comp_source(self, c, env, pre):
        if len(c.generators) != 1:
            raise Unsupported('nested comprehension')
        g = c.generators[0]
        if g.is_async:
            raise Unsupported('async comprehension')
        tl, l = self.expr(g.iter, env, pre)
        if tl == 'pyval':
            l = self.bindf(pre, 'py_iter %s' % l)
            tl = ('list', 'pyval')
        if not (isinstance(tl, tuple) and tl[0] in ('list',)):
            raise Unsupported('comprehension over a %r' % (tl,))
        env2 = copy_env(env)
        pat = self.bind_target(g.target, tl[1], env2)
        conds = []
        for c_ in g.ifs:
            tc, cv = self.pure(c_, env2)
            conds.append(self.truth(tc, cv))
        if conds:
            l = '(filter (fun it_ => let %s := it_ in %s) %s)' % (pat, ' && '.join(conds), l)
        return l, pat, env2

    def dictcomp(self, e, env, pre):
        l, pat, env2 = self.comp_source(e, env, pre)
        tk, k = self.pure(e.key, env2)
        tv, v = self.pure(e.value, env2)
        if tk != 'int':
            raise Unsupported('dict comprehension with keys of type %r' % (tk,))
        return ('dict', 'int', tv), '(zd_of_pairs (map (fun it_ => let %s := it_ in (%s, %s)) %s))' % (pat, k, v, l)

    def listcomp(self, e, env, pre):
        l, pat, env2 = self.comp_source(e, env, pre)
        pre2 = []
        tv, v = self.expr(e.elt, env2, pre2)
        if not pre2:
            return ('list', tv), '(map (fun it_ => let %s := it_ in %s) %s)' % (pat, v, l)
        body = self.wrap(pre2, 'Ok %s' % v)
        return ('list', tv), self.bindf(pre, 'map_res (fun it_ => let %s := it_ in %s) %s' % (pat, body, l))

    @staticmethod
    def wrap(pre, term):
        for n, t in reversed(pre):
            term = '%s <- %s ;; %s' % (n, t, term)
        return term

    # ---------------------------------------------------------------- statements
    # block(stmts, env, k): term of type res R; k(env) is the term of what follows.
    def block(self, stmts, env, k):
        if not stmts:
            return k(env)
        s, rest = stmts[0], stmts[1:]

        def cont(env2):
            return self.block(rest, env2, k)
        return self.stmt(s, env, cont, last=not rest)

    def let(self, name, term, body, fallible=False):
        return ('%s <- %s ;;\n  %s' if fallible else 'let %s := %s in\n  %s') % (name, term, body)

    def check_mutable(self, env, py):
        if py not in env:
            raise Unsupported('mutation of the unknown name ' + py)
        if env[py].borrowed:
            raise Unsupported('mutation of %s, which aliases the inside of another object' % py)
        if env[py].escaped:
            raise Unsupported('mutation of %s after it was stored into a container' % py)

    def mark_escaped(self, e, env):
        if isinstance(e, ast.Name) and e.id in env:
            t = env[e.id].type
            if t in ('graph',) or t in EMPTY or (isinstance(t, tuple) and t[0] in ('list', 'dict', 'set', 'ddl')):
                env[e.id].escaped = True

    def assign_name(self, py, ty, term, env, k, pre, borrowed=False):
        env2 = copy_env(env)
        n = self.coq_name(py)
        env2[py] = Var(n, ty, borrowed=borrowed)
        return self.wrap(pre, 'let %s := %s in\n  %s' % (n, term, k(env2)))

    def stmt(self, s, env, k, last):
        if isinstance(s, ast.Expr) and isinstance(s.value, ast.Constant) and isinstance(s.value.value, str):
            return k(env)
        if isinstance(s, ast.Pass):
            return k(env)
        if isinstance(s, ast.Return):
            if not last:
                raise Unsupported('return that is not the last statement')
            return self.ret(s.value, env)
        if isinstance(s, ast.Assign):
            if len(s.targets) != 1:
                raise Unsupported('chained assignment')
            return self.assign(s.targets[0], s.value, env, k)
        if isinstance(s, ast.AugAssign):
            return self.augassign(s, env, k)
        if isinstance(s, ast.Expr):
            return self.expr_stmt(s.value, env, k)
        if isinstance(s, ast.If):
            return self.if_stmt(s, env, k)
        if isinstance(s, ast.Try):
            return self.try_stmt(s, env, k)
        if isinstance(s, ast.For):
            return self.for_stmt(s, env, k)
        if isinstance(s, ast.While):
            return self.while_stmt(s, env, k)
        if isinstance(s, ast.Assert):
            pre = []
            t, v = self.expr(s.test, env, pre)
            return self.wrap(pre, '_ <- py_assert %s ;;\n  %s' % (self.truth(t, v), k(env)))
        raise Unsupported('statement %s' % type(s).__name__)

    def ret(self, value, env):
        pre = []
        if value is None:
            t, v = 'none', 'tt'
        else:
            t, v = self.expr(value, env, pre)
        self.ret_type = t
        outs = [env[p].coq for p in self.mutated_params]
        if t != 'none' or not outs:
            outs.append(v)
        return self.wrap(pre, 'Ok (%s)' % ', '.join(outs))

    def is_borrow(self, e):
        """expressions whose value is (part of) the inside of a graph"""
        if isinstance(e, ast.Subscript) and isinstance(e.value, ast.Attribute) and e.value.attr in ('nodes', 'edges'):
            return True
        return False

    def assign(self, target, value, env, k):
        pre = []
        if isinstance(target, ast.Name):
            t, v = self.expr(value, env, pre)
            env1 = copy_env(env)
            if isinstance(value, ast.Name):
                # `a = b` of a mutable object makes two names of ONE object: not handled, unless immutable
                if t in ('graph',) or t in EMPTY or (isinstance(t, tuple) and t[0] in ('list', 'dict', 'set', 'ddl')):
                    raise Unsupported('alias of a mutable object: %s = %s' % (target.id, value.id))
            if isinstance(value, ast.Call) and ast.unparse(value.func) == 'itertools.combinations' \
                    and self.loads.get(target.id, 0) != 1:
                raise Unsupported('the iterator %s is used more than once' % target.id)
            return self.assign_name(target.id, t, v, env1, k, pre, borrowed=self.is_borrow(value))
        if isinstance(target, ast.Tuple):
            raise Unsupported('tuple assignment outside a loop header')
        if isinstance(target, ast.Subscript):
            return self.setitem(target, value, env, k)
        raise Unsupported('assignment target %s' % ast.unparse(target))

    def rebind(self, py, term, env, k, pre, newtype=None, fallible=False):
        env2 = copy_env(env)
        n = self.coq_name(py)
        old = env2[py]
        env2[py] = Var(n, newtype or old.type)
        body = k(env2)
        return self.wrap(pre, self.let(n, term, body, fallible))

    def setitem(self, target, value, env, k):
        pre = []
        base = target.value
        # X.nodes[mn]['graph'].nodes[n][key] = v
        if isinstance(base, ast.Subscript) and isinstance(base.value, ast.Attribute) and base.value.attr == 'nodes' \
                and store_target(base.value.value):
            gname = store_target(base.value.value)
            if gname not in self.stores or gname not in env:
                raise Unsupported('%s has no store of fragment graphs' % gname)
            tv, v = self.expr(value, env, pre)
            tm, mn = self.expr(base.value.value.value.slice, env, pre)
            mn = self.node_key(tm, mn, pre)
            tn, n = self.expr(base.slice, env, pre)
            tk, kk = self.expr(target.slice, env, pre)
            if tn != 'int' or tk != 'str' or tv == 'graph':
                raise Unsupported('write into a stored fragment graph: %s' % ast.unparse(target))
            st = gname + '$g'
            return self.rebind(st, 'nx_set_store_node_item %s %s %s %s %s %s' % (env[gname].coq, env[st].coq, mn, n, kk,
                                                                             to_pyval(tv, v)), env, k, pre, fallible=True)
        # G.nodes[n][key] = v
        if isinstance(base, ast.Subscript) and isinstance(base.value, ast.Attribute) and base.value.attr == 'nodes' \
                and isinstance(base.value.value, ast.Name):
            gname = base.value.value.id
            if gname not in env or env[gname].type != 'graph':
                raise Unsupported('%s is not a graph' % gname)
            tv, v = self.expr(value, env, pre)        # Python evaluates the right-hand side first
            if tv != 'graph':
                self.check_mutable(env, gname)
            tn, n = self.expr(base.slice, env, pre)
            tk, kk = self.expr(target.slice, env, pre)
            if tn != 'int' or tk != 'str':
                raise Unsupported('G.nodes[%r][%r] = ...' % (tn, tk))
            if tv == 'graph':
                if not (gname in self.stores and isinstance(target.slice, ast.Constant) and target.slice.value == 'graph'):
                    raise Unsupported('a graph stored as a node attribute other than X.nodes[n][\'graph\']')
                self.mark_escaped(value, env)
                st = gname + '$g'
                return self.rebind(st, 'nx_set_node_graph %s %s %s %s' % (env[gname].coq, env[st].coq, n, v),
                                   env, k, pre, fallible=True)
            if isinstance(target.slice, ast.Constant) and target.slice.value == 'graph':
                raise Unsupported('the graph-valued attribute is assigned something that is not a graph')
            self.mark_escaped(value, env)
            return self.rebind(gname, 'nx_set_node_item %s %s %s %s' % (env[gname].coq, n, kk, to_pyval(tv, v)),
                               env, k, pre, fallible=True)
        if not isinstance(base, ast.Name):
            raise Unsupported('assignment to %s' % ast.unparse(target))
        self.check_mutable(env, base.id)
        tv, v = self.expr(value, env, pre)
        tk, kk = self.expr(target.slice, env, pre)
        var = env[base.id]
        self.mark_escaped(value, env)
        if var.type == ATTRS and tk == 'str':
            return self.rebind(base.id, 'aset %s %s %s' % (kk, to_pyval(tv, v), var.coq), env, k, pre)
        if var.type == 'empty_dict' and tk == 'int':
            return self.rebind(base.id, 'zd_set %s %s %s' % (var.coq, kk, v), env, k, pre, newtype=('dict', 'int', tv))
        if isinstance(var.type, tuple) and var.type[0] == 'dict' and var.type[1] == 'int' and tk == 'int':
            ty = var.type
            if ty[2] != tv:
                j = join(ty[2], tv)
                if j != ty[2]:
                    raise Unsupported('dict values change type from %r to %r' % (ty[2], tv))
                v = coerce(tv, j, v)
            return self.rebind(base.id, 'zd_set %s %s %s' % (var.coq, kk, v), env, k, pre)
        raise Unsupported('item assignment %s (%r)' % (ast.unparse(target), var.type))

    def augassign(self, s, env, k):
        if not isinstance(s.op, ast.Add):
            raise Unsupported('augmented assignment other than +=')
        pre = []
        if isinstance(s.target, ast.Name):
            self.check_mutable(env, s.target.id)
            var = env[s.target.id]
            tv, v = self.expr(s.value, env, pre)
            if var.type == 'int' and tv == 'int':
                return self.rebind(s.target.id, '(%s + %s)' % (var.coq, v), env, k, pre)
            raise Unsupported('+= on %r and %r' % (var.type, tv))
        if isinstance(s.target, ast.Subscript) and isinstance(s.target.value, ast.Name):
            py = s.target.value.id
            self.check_mutable(env, py)
            var = env[py]
            tk, kk = self.expr(s.target.slice, env, pre)
            tv, v = self.expr(s.value, env, pre)
            if tk in ('int', 'pyval') and isinstance(tv, tuple) and tv[0] == 'list' and \
                    (var.type == 'empty_ddl' or (isinstance(var.type, tuple) and var.type[0] == 'ddl'
                                                 and var.type[2] == tv[1])):
                return self.rebind(py, 'ddl_extend %s %s %s' % (var.coq, to_pyval(tk, kk), v), env, k, pre,
                                   newtype=('ddl', 'pyval', tv[1]), fallible=True)
        raise Unsupported('augmented assignment %s' % ast.unparse(s))

    def expr_stmt(self, e, env, k):
        if not isinstance(e, ast.Call):
            raise Unsupported('expression statement %s' % ast.unparse(e))
        pre = []
        fname = ast.unparse(e.func)
        if fname == 'nx.set_node_attributes' and len(e.args) == 3 and not e.keywords \
                and isinstance(e.args[0], ast.Name):
            py = e.args[0].id
            self.check_mutable(env, py)
            (tg, g), (td, d), (tn, n) = [self.expr(a, env, pre) for a in e.args]
            if tg == 'graph' and td == ('dict', 'int', 'pyval') and tn == 'str':
                return self.rebind(py, 'nx_set_node_attributes %s %s %s' % (g, d, n), env, k, pre)
            raise Unsupported('set_node_attributes(%r, %r, %r)' % (tg, td, tn))
        if isinstance(e.func, ast.Attribute):
            m = e.func.attr
            recv = e.func.value
            star = [kw for kw in e.keywords if kw.arg is None]
            named = [kw for kw in e.keywords if kw.arg is not None]
            if m in ('add_node', 'add_edge') and isinstance(recv, ast.Name) and not named and len(star) <= 1:
                self.check_mutable(env, recv.id)
                if env[recv.id].type != 'graph':
                    raise Unsupported('%s of a %r' % (m, env[recv.id].type))
                args = [self.expr(a, env, pre) for a in e.args]
                if any(t != 'int' for t, _ in args) or len(args) != (1 if m == 'add_node' else 2):
                    raise Unsupported('arguments of %s' % ast.unparse(e))
                if star:
                    ta, a = self.expr(star[0].value, env, pre)
                    if ta != ATTRS:
                        raise Unsupported('** of a %r' % (ta,))
                else:
                    a = '[]'
                return self.rebind(recv.id, 'nx_%s %s %s %s' % (m, env[recv.id].coq, ' '.join(v for _, v in args), a),
                                   env, k, pre)
            if m == 'append' and len(e.args) == 1 and not e.keywords:
                tv, v = self.expr(e.args[0], env, pre)
                self.mark_escaped(e.args[0], env)
                # fragid_to_node[fragid].append(node) on a defaultdict(list)
                if isinstance(recv, ast.Subscript) and isinstance(recv.value, ast.Name):
                    py = recv.value.id
                    self.check_mutable(env, py)
                    var = env[py]
                    tk, kk = self.expr(recv.slice, env, pre)
                    if var.type == 'empty_ddl' or (isinstance(var.type, tuple) and var.type[0] == 'ddl'
                                                   and var.type[2] == tv):
                        if tk in ('int', 'pyval'):
                            return self.rebind(py, 'ddl_append %s %s %s' % (var.coq, to_pyval(tk, kk), v), env, k, pre,
                                               newtype=('ddl', 'pyval', tv), fallible=True)
            if m == 'add' and len(e.args) == 1 and not e.keywords and isinstance(recv, ast.Name):
                self.check_mutable(env, recv.id)
                var = env[recv.id]
                tv, v = self.expr(e.args[0], env, pre)
                if var.type == 'empty_set' or var.type == ('set', tv):
                    if tv not in ('int', 'str'):
                        raise Unsupported('set of %r' % (tv,))
                    return self.rebind(recv.id, 'set_add_%s %s %s' % (tv, var.coq, v), env, k, pre, newtype=('set', tv))
        raise Unsupported('expression statement %s' % ast.unparse(e))

    # -- joins ----------------------------------------------------------------------------
    def branch(self, stmts, env, outs):
        """translate a branch; returns (term producing Ok (outs...), types of outs) via a 2-pass closure"""
        res = {}

        def k(env2):
            res['env'] = env2
            vals = []
            for o in outs:
                if o not in env2:
                    raise Unsupported('%s is not defined on every path' % o)
                vals.append(env2[o])
            res['types'] = [v.type for v in vals]
            return '\x00'     # placeholder, replaced once the joined types are known
        term = self.block(stmts, copy_env(env), k)
        return term, res['types'], res['env']

    def tuple_pat(self, names):
        if len(names) == 1:
            return names[0]
        return "'(%s)" % ', '.join(names)

    def if_stmt(self, s, env, k):
        pre = []
        tc, c = self.expr(s.test, env, pre)
        if tc == 'bool' and c == 'true' and isinstance(s.test, ast.UnaryOp) and isinstance(s.test.operand, ast.Name) \
                and s.test.operand.id in self.fixed_none and not s.orelse:
            # `if not <parameter fixed to None>:` -- the branch is always taken
            return self.wrap(pre, self.block(s.body, env, k))
        if isinstance(s.test, ast.Name) and s.test.id in self.fixed_none and tc == 'none':
            # `if <parameter fixed to None>:` -- the else branch is always taken
            return self.wrap(pre, self.block(s.orelse, env, k))
        c = self.truth(tc, c)
        outs = [n for n in assigned_names(s.body + s.orelse)]
        # names defined in one branch only and unknown before are dropped (their later use is Unsupported)
        a_names = assigned_names(s.body)
        b_names = assigned_names(s.orelse)
        outs = [n for n in outs if (n in a_names or n in env) and (n in b_names or n in env)]
        ta, tya, enva = self.branch(s.body, env, outs)
        tb, tyb, envb = self.branch(s.orelse, env, outs)
        tys = [join(x, y) for x, y in zip(tya, tyb)]

        def fill(term, brenv, brtys):
            vals = [coerce(bt, jt, brenv[o].coq) for o, bt, jt in zip(outs, brtys, tys)]
            return term.replace('\x00', 'Ok (%s)' % ', '.join(vals) if vals else 'Ok tt')
        ta, tb = fill(ta, enva, tya), fill(tb, envb, tyb)
        env2 = copy_env(env)
        names = []
        for o, t in zip(outs, tys):
            n = self.coq_name(o)
            env2[o] = Var(n, t, escaped=enva[o].escaped or envb[o].escaped,
                          borrowed=enva[o].borrowed or envb[o].borrowed)
            names.append(n)
        pat = self.tuple_pat(names) if names else '_'
        return self.wrap(pre, '%s <- (if %s then (%s) else (%s)) ;;\n  %s' % (pat, c, ta, tb, k(env2)))

    def try_stmt(self, s, env, k):
        # try: iter(v) / except TypeError: A / else: B
        ok = (len(s.body) == 1 and isinstance(s.body[0], ast.Expr) and isinstance(s.body[0].value, ast.Call)
              and ast.unparse(s.body[0].value.func) == 'iter' and len(s.body[0].value.args) == 1
              and not s.body[0].value.keywords and len(s.handlers) == 1 and not s.finalbody
              and s.handlers[0].name is None and s.handlers[0].type is not None
              and ast.unparse(s.handlers[0].type) == 'TypeError')
        if not ok:
            raise Unsupported('try statement other than the iter()/TypeError test')
        tv, v = self.pure(s.body[0].value.args[0], env)
        if tv != 'pyval':
            raise Unsupported('iter() test of a %r' % (tv,))
        test = ast.If(test=ast.Name(id='\x01iter', ctx=ast.Load()), body=s.orelse or [ast.Pass()],
                      orelse=s.handlers[0].body)
        env1 = copy_env(env)
        env1['\x01iter'] = Var('(py_is_iterable %s)' % v, 'bool')
        return self.if_stmt(test, env1, lambda e2: k({a: b for a, b in e2.items() if a != '\x01iter'}))

    def loop_state(self, body_names, env):
        return [n for n in body_names if n in env]

    def for_stmt(self, s, env, k):
        if s.orelse:
            raise Unsupported('for/else')
        pre = []
        tl, l = self.expr(s.iter, env, pre)
        if isinstance(s.iter, ast.Attribute) and s.iter.attr == 'nodes':
            pass
        if tl == 'pyval':
            l = self.bindf(pre, 'py_iter %s' % l)
            tl = ('list', 'pyval')
        if not (isinstance(tl, tuple) and tl[0] == 'list'):
            raise Unsupported('for over a %r' % (tl,))
        tnames = assigned_names([ast.Assign(targets=[s.target], value=ast.Constant(value=0))])
        carried = self.loop_state([n for n in assigned_names(s.body) if n not in tnames], env)
        for n in tnames:
            if n in assigned_names(s.body) and n in env:
                raise Unsupported('the loop variable %s is re-bound in the body and exists before the loop' % n)
        # the iterated object must not be mutated in the body
        for n in ast.walk(s.iter):
            if isinstance(n, ast.Name) and n.id in carried:
                raise Unsupported('%s is iterated and mutated in the same loop' % n.id)
        types = [env[n].type for n in carried]
        for _ in range(3):
            env_in = copy_env(env)
            st_names = []
            for n, t in zip(carried, types):
                cn = self.coq_name(n)
                env_in[n] = Var(cn, t, borrowed=env[n].borrowed, escaped=env[n].escaped)
                st_names.append(cn)
            pat = self.bind_target(s.target, tl[1], env_in)
            body, out_types, out_env = self.branch(s.body, env_in, carried)
            new = [join(a, b) for a, b in zip(types, out_types)]
            if new == types:
                break
            types = new
        else:
            raise Unsupported('the types of the loop state do not stabilise')
        vals = [coerce(bt, jt, out_env[o].coq) for o, bt, jt in zip(carried, out_types, types)]
        body = body.replace('\x00', 'Ok (%s)' % ', '.join(vals) if vals else 'Ok tt')
        st_pat = self.tuple_pat(st_names) if st_names else '_'
        init = '(%s)' % ', '.join(coerce(env[n].type, t, env[n].coq) for n, t in zip(carried, types)) if carried else 'tt'
        env2 = copy_env(env)
        for n, t in zip(carried, types):
            env2[n] = Var(self.coq_name(n), t, escaped=out_env[n].escaped, borrowed=out_env[n].borrowed)
        fn = '(fun st_ it_ => let %s := st_ in let %s := it_ in\n  %s)' % (st_pat, pat, body)
        return self.wrap(pre, '%s <- fold_res %s %s %s ;;\n  %s' % (st_pat, fn, l, init, k(env2)))

    def while_stmt(self, s, env, k):
        if s.orelse:
            raise Unsupported('while/else')
        names = assigned_names(s.body)
        for n in names:
            if n not in env:
                raise Unsupported('%s is first bound inside a while loop' % n)
        carried = names
        env_in = copy_env(env)
        st_names = []
        for n in carried:
            cn = self.coq_name(n)
            env_in[n] = Var(cn, env[n].type, borrowed=env[n].borrowed, escaped=env[n].escaped)
            st_names.append(cn)
        tc, c = self.pure(s.test, env_in)
        c = self.truth(tc, c)
        # fuel: 1 + the sizes of the sets the condition tests (they must not change in the loop)
        sizes = []
        for n in ast.walk(s.test):
            if isinstance(n, ast.Compare) and len(n.ops) == 1 and isinstance(n.ops[0], (ast.In, ast.NotIn)):
                r = n.comparators[0]
                if not (isinstance(r, ast.Name) and r.id in env and r.id not in carried
                        and (env[r.id].type == 'empty_set' or (isinstance(env[r.id].type, tuple) and env[r.id].type[0] == 'set'))):
                    raise Unsupported('while condition tests membership in something that is not a loop-invariant set')
                sizes.append('length %s' % env[r.id].coq)
        if not sizes:
            raise Unsupported('while loop without a membership test to bound it')
        body, out_types, out_env = self.branch(s.body, env_in, carried)
        if out_types != [env[n].type for n in carried]:
            raise Unsupported('a while loop changes the type of its state')
        vals = [out_env[o].coq for o in carried]
        body = body.replace('\x00', 'Ok (%s)' % ', '.join(vals))
        pat = self.tuple_pat(st_names)
        init = '(%s)' % ', '.join(env[n].coq for n in carried)
        env2 = copy_env(env)
        for n in carried:
            env2[n] = Var(self.coq_name(n), env[n].type, escaped=out_env[n].escaped, borrowed=out_env[n].borrowed)
        return ('%s <- py_while (Datatypes.S (%s)) (fun st_ => let %s := st_ in %s) (fun st_ => let %s := st_ in\n  %s) %s ;;\n  %s'
                % (pat, ' + '.join(sizes), pat, c, pat, body, init, k(env2)))

    # ---------------------------------------------------------------- function
    def translate(self, name):
        fn = self.fn
        a = fn.args
        if a.vararg or a.kwarg or a.kwonlyargs or a.posonlyargs:
            raise Unsupported('parameter kinds of %s' % fn.name)
        params = [x.arg for x in a.args]
        if set(params) != set(self.argtypes):
            raise Unsupported('parameters of %s changed: %s' % (fn.name, params))
        mutated = assigned_names(fn.body)
        self.mutated_params = []
        for p in params:
            if p in mutated and self.argtypes[p] == 'graph':
                self.mutated_params.append(p)
            if p in self.stores and p + '$g' in mutated:
                self.mutated_params.append(p + '$g')
        for p in params:
            if p in mutated and p not in self.mutated_params and p not in self.fixed_none:
                raise Unsupported('parameter %s is re-bound' % p)
        env = {}
        binders = []
        for p in params:
            t = self.argtypes[p]
            n = self.coq_name(p)
            env[p] = Var(n, t)
            if p in self.fixed_none:
                continue
            binders.append('(%s : %s)' % (n, coq_type(t)))
            if p in self.stores:
                n2 = self.coq_name(p + '$g')
                env[p + '$g'] = Var(n2, 'fgraphs')
                binders.append('(%s : fgraphs)' % n2)
        self.ret_type = None

        def end(env2):
            # falling off the end: return None
            return self.ret(None, env2)
        body = self.block(fn.body, env, end)
        rts = [coq_type(env[p].type) for p in self.mutated_params]
        if self.ret_type != 'none' or not rts:
            rts.append(coq_type(self.ret_type))
        return 'Definition %s %s : res (%s) :=\n  %s.\n' % (name, ' '.join(binders), ' * '.join(rts), body)


def default_of(fn, param):
    a = fn.args
    ds = dict(zip([x.arg for x in a.args][len(a.args) - len(a.defaults):], a.defaults))
    if param not in ds:
        raise Unsupported('%s has no default for %s' % (fn.name, param))
    return ds[param]


def gen_sort(t):
    fn = py2v.find_function(t, 'sort_nodes_by_attr')
    tr = Tr(fn, {'graph': 'graph', 'sort_attr': 'str', 'relative_attr': ('list', ('tuple', 'str', 'bool'))})
    out = tr.translate('gen_sort_nodes_by_attr')
    d1 = default_of(fn, 'sort_attr')
    d2 = default_of(fn, 'relative_attr')
    if not (isinstance(d1, ast.Constant) and isinstance(d1.value, str)):
        raise Unsupported('default of sort_attr')
    if not (isinstance(d2, ast.List) and all(isinstance(x, ast.Tuple) and len(x.elts) == 2
                                             and isinstance(x.elts[0], ast.Constant) and isinstance(x.elts[0].value, str)
                                             and isinstance(x.elts[1], ast.Constant) and isinstance(x.elts[1].value, bool)
                                             for x in d2.elts)):
        raise Unsupported('default of relative_attr')
    out += '(* the defaults of the signature *)\n'
    out += 'Definition sort_attr_default : pystr := %s.\n' % coq_str(d1.value)
    out += 'Definition relative_attr_default : list (pystr * bool) := [%s].\n' % '; '.join(
        '(%s, %s)' % (coq_str(x.elts[0].value), 'true' if x.elts[1].value else 'false') for x in d2.elts)
    return out


def gen_merge(t):
    fn = py2v.find_function(t, 'merge_graphs')
    d = default_of(fn, 'max_node')
    if not (isinstance(d, ast.Constant) and d.value is None):
        raise Unsupported('default of max_node is not None')
    # translated at max_node=None, the only way the resolver and the sampler call it
    tr = Tr(fn, {'source_graph': 'graph', 'target_graph': 'graph', 'max_node': 'none'}, fixed_none=['max_node'])
    return tr.translate('gen_merge_graphs')


def gen_annotate(t):
    fn = py2v.find_function(t, 'annotate_fragments')
    tr = Tr(fn, {'meta_graph': 'graph', 'molecule': 'graph'}, stores=['meta_graph'])
    return tr.translate('gen_annotate_fragments')


def gen_names(t):
    fn = py2v.find_function(t, 'set_atom_names_atomistic')
    d = default_of(fn, 'meta_graph')
    if not (isinstance(d, ast.Constant) and d.value is None):
        raise Unsupported('default of meta_graph is not None')
    # once with a coarse graph (the resolver), once at meta_graph=None (the sampler)
    out = Tr(fn, {'molecule': 'graph', 'meta_graph': 'graph'}, stores=['meta_graph']).translate('gen_set_atom_names_atomistic')
    out += '\n' + Tr(fn, {'molecule': 'graph', 'meta_graph': 'none'},
                     fixed_none=['meta_graph']).translate('gen_set_atom_names_atomistic_nometa')
    return out


PREAMBLE = ('From Coq Require Import Lia.\n'
            'From CGV Require Import Base.NxGraph Resolve.GraphOps Resolve.SourcePrims.\n'
            'Open Scope Z_scope.\n\n')


@_target('GraphUtilsGen', ['cgsmiles/graph_utils.py'])
def gen_graphutils(trees):
    t = trees['cgsmiles/graph_utils.py']
    out = PREAMBLE
    out += gen_sort(t)
    out += '\n' + gen_merge(t)
    out += '\n' + gen_annotate(t)
    out += '\n' + gen_names(t)
    return out
