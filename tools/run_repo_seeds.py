#!/usr/bin/env python3
"""run_repo_seeds.py [--only id,id] : the brief's own procedure for every seeded change — apply the patch to /repo
ITSELF (git -C /repo apply), run the quick check of the seed's own property from /verif, undo it straight afterwards
(git -C /repo checkout -- . ; untracked files the patch created are removed), and record the outcome in
seeded/<id>/meta.json under "on_repo_itself".  Sequential (there is one /repo).  Nothing else may use /repo meanwhile.
Superseded seeds are run too (their outcome is informational)."""
import glob
import json
import os
import re
import subprocess
import sys


def sh(cmd, **kw):
    return subprocess.run(cmd, shell=True, capture_output=True, text=True, **kw)


def main(argv):
    only = None
    if argv[:1] == ['--only']:
        only = argv[1].split(',')
    assert sh('git -C /repo status --porcelain').stdout.strip() == '', '/repo is not clean'
    head = sh('git -C /repo rev-parse --short HEAD').stdout.strip()
    seeds = sorted(glob.glob('/verif/seeded/C*-*/'))
    for d in seeds:
        sid = os.path.basename(d.rstrip('/'))
        if only and sid not in only:
            continue
        own = sid.split('-')[0]
        patch = os.path.join(d, 'patch.diff')
        res = {'repo_head': head}
        ap = sh('git -C /repo apply %s' % patch)
        if ap.returncode != 0:
            res['error'] = 'patch does not apply: ' + ap.stderr[:200]
        else:
            try:
                pr = sh('cd /verif && timeout 3000 ./check %s --tier quick' % own)
                viol = [l for l in pr.stdout.splitlines() if l.startswith('VIOLATION')]
                res.update({'check': own, 'rc': pr.returncode, 'violation': bool(viol)})
                if viol:
                    res['no_failing_input_found'] = viol[0].rstrip().endswith('no-failing-input-found')
                    m = re.search(r'replay=(\S+)', viol[0])
                    if m and os.path.exists(m.group(1)):
                        rep = json.load(open(m.group(1)))
                        if rep.get('input') is not None:
                            res['failing_input'] = json.dumps(rep.get('input'), default=str)[:400]
                        res['failing_clause'] = rep.get('failing_clause')
            finally:
                sh('git -C /repo checkout -- . && git -C /repo clean -fdq cgsmiles')
        assert sh('git -C /repo status --porcelain').stdout.strip() == '', '/repo not restored after ' + sid
        mp = os.path.join(d, 'meta.json')
        m = json.load(open(mp))
        m['on_repo_itself'] = res
        json.dump(m, open(mp, 'w'), indent=1)
        print(sid, res.get('rc'), 'VIOLATION' if res.get('violation') else 'silent',
              'no-input' if res.get('no_failing_input_found') else '', res.get('error', ''), flush=True)
    # leave the evidence files to be rewritten by a final quick pass on the unchanged tree


if __name__ == '__main__':
    main(sys.argv[1:])
