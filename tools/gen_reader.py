"""gen_reader: the complete lists of small grammar ASTs behind the bounded theorems C04_small / C05_small
(theories/Gen/ReaderEnumGen.v).  The lists come from tools/grammar.py's exhaustive enumerator
`enum_asts` with the parameters written below (and repeated in the statements' comments); they do not
depend on /repo, the source list only satisfies the generator interface."""
import gen
import grammar as G

C04_PARAMS = [dict(max_nodes=4, syms=(None, '=', '.'), max_rings=1, markers=('1', '%10'), ring_syms=(None, '='),
                   max_depth=3, max_branches=2),
              dict(max_nodes=5, syms=(None, '#'), max_sym_slots=1, max_rings=1, markers=('2',), ring_syms=(None,),
                   max_depth=4, max_branches=2),
              dict(max_nodes=3, syms=(None, '#'), max_rings=0, node_mults=('2', '3'), max_mults=2),
              # a ring id closed and reopened behind the same node (two rings sharing a node), every spelling pair
              dict(max_nodes=5, syms=(None,), max_rings=0, ring_syms=(None, '='), max_depth=2, max_branches=1,
                   reuse=(('1', '1', '1'), ('1', '%01', '1'), ('%12', '%12', '%12'), ('%01', '1', '%01')))]
C05_PARAMS = [dict(max_nodes=3, syms=(None, '#'), max_rings=0, node_mults=('2', '3'), branch_mults=('1', '2', '3'), max_mults=2),
              dict(max_nodes=4, syms=(None, '='), max_sym_slots=1, max_rings=0, node_mults=('2',), branch_mults=('2', '3'),
                   max_mults=2)]


def small_c04():
    seen, out = set(), []
    for p in C04_PARAMS:
        for a in G.enum_asts(**p):
            t = G.print_ast(a)
            if t not in seen:
                seen.add(t)
                out.append(a)
    return out


def small_c05():
    seen, out = set(), []
    for p in C05_PARAMS:
        for a in G.enum_asts(**p):
            t = G.print_ast(a)
            if t not in seen and (G.has_node_mult(a) or G.has_branch_mult(a)):
                seen.add(t)
                out.append(a)
    return out


@gen.target('ReaderEnumGen', ['cgsmiles/read_cgsmiles.py'])
def gen_enum(trees):
    out = 'From CGV Require Import Reader.Grammar.\n'
    out += '(* enum_asts parameters, C04: %r *)\n' % (C04_PARAMS,)
    out += 'Definition small_c04 : list chain := [\n' + ';\n'.join(G.coq_ast(a) for a in small_c04()) + '\n].\n'
    out += '(* enum_asts parameters, C05: %r *)\n' % (C05_PARAMS,)
    out += 'Definition small_c05 : list chain := [\n' + ';\n'.join(G.coq_ast(a) for a in small_c05()) + '\n].\n'
    return out
