"""Shared machinery of the checks: build (gen + coq), evaluation of case files inside Coq,
evidence, known findings, replay files, verdicts.  Run under /venv/bin/python (needs the
repository's third-party dependencies to drive the implementation)."""
import contextlib
import fcntl
import io
import hashlib
import json
import os
import random
import re
import shutil
import subprocess
import sys
import time

VERIF = os.path.dirname(os.path.dirname(os.path.abspath(__file__)))
REPO = os.environ.get('CGV_REPO', '/repo')
THEORIES = os.path.join(VERIF, 'theories')
WORK = os.path.join(VERIF, '.work')
NCPU = max(1, min(16, os.cpu_count() or 1))
TRUSTED_BASE = [
    'Coq 8.16.1 kernel incl. the vm_compute reduction machine (native_compute not used)',
    'tools/py2v.py + tools/gen.py (fail-closed translator that regenerates theories/Gen/*.v from /repo on every run)',
    'hand-written Impl models in theories/* are tied to /repo only by the per-run correspondence check '
    '(differential execution on generated inputs; reach = the generators reported under coverage)',
    'tools/lit.py literal printers and the harness code that drives /repo (tools/props/*.py)',
    'CPython 3.12, networkx 3.6.1, pysmiles 2.1.0 as installed in /venv (third-party code is modelled or '
    'recorded as transcripts, never axiomatised)',
]


def setup_repo_import():
    """make `import cgsmiles` load /repo's working tree"""
    os.environ.setdefault('PBR_VERSION', '0.0.0')
    os.environ.setdefault('PYTHONHASHSEED', '0')
    os.environ['CGSMILES_VERIF'] = '1'
    if REPO not in sys.path:
        sys.path.insert(0, REPO)
    for m in [m for m in sys.modules if m == 'cgsmiles' or m.startswith('cgsmiles.')]:
        del sys.modules[m]


def sh(cmd, timeout=None, cwd=None, env=None):
    try:
        p = subprocess.run(cmd, shell=isinstance(cmd, str), cwd=cwd, env=env, timeout=timeout,
                           stdout=subprocess.PIPE, stderr=subprocess.STDOUT, text=True, errors='replace')
        return p.returncode, p.stdout
    except subprocess.TimeoutExpired as exc:
        return 124, (exc.stdout or '') + '\n[timeout after %ss]' % timeout


# ------------------------------------------------------------------------------- build
class BuildLock:
    def __enter__(self):
        os.makedirs(WORK, exist_ok=True)
        self.fh = open(os.path.join(VERIF, '.build.lock'), 'w')
        fcntl.flock(self.fh, fcntl.LOCK_EX)
        return self

    def __exit__(self, *a):
        fcntl.flock(self.fh, fcntl.LOCK_UN)
        self.fh.close()


def _write_if_changed(path, text):
    old = open(path).read() if os.path.exists(path) else None
    if old != text:
        with open(path, 'w') as fh:
            fh.write(text)
        return True
    return False


def regenerate():
    """tie (a): Gen/*.v from /repo's current tree; returns status dict"""
    sys.path.insert(0, os.path.join(VERIF, 'tools'))
    import gen
    status = gen.main(['--repo', REPO, '--out', os.path.join(THEORIES, 'Gen')])
    return status


def coq_project():
    files = []
    for root, _, names in os.walk(THEORIES):
        for n in sorted(names):
            if n.endswith('.v') and not n.startswith('.'):
                files.append(os.path.relpath(os.path.join(root, n), VERIF))
    files.sort()
    text = '-Q theories CGV\n-arg -w -arg -notation-overridden,-deprecated\n' + '\n'.join(files) + '\n'
    changed = _write_if_changed(os.path.join(VERIF, '_CoqProject'), text)
    if changed or not os.path.exists(os.path.join(VERIF, 'Makefile.coq')):
        rc, out = sh('coq_makefile -f _CoqProject -o Makefile.coq', cwd=VERIF, timeout=120)
        if rc != 0:
            raise RuntimeError('coq_makefile failed:\n' + out)


def build(targets=None, timeout=3000, keep_going=False):
    """regenerate Gen, then build the given .vo targets (paths relative to /verif) or everything.
    Returns (ok, log, gen_status)."""
    with BuildLock():
        gen_status = regenerate()
        coq_project()
        tg = ' '.join(targets) if targets else ''
        missing = [t for t in (targets or []) if not os.path.exists(os.path.join(VERIF, t[:-1]))]
        if missing:
            return False, 'missing source for target(s): %s' % ' '.join(missing), gen_status
        # every coqc runs under tools/coqc_t (per-file time limit) so that a runaway proof cannot hold the lock
        cmd = 'make -f Makefile.coq COQC=%s -j%%d %s %s' % (os.path.join(VERIF, 'tools', 'coqc_t'), '-k' if keep_going else '', tg)
        rc, out = sh(cmd % min(NCPU, max(2, _mem_workers())), cwd=VERIF, timeout=timeout)
        if rc != 0 and re.search(r'Killed|Out of memory|Error 137|signal 9', out[-4000:]):
            # a coqc was killed (memory pressure from other jobs): what was built stays, finish with two jobs
            time.sleep(10)
            rc, out2 = sh(cmd % 2, cwd=VERIF, timeout=timeout)
            out = out + '\n[retry after a killed job]\n' + out2
        return rc == 0, out, gen_status


def coqc_file(path, timeout=600):
    """compile a scratch .v (cases file) against the built theories; returns (rc, output)"""
    return sh(['coqc', '-Q', THEORIES, 'CGV', '-w', '-notation-overridden,-deprecated', path],
              timeout=timeout, cwd=os.path.dirname(path))


_NATLIST = re.compile(r'=\s*\[(.*?)\]\s*:\s*list nat', re.S)


def parse_nat_lists(output):
    """all `= [a; b; …] : list nat` answers in a coqc output, in order"""
    res = []
    for m in _NATLIST.finditer(output):
        body = m.group(1).strip()
        res.append([int(x) for x in re.findall(r'\d+', body)])
    return res


def _mem_workers():
    """number of parallel coqc jobs the available memory allows (a case file needs 0.6-1.5 GB)"""
    try:
        for line in open('/proc/meminfo'):
            if line.startswith('MemAvailable:'):
                gb = int(line.split()[1]) / 1048576.0
                return max(2, min(NCPU, int(gb / 1.5)))
    except (OSError, ValueError):
        pass
    return NCPU


def _killed(rc, out):
    """coqc did not answer because it was killed (OOM killer, signal) or ran out of memory - not a verdict"""
    return rc < 0 or rc in (137, 143) or 'Out of memory' in out[-400:] or 'Stack overflow' in out[-400:]


def run_case_files(files, timeout=900):
    """coqc several case files in parallel; returns list of (path, rc, output).  The degree of parallelism
    follows the memory that is free; a job that was killed is repeated on its own (twice at most)."""
    from concurrent.futures import ThreadPoolExecutor
    with ThreadPoolExecutor(max_workers=_mem_workers()) as ex:
        outs = list(ex.map(lambda p: (p,) + coqc_file(p, timeout), files))
    for attempt in range(2):
        redo = [k for k, (_, rc, out) in enumerate(outs) if _killed(rc, out)]
        if not redo:
            break
        time.sleep(5 + 20 * attempt)
        for k in redo:
            outs[k] = (outs[k][0],) + coqc_file(outs[k][0], timeout)
    return outs


# ------------------------------------------------------------------------------- context
class Ctx:
    """one run of one check"""

    def __init__(self, prop, tier, seed):
        self.prop = prop
        self.tier = tier
        self.seed = seed
        self.rng = random.Random((hash_int(prop) ^ seed) & 0xFFFFFFFF)
        self.t0 = time.time()
        self.work = os.path.join(WORK, '%s-%d' % (prop, os.getpid()))
        shutil.rmtree(self.work, ignore_errors=True)
        os.makedirs(self.work)
        self.coverage = {'evaluations': 0, 'distinct_nontrivial': 0, 'samples': [], 'classes': {}}
        self._distinct = set()
        self.obligations = []        # (name, discharged?)
        self.assumptions = []
        self.violations = []         # (replay_path, suffix)
        self.known = []
        self.notes = []
        self.broken = []             # broken obligations / correspondence descriptions

    def thorough(self):
        return self.tier == 'thorough'

    def count(self, case_key, cls=None, nontrivial=True, sample=None):
        self.coverage['evaluations'] += 1
        if cls:
            self.coverage['classes'][cls] = self.coverage['classes'].get(cls, 0) + 1
        if nontrivial:
            h = hashlib.sha1(repr(case_key).encode()).hexdigest()
            if h not in self._distinct:
                self._distinct.add(h)
                self.coverage['distinct_nontrivial'] += 1
        if sample is not None and len(self.coverage['samples']) < 12:
            self.coverage['samples'].append(sample)

    def cleanup(self):
        shutil.rmtree(self.work, ignore_errors=True)


def hash_int(s):
    return int(hashlib.sha1(s.encode()).hexdigest()[:8], 16)


# ------------------------------------------------------------------------------- findings

# --------------------------------------------------------------- source pins / escalation
# tools/source_pins.json holds, per cgsmiles/*.py, the digest of its `ast.dump` (comments and layout do
# not count) at the /repo commit this /verif was last validated on.  A change never is an alarm; it only
# makes the search work harder exactly when the modelled source is no longer the validated one.
_FILE_PROPS = {
    'cgsmiles/read_cgsmiles.py': ['C04', 'C05', 'C20', 'C07', 'C14', 'C11'],
    'cgsmiles/read_fragments.py': ['C13', 'C01', 'C15', 'C08', 'C06', 'C12', 'C14', 'C20', 'C03'],
    'cgsmiles/resolve.py': ['C03', 'C02', 'C10', 'C11', 'C12', 'C06', 'C01', 'C09', 'C15', 'C20', 'C14', 'C08'],
    'cgsmiles/graph_utils.py': ['C02', 'C12', 'C16', 'C06', 'C01', 'C11', 'C15', 'C17', 'C10'],
    'cgsmiles/pysmiles_utils.py': ['C09', 'C14', 'C15', 'C17', 'C01', 'C02', 'C10', 'C12', 'C16', 'C13'],
    'cgsmiles/write_cgsmiles.py': ['C07', 'C08'],
    'cgsmiles/sample.py': ['C16', 'C17', 'C09'],
    'cgsmiles/cgsmiles_utils.py': ['C16', 'C17', 'C06', 'C14', 'C08'],
    'cgsmiles/rdkit.py': ['C18'],
    'cgsmiles/coordinates.py': ['C18'],
    'cgsmiles/graph_layout.py': ['C19'],
    'cgsmiles/graph_layout_utils.py': ['C19'],
    'cgsmiles/linalg_functions.py': ['C19'],
    'cgsmiles/dialects.py': ['C14', 'C20', 'C04', 'C13'],
}


def source_digest(path):
    import ast
    try:
        return hashlib.sha256(ast.dump(ast.parse(open(path).read())).encode()).hexdigest()
    except (OSError, SyntaxError, ValueError) as exc:
        return 'unreadable: %s' % type(exc).__name__


def changed_sources(prop_id):
    """files of /repo relevant for the property whose AST differs from the pinned one (new files count)"""
    try:
        pins = json.load(open(os.path.join(VERIF, 'tools', 'source_pins.json')))['files']
    except (OSError, ValueError, KeyError):
        return []
    out = []
    d = os.path.join(REPO, 'cgsmiles')
    try:
        names = sorted(f for f in os.listdir(d) if f.endswith('.py'))
    except OSError:
        return []
    for f in names:
        rel = 'cgsmiles/' + f
        if pins.get(rel) != source_digest(os.path.join(d, f)):
            if rel not in pins or prop_id in _FILE_PROPS.get(rel, [prop_id]):
                out.append(rel)
    return out

def load_known_findings():
    """known_findings.json (committed; never written at run time; assembled by tools/mkmanifest.py
    from known_findings.d/Cxx.json)"""
    path = os.path.join(VERIF, 'known_findings.json')
    if not os.path.exists(path):
        return {'findings': [], 'fixed': []}
    return json.load(open(path))


def write_replay(ctx, name, obj):
    d = os.path.join(VERIF, 'replays')
    os.makedirs(d, exist_ok=True)
    path = os.path.join(d, '%s_%s.json' % (ctx.prop, name))
    obj = dict(obj)
    obj.setdefault('property', ctx.prop)
    obj.setdefault('seed', ctx.seed)
    obj.setdefault('tier', ctx.tier)
    with open(path, 'w') as fh:
        json.dump(obj, fh, indent=1, default=str)
    return path


def report_violation(ctx, name, obj, no_input=False):
    path = write_replay(ctx, name, obj)
    ctx.violations.append((path, no_input))
    print('VIOLATION property=%s replay=%s%s' % (ctx.prop, path, ' no-failing-input-found' if no_input else ''))
    sys.stdout.flush()
    return path


def report_known(ctx, what):
    ctx.known.append(what)
    print('KNOWN-FINDING: property=%s %s' % (ctx.prop, what))
    sys.stdout.flush()


# ------------------------------------------------------------------------------- evidence
def print_assumptions_of(build_log, vo_targets):
    """collect the `Print Assumptions` answers recorded when the property files were compiled"""
    out = {}
    for t in vo_targets:
        logp = os.path.join(VERIF, t[:-3] + '.assumptions')
        if os.path.exists(logp):
            out[t] = open(logp).read().strip()
    return out


def write_evidence(ctx, level, extra_cov=None, technique=None):
    cov = dict(ctx.coverage)
    cov['obligations'] = len(ctx.obligations)
    cov['discharged'] = sum(1 for _, ok in ctx.obligations if ok)
    cov['obligation_names'] = [n for n, _ in ctx.obligations]
    cov['checker_cmd'] = ('make -C /verif -f Makefile.coq <property .vo> (coqc 8.16.1, full .vo build) ; '
                          'coqc on generated case files for the correspondence')
    cov['trusted_base'] = TRUSTED_BASE
    cov['broken'] = ctx.broken
    cov['known_findings_reported'] = ctx.known
    if technique:
        cov['technique'] = technique
    if extra_cov:
        cov.update(extra_cov)
    if not cov['samples']:
        cov['samples'] = ['(no case generated)']
    if not ctx.assumptions:
        # what the check assumes / trusts: the note of its MANIFEST entry
        try:
            mf = json.load(open(os.path.join(VERIF, 'tools', 'props', ctx.prop.lower() + '.manifest.json')))
            ctx.assumptions = [mf.get('note', '')] + ['third-party code is modelled or recorded as transcripts with checked '
                                                      'contracts, never axiomatised (DESIGN.md 2.6, 8.2, 10)']
        except (OSError, ValueError):
            pass
    ev = {
        'property_id': ctx.prop,
        'tier': ctx.tier,
        'seed': ctx.seed,
        'level': level,
        'coverage': cov,
        'assumptions': ctx.assumptions,
        'wall_s': round(time.time() - ctx.t0, 2),
        'violations': len(ctx.violations),
        'notes': ctx.notes,
    }
    os.makedirs(os.path.join(VERIF, 'evidence'), exist_ok=True)
    path = os.path.join(VERIF, 'evidence', ctx.prop + '.json')
    tmp = path + '.tmp%d' % os.getpid()
    with open(tmp, 'w') as fh:
        json.dump(ev, fh, indent=1, default=str)
    os.replace(tmp, path)
    return path


_FORBIDDEN = re.compile(r'\b(Admitted|admit|Axiom|Axioms|Parameter|Parameters|Conjecture|Admit Obligations|bypass_check)\b|Unset Guard Checking|Unset Positivity Checking|Unset Universe Checking')


def strip_comments(text):
    """remove (possibly nested) Coq comments and string literals"""
    out = []
    depth = 0
    i = 0
    instr = False
    while i < len(text):
        if instr:
            if text[i] == '"':
                instr = False
            i += 1
            continue
        if text.startswith('(*', i):
            depth += 1
            i += 2
            continue
        if depth and text.startswith('*)', i):
            depth -= 1
            i += 2
            continue
        if depth:
            i += 1
            continue
        if text[i] == '"':
            instr = True
            i += 1
            continue
        out.append(text[i])
        i += 1
    return ''.join(out)


def forbidden_hits(files):
    """occurrences of forbidden constructs outside comments/strings; files=None scans all of theories/"""
    if files is None:
        files = []
        for root, _, names in os.walk(THEORIES):
            files += [os.path.relpath(os.path.join(root, n), VERIF) for n in names if n.endswith('.v')]
    hits = []
    for f in sorted(set(files)):
        try:
            text = strip_comments(open(os.path.join(VERIF, f)).read())
        except OSError:
            continue
        for m in _FORBIDDEN.finditer(text):
            hits.append('%s: %s' % (f, m.group(0)))
            break
    return hits


_REQ = re.compile(r'(?:From\s+CGV\s+)?Require\s+(?:Import|Export)?\s*([^.]*(?:\.[A-Za-z_][^.\s]*)*)\.\s', re.S)


def dep_closure(*file_lists):
    """transitive closure of the CGV files a set of .v files (paths relative to /verif) require"""
    todo = [f for fl in file_lists for f in fl]
    seen = set()
    while todo:
        f = todo.pop()
        if f in seen:
            continue
        seen.add(f)
        try:
            text = strip_comments(open(os.path.join(VERIF, f)).read())
        except OSError:
            continue
        for m in re.finditer(r'Require\s+(?:Import\s+|Export\s+)?(.*?)\.(?=\s)', text, re.S):
            for name in m.group(1).split():
                name = name.strip()
                if name.startswith('CGV.'):
                    name = name[4:]
                cand = os.path.join('theories', *name.split('.')) + '.v'
                if os.path.exists(os.path.join(VERIF, cand)):
                    todo.append(cand)
    return sorted(seen)


def theorem_names(vfile):
    """names of Theorem/Lemma/Corollary/Example statements in a .v file, and of citations
    `Definition Cxx_name := <qualified theorem>.` (a theorem of a component file cited by name)"""
    names = []
    try:
        for line in open(vfile):
            m = re.match(r'\s*(Theorem|Lemma|Corollary|Example|Fact|Proposition)\s+([A-Za-z0-9_\']+)', line)
            if m:
                names.append(m.group(2))
                continue
            m = re.match(r"\s*Definition\s+(C\d\d_[A-Za-z0-9_']+)\s*:=\s*[A-Za-z0-9_.']+\.\s*$", line)
            if m:
                names.append(m.group(1))
    except OSError:
        pass
    return names


# ------------------------------------------------------------------------------- generic flow
ALLOWED_AXIOMS = ()   # per-property whitelists are passed explicitly


def parse_assumptions(output):
    """split coqc output of a property file into the answers of its Print Assumptions commands"""
    answers = []
    cur = None
    for line in output.splitlines():
        if line.startswith('Closed under the global context'):
            answers.append([])
            cur = None
        elif line.startswith('Axioms:'):
            cur = []
            answers.append(cur)
        elif cur is not None and line.strip():
            m = re.match(r'^([A-Za-z_][A-Za-z0-9_.\']*)\s*:', line)
            if m:
                cur.append(m.group(1))
    return answers


class Prop:
    """Base class of a property check.  Subclasses fill in the class attributes and methods."""
    id = None
    level = 'proof'
    technique = ''
    vo_deps = []            # .vo files (relative to /verif) the case files need
    prop_file = None        # theories/Properties/Cxx.v (compiled on every run; Print Assumptions captured)
    case_requires = ''      # Coq header of generated case files
    case_type = 'case'
    corr_fn = 'corr_ok'     # case -> bool
    fail_fn = 'prop_fail'   # case -> nat (0 = property holds on this case)
    shard = 250
    allowed_axioms = ()
    quick_cases = 400
    thorough_cases = 6000
    extended_cases = 3000   # extra budget of the search when an obligation/correspondence broke
    src_escalation = 4      # quick tier: extra round of this many times quick_cases when the modelled source changed
    fail_text = {}

    # -- to be provided ------------------------------------------------------------------
    def corpus(self, ctx):
        return []

    def generate(self, ctx, n):
        raise NotImplementedError

    def run_impl(self, case):
        """returns a JSON-able description of what the implementation did"""
        raise NotImplementedError

    def coq_case(self, case, impl):
        raise NotImplementedError

    def python_oracle(self, case, impl):
        """optional second oracle in Python (used when the Coq side cannot be built): 0 = holds"""
        return None

    def extra_fail(self, case, impl):
        """optional additional oracle evaluated in Python on every case (search only, never a proof):
        0/None = holds, otherwise a code >= 100 explained in fail_text"""
        return 0

    def known_class(self, case, impl, code):
        """name of the known-finding class this failing case belongs to, or None"""
        return None

    def describe(self, case):
        return case

    def nontrivial(self, case, impl):
        return True

    def case_class(self, case, impl):
        return None


def _safe(fn, default, *args):
    """a judging / classifying helper of a check must not crash the check on an observation it does not expect"""
    try:
        return fn(*args)
    except Exception:      # noqa: BLE001
        return default


def _eval_cases(prop, ctx, items, tag):
    """items: list of (case, impl). Returns (corr_flags, fail_codes) lists or (None, None, log) on failure.
    A case whose observation cannot be written as a literal (the implementation returned something outside
    the shape the harness observes: the printer raises) counts as a correspondence mismatch and is judged by
    the Python mirror oracle, instead of crashing the check."""
    rendered, bad = [], {}
    for idx, (c, i) in enumerate(items):
        try:
            rendered.append((idx, prop.coq_case(c, i)))
        except Exception as exc:       # noqa: BLE001 - any printer failure is data, not a crash
            try:
                code = prop.python_oracle(c, i) or 0
            except Exception:          # noqa: BLE001
                code = 0
            bad[idx] = code
            if len([n for n in ctx.notes if n.startswith('unprintable observation')]) < 3:
                ctx.notes.append('unprintable observation (%s: %s) on input %s' % (
                    type(exc).__name__, str(exc)[:120], json.dumps(prop.describe(c), default=str)[:300]))
    files = []
    for k in range(0, len(rendered), prop.shard):
        chunk = rendered[k:k + prop.shard]
        path = os.path.join(ctx.work, 'cases_%s_%d.v' % (tag, k // prop.shard))
        with open(path, 'w') as fh:
            fh.write(prop.case_requires + '\nImport ListNotations.\nOpen Scope Z_scope.\n')
            fh.write('Definition cases : list %s := [\n' % prop.case_type)
            fh.write(';\n'.join(text for _, text in chunk))
            fh.write('\n].\n')
            fh.write('Eval vm_compute in (map (fun c => if %s c then 0%%nat else 1%%nat) cases).\n' % prop.corr_fn)
            fh.write('Eval vm_compute in (map %s cases).\n' % prop.fail_fn)
        files.append((path, [idx for idx, _ in chunk]))
    outs = run_case_files([p for p, _ in files])
    corr, fail = [0] * len(items), [0] * len(items)
    for (path, idxs), (_, rc, out) in zip(files, outs):
        lists = parse_nat_lists(out)
        n = len(idxs)
        if rc != 0 or len(lists) != 2 or len(lists[0]) != n or len(lists[1]) != n:
            return None, None, 'coqc %s rc=%s\n%s' % (path, rc, out[-3000:])
        for j, idx in enumerate(idxs):
            corr[idx] = lists[0][j]
            fail[idx] = lists[1][j]
    for idx, code in bad.items():
        corr[idx] = 1
        fail[idx] = code
    return corr, fail, ''


def run_prop(prop, ctx):
    known = load_known_findings()
    # 1. obligations: regenerate + build the model, compile the property file
    ok, log, gen_status = build(prop.vo_deps)
    for name, st in gen_status.items():
        if not st['ok']:
            ctx.notes.append('translator: %s: %s' % (name, st['error']))
    model_ok = ok
    if not ok:
        ctx.broken.append({'kind': 'build', 'detail': log[-2500:], 'gen': {k: v for k, v in gen_status.items() if not v['ok']}})
    proof_ok = False
    thms = theorem_names(os.path.join(VERIF, prop.prop_file)) if prop.prop_file else []
    if prop.prop_file:
        # proof obligations: the property file and everything it imports (full .vo build), then the
        # property file once more by itself to capture its Print Assumptions answers
        pok, plog, _ = build([prop.prop_file + 'o'])
        if pok:
            rc, out = sh(['coqc', '-Q', THEORIES, 'CGV', '-w', '-notation-overridden,-deprecated',
                          os.path.join(VERIF, prop.prop_file)], timeout=1200, cwd=VERIF)
        else:
            rc, out = 1, plog
        if rc == 0:
            answers = parse_assumptions(out)
            bad = sorted({a for ans in answers for a in ans if a not in prop.allowed_axioms})
            ctx.coverage['print_assumptions'] = ['Closed under the global context' if not a else 'Axioms: ' + ', '.join(a)
                                                 for a in answers]
            if bad:
                ctx.broken.append({'kind': 'axioms', 'detail': 'property theorems depend on undeclared axioms: %s' % bad})
            elif not answers:
                ctx.broken.append({'kind': 'axioms', 'detail': 'no Print Assumptions answer in %s' % prop.prop_file})
            else:
                proof_ok = True
        else:
            ctx.broken.append({'kind': 'proof', 'detail': 'coqc %s failed:\n%s' % (prop.prop_file, out[-2500:])})
    for t in thms:
        ctx.obligations.append((t, proof_ok))
    # forbidden constructs gate: over the dependency closure of this property's files (what its
    # theorems and its oracle rest on); the whole tree is scanned too and reported as a note
    closure = dep_closure([prop.prop_file] if prop.prop_file else [], [d[:-1] for d in prop.vo_deps])
    hits = forbidden_hits(closure)
    if hits:
        ctx.broken.append({'kind': 'gate', 'detail': 'forbidden construct(s): ' + '; '.join(hits[:5])})
    other = [h for h in forbidden_hits(None) if h not in hits]
    if other:
        ctx.notes.append('forbidden constructs elsewhere in theories/ (not in this property\'s dependency closure): '
                         + '; '.join(other[:5]))
    ctx.coverage['dependency_closure_files'] = len(closure)

    # 2. cases: corpus first, then generated
    n = prop.thorough_cases if ctx.thorough() else prop.quick_cases
    changed = changed_sources(prop.id)
    if changed:
        ctx.coverage['source_changed_files'] = changed
        ctx.notes.append('source differs from the pinned (validated) AST in %s: search budget raised' % ', '.join(changed))
    failing = []          # (case, impl, code)
    mismatching = []      # (case, impl)
    rounds = [('main', n)]
    done_extended = False
    tag_i = 0
    while rounds:
        tag, budget = rounds.pop(0)
        cases = (list(prop.corpus(ctx)) if tag == 'main' else []) + list(prop.generate(ctx, budget))
        items = []
        for c in cases:
            with contextlib.redirect_stdout(io.StringIO()):
                try:
                    impl = prop.run_impl(c)
                except Exception as exc:   # noqa: BLE001 - the driver itself failed on what the implementation did
                    impl = {'harness_exception': '%s: %s' % (type(exc).__name__, str(exc)[:200])}
                    if len([n for n in ctx.notes if n.startswith('driver raised')]) < 3:
                        ctx.notes.append('driver raised %s on input %s' % (impl['harness_exception'],
                                                                           json.dumps(prop.describe(c), default=str)[:300]))
            items.append((c, impl))
            ctx.count(prop.describe(c), cls=_safe(prop.case_class, None, c, impl), nontrivial=_safe(prop.nontrivial, True, c, impl),
                      sample=prop.describe(c))
        if model_ok:
            corr, fail, elog = _eval_cases(prop, ctx, items, '%s%d' % (tag, tag_i))
            tag_i += 1
            if corr is None:
                ctx.broken.append({'kind': 'case-eval', 'detail': elog})
                model_ok = False
        if model_ok:
            for (c, i), cf, fc in zip(items, corr, fail):
                if fc == 0:
                    fc = _safe(prop.extra_fail, 0, c, i) or 0
                if fc != 0:
                    # a failing case is covered by a known finding only while the implementation
                    # still behaves exactly as the model of the analysed defect predicts (cf == 0)
                    failing.append((c, i, fc if cf == 0 else -fc))
                elif cf != 0:
                    mismatching.append((c, i))
        else:
            for c, i in items:
                fc = _safe(prop.python_oracle, 0, c, i) or _safe(prop.extra_fail, 0, c, i)
                if fc:
                    failing.append((c, i, fc))
        unlisted = [f for f in failing if f[2] < 0 or not _safe(prop.known_class, None, *f)]
        need_more = (ctx.broken or mismatching) and not unlisted
        if need_more and not done_extended:
            done_extended = True
            rounds.append(('ext', prop.extended_cases * (4 if ctx.thorough() else 1)))
        elif tag == 'main' and changed and not unlisted and not need_more and not rounds:
            # the modelled source is not the validated one: search harder (never an alarm by itself)
            extra = n * (1 if ctx.thorough() else prop.src_escalation)
            ctx.coverage['source_changed_extra_cases'] = extra
            rounds.append(('src', extra))
    ctx.coverage['correspondence_mismatches'] = len(mismatching)
    ctx.coverage['traces_validated_against_impl'] = ctx.coverage['evaluations']

    # 3. verdict
    reported = set()
    new_fail = []
    for c, i, code in failing:
        cls = _safe(prop.known_class, None, c, i, code) if code > 0 else None
        code = abs(code)
        entry = None
        if cls:
            entry = next((f for f in known.get('findings', []) if f['property'] == prop.id and f.get('class') == cls), None)
        if entry:
            if cls not in reported:
                reported.add(cls)
                report_known(ctx, '%s witness=%s %s' % (cls, json.dumps(prop.describe(c)), entry.get('what', '')))
        else:
            new_fail.append((c, i, code))
    if new_fail:
        new_fail.sort(key=lambda f: len(json.dumps(prop.describe(f[0]), default=str)))
        c, i, code = new_fail[0]
        report_violation(ctx, 'fail', {'input': prop.describe(c), 'implementation_returned': i,
                                       'failing_clause': prop.fail_text.get(code, code),
                                       'more_failing_inputs': [prop.describe(f[0]) for f in new_fail[1:6]],
                                       'how_to_replay': './check %s --replay <this file>' % prop.id})
    elif ctx.broken or mismatching:
        obj = {'broken': ctx.broken,
               'correspondence': 'Impl model %s and the implementation disagree on the inputs below' % prop.corr_fn
               if mismatching else 'no disagreement on generated inputs',
               'differing_inputs': [{'input': prop.describe(c), 'implementation_returned': i} for c, i in mismatching[:5]],
               'theorems': thms, 'property_file': prop.prop_file}
        report_violation(ctx, 'unproved', obj, no_input=True)
    write_evidence(ctx, prop.level, technique=prop.technique)
    ctx.cleanup()
    return 1 if ctx.violations else 0


def replay_generic(prop, ctx, obj):
    """re-run exactly the input of a replay file against /repo and the model"""
    ok, log, _ = build(prop.vo_deps)
    case = obj.get('input')
    if case is None:
        print('replay file names no input (no-failing-input-found): broken =', json.dumps(obj.get('broken'))[:2000])
        ctx.cleanup()
        return 1
    impl = prop.run_impl(case)
    print('input:', json.dumps(case))
    print('implementation:', json.dumps(impl, default=str)[:4000])
    code = None
    if ok:
        corr, fail, elog = _eval_cases(prop, ctx, [(case, impl)], 'replay')
        if corr is None:
            print(elog)
        else:
            print('model agrees with implementation:', corr[0] == 0)
            code = fail[0]
    if code is None:
        code = prop.python_oracle(case, impl) or 0
    print('property clause failing:', prop.fail_text.get(code, code) if code else 'none (holds)')
    ctx.cleanup()
    if code:
        print('VIOLATION property=%s replay=%s' % (prop.id, 'replayed'))
    return 1 if code else 0
