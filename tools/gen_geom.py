"""gen_geom: facts of the coordinate / layout code, re-read from /repo on every run (GeomGen.v).

Fail-closed `ast` pattern matching: every statement the Geom models depend on is matched
against the shapes listed here; any other shape raises py2v.Unsupported (the properties that
import Gen/GeomGen.v then report a broken obligation instead of guessing).

Emitted (all consumed by theories/Geom/*.v, so that changing the code changes the model):
  fm_avg_mode            DivByLen | DivBySum       coordinates.forward_map_molecule
  embed_write_mode       WriteByEnumIndex | WriteByNodeKey     rdkit.embed_3d_via_rdkit
  r2n_pos_arg_bound      bool (is the argument of conf.GetAtomPosition a bound name?)   rdkit.rdkit_to_networkx
  bond_type_map_keys2    list Z  (keys of BOND_TYPE_MAP in half units)   rdkit.py
  bond_type_default_is_member  bool  (is the fall-back of BOND_TYPE_MAP.get(order, d) an rdkit BondType?)
  gen_avg_final / gen_scale_factor   generic-carrier expressions of the rescale step   graph_layout.vespr_layout
  gen_vespr_tail         list of TAlign | TRescale: EVERY statement of vespr_layout after check_and_fix_cis_trans
  gen_rot_xy             one row of linalg_functions.rotate (matrix literal) about the origin [0, 0]
  circ_align             CircAlignUnbound | CircAlignIgnored | CircAlignApplied   graph_layout.circular_layout
  (vespr_refined_layout, _force_minimize: statements pinned, nothing emitted)
"""
import ast

import gen
import py2v
from py2v import Unsupported


def _fn(tree, name):
    return py2v.find_function(tree, name)


def _strip_doc(body):
    body = list(body)
    if body and isinstance(body[0], ast.Expr) and isinstance(body[0].value, ast.Constant) \
            and isinstance(body[0].value.value, str):
        body = body[1:]
    return body


def _u(node):
    return ast.unparse(node)


class _Rename(ast.NodeTransformer):
    def __init__(self, mp):
        self.mp = mp

    def visit_Name(self, node):
        return ast.copy_location(ast.Name(id=self.mp.get(node.id, node.id), ctx=node.ctx), node)


def _ur(node, mp):
    """unparse after renaming local variables (so that a pure renaming keeps the recognised shape)"""
    import copy as _copy
    return ast.unparse(ast.fix_missing_locations(_Rename(mp).visit(_copy.deepcopy(node))))


def _names(target):
    if isinstance(target, ast.Name):
        return [target.id]
    if isinstance(target, ast.Tuple) and all(isinstance(e, ast.Name) for e in target.elts):
        return [e.id for e in target.elts]
    raise Unsupported('loop target ' + ast.unparse(target))


# --------------------------------------------------------------------------- coordinates.py
def forward_map_facts(tree):
    fn = _fn(tree, 'forward_map_molecule')
    args = [a.arg for a in fn.args.args]
    if args != ['cg_mol', 'aa_mol']:
        raise Unsupported('forward_map_molecule arguments %r' % args)
    body = _strip_doc(fn.body)
    if len(body) != 1 or not isinstance(body[0], ast.For):
        raise Unsupported('forward_map_molecule is not a single loop over the coarse nodes')
    loop = body[0]
    st = loop.body
    if len(st) != 5 or loop.orelse:
        raise Unsupported('forward_map_molecule loop body has %d statements (5 modelled)' % len(st))
    inner = st[2]
    if not (isinstance(loop.target, ast.Name) and isinstance(st[0], ast.Assign) and isinstance(st[1], ast.Assign)
            and isinstance(st[0].targets[0], ast.Name) and isinstance(st[1].targets[0], ast.Name)
            and isinstance(inner, ast.For) and len(_names(inner.target)) == 2):
        raise Unsupported('forward_map_molecule: statement shapes changed')
    an, wn = _names(inner.target)
    mp = {loop.target.id: 'cg_node', st[0].targets[0].id: 'weights', st[1].targets[0].id: 'cg_pos', an: 'aa_node',
          wn: 'weight'}
    if len(mp) != 5 or set(mp) & {'cg_mol', 'aa_mol', 'np', 'nx'}:
        raise Unsupported('forward_map_molecule: a name is reused')
    u = lambda n: _ur(n, mp)
    if u(loop.iter) not in ('cg_mol.nodes', 'cg_mol'):
        raise Unsupported('outer loop of forward_map_molecule is not over cg_mol.nodes')
    if u(st[0]) != "weights = nx.get_node_attributes(cg_mol.nodes[cg_node]['graph'], 'weight')":
        raise Unsupported('weights statement: ' + _u(st[0]))
    if u(st[1]) != 'cg_pos = np.zeros(3)':
        raise Unsupported('accumulator initialisation: ' + _u(st[1]))
    if not (u(inner.iter) == 'weights.items()' and len(inner.body) == 1 and not inner.orelse):
        raise Unsupported('inner loop is not `for aa_node, weight in weights.items()` with one statement')
    acc = inner.body[0]
    if not (isinstance(acc, ast.AugAssign) and isinstance(acc.op, ast.Add) and u(acc.target) == 'cg_pos'):
        raise Unsupported('accumulation statement: ' + _u(acc))
    if u(acc.value) not in ("aa_mol.nodes[aa_node]['position'] * weight",
                            "weight * aa_mol.nodes[aa_node]['position']"):
        raise Unsupported('accumulated term is not position*weight: ' + _u(acc.value))
    div = st[3]
    if not (isinstance(div, ast.Assign) and u(div.targets[0]) == 'cg_pos' and isinstance(div.value, ast.BinOp)
            and isinstance(div.value.op, ast.Div) and u(div.value.left) == 'cg_pos'):
        raise Unsupported('normalisation statement: ' + _u(div))
    den = u(div.value.right)
    if den == 'len(weights)':
        mode = 'DivByLen'
    elif den == 'sum(weights.values())':
        mode = 'DivBySum'
    else:
        raise Unsupported('denominator of the bead average: ' + den)
    if u(st[4]) != "cg_mol.nodes[cg_node]['position'] = cg_pos":
        raise Unsupported('store statement: ' + _u(st[4]))
    return mode


# --------------------------------------------------------------------------- rdkit.py
def bond_type_facts(tree):
    keys = None
    for n in tree.body:
        if isinstance(n, ast.Assign) and len(n.targets) == 1 and _u(n.targets[0]) == 'BOND_TYPE_MAP':
            if not isinstance(n.value, ast.Dict):
                raise Unsupported('BOND_TYPE_MAP is not a dict literal')
            keys = []
            for k, v in zip(n.value.keys, n.value.values):
                if not (isinstance(k, ast.Constant) and isinstance(k.value, (int, float))
                        and not isinstance(k.value, bool)):
                    raise Unsupported('BOND_TYPE_MAP key ' + _u(k))
                if not _u(v).startswith('Chem.BondType.'):
                    raise Unsupported('BOND_TYPE_MAP value ' + _u(v))
                k2 = k.value * 2
                if k2 != int(k2):
                    raise Unsupported('BOND_TYPE_MAP key %r is not a multiple of 0.5' % (k.value,))
                keys.append((int(k2), _u(v)[len('Chem.BondType.'):]))
    if keys is None:
        raise Unsupported('BOND_TYPE_MAP not found')
    expected = {0: 'ZERO', 2: 'SINGLE', 4: 'DOUBLE', 6: 'TRIPLE', 8: 'QUADRUPLE', 3: 'AROMATIC'}
    for k2, name in keys:
        # the reverse direction (GetBondTypeAsDouble) is RDKit's: a key must name the type of that order
        if k2 in expected and expected[k2] != name:
            raise Unsupported('BOND_TYPE_MAP maps order %s to %s' % (k2 / 2, name))
        if k2 not in expected:
            raise Unsupported('BOND_TYPE_MAP key %s outside the modelled bond types' % (k2 / 2))
    fn = _fn(tree, 'networkx_to_rdkit')
    gets = [n for n in ast.walk(fn) if isinstance(n, ast.Call) and _u(n.func) == 'BOND_TYPE_MAP.get']
    if len(gets) != 1 or len(gets[0].args) != 2 or _u(gets[0].args[0]) != 'order':
        raise Unsupported('networkx_to_rdkit does not use BOND_TYPE_MAP.get(order, <default>) once')
    default_member = _u(gets[0].args[1]).startswith('Chem.BondType.')
    return [k for k, _ in keys], default_member


def n2r_index_facts(tree):
    """networkx_to_rdkit: node_to_idx[node] = mol.AddAtom(atom) inside `for node, props in mol_graph.nodes(data=True)`,
    bonds added through node_to_idx[u], node_to_idx[v]"""
    fn = _fn(tree, 'networkx_to_rdkit')
    loops = [n for n in fn.body if isinstance(n, ast.For)]
    if len(loops) != 2:
        raise Unsupported('networkx_to_rdkit: expected the node loop and the edge loop')
    nl, el = loops
    if _u(nl.target) != '(node, props)' or _u(nl.iter) != 'mol_graph.nodes(data=True)':
        raise Unsupported('networkx_to_rdkit node loop header: for %s in %s' % (_u(nl.target), _u(nl.iter)))
    if 'node_to_idx[node] = mol.AddAtom(atom)' not in [_u(s) for s in nl.body]:
        raise Unsupported('networkx_to_rdkit: node_to_idx[node] = mol.AddAtom(atom) not found')
    if _u(el.target) != '(u, v, data)' or _u(el.iter) != 'mol_graph.edges(data=True)':
        raise Unsupported('networkx_to_rdkit edge loop header')
    if 'mol.AddBond(node_to_idx[u], node_to_idx[v], bt)' not in [_u(s.value) for s in el.body if isinstance(s, ast.Expr)]:
        raise Unsupported('networkx_to_rdkit: mol.AddBond(node_to_idx[u], node_to_idx[v], bt) not found')


def embed_facts(tree):
    fn = _fn(tree, 'embed_3d_via_rdkit')
    body = _strip_doc(fn.body)
    calls = [_u(s) for s in body if not isinstance(s, ast.For)]
    expect = ['add_explicit_hydrogens(mol_graph)', 'rdkit_mol = networkx_to_rdkit(mol_graph)',
              'rdkit_mol = Chem.AddHs(rdkit_mol)', 'AllChem.EmbedMolecule(rdkit_mol)',
              'AllChem.UFFOptimizeMolecule(rdkit_mol)', 'conf = rdkit_mol.GetConformer()', 'return mol_graph']
    if calls != expect:
        raise Unsupported('embed_3d_via_rdkit statement sequence changed: %r' % calls)
    loops = [s for s in body if isinstance(s, ast.For)]
    if len(loops) != 1 or body.index(loops[0]) != len(body) - 2:
        raise Unsupported('embed_3d_via_rdkit: expected one write-back loop just before the return')
    lp = loops[0]
    if len(lp.body) != 2 or lp.orelse:
        raise Unsupported('write-back loop body')
    tn = _names(lp.target)
    if len(tn) != 2 or not (isinstance(lp.body[0], ast.Assign) and isinstance(lp.body[0].targets[0], ast.Name)):
        raise Unsupported('write-back loop header/body shape')
    mp = {tn[0]: 'KEY', tn[1]: 'atom', lp.body[0].targets[0].id: 'pos'}
    if len(set(mp)) != 3 or set(mp) & {'mol_graph', 'rdkit_mol', 'conf', 'np'}:
        raise Unsupported('write-back loop reuses a name')
    if _ur(lp.body[0], mp) != 'pos = conf.GetAtomPosition(atom.GetIdx())':
        raise Unsupported('write-back loop reads ' + _u(lp.body[0]))
    it = _ur(lp.iter, mp)
    store = _ur(lp.body[1], mp)
    if store != "mol_graph.nodes[KEY]['position'] = np.array([pos.x, pos.y, pos.z])":
        raise Unsupported('write-back store not modelled: ' + _u(lp.body[1]))
    if it == 'enumerate(rdkit_mol.GetAtoms())':
        return 'WriteByEnumIndex'
    if it in ('zip(mol_graph.nodes, rdkit_mol.GetAtoms())', 'zip(mol_graph, rdkit_mol.GetAtoms())'):
        return 'WriteByNodeKey'
    raise Unsupported('write-back loop iterates over ' + _u(lp.iter))


def r2n_facts(tree):
    fn = _fn(tree, 'rdkit_to_networkx')
    calls = [n for n in ast.walk(fn) if isinstance(n, ast.Call) and _u(n.func) == 'conf.GetAtomPosition']
    if len(calls) != 1 or len(calls[0].args) != 1:
        raise Unsupported('rdkit_to_networkx: expected exactly one conf.GetAtomPosition(<arg>) call')
    arg = calls[0].args[0]
    # the call must sit under `if conf:` in the `for atom in rdkit_mol.GetAtoms()` loop
    loops = [n for n in fn.body if isinstance(n, ast.For) and _u(n.iter) == 'rdkit_mol.GetAtoms()']
    if len(loops) != 1 or _u(loops[0].target) != 'atom':
        raise Unsupported('rdkit_to_networkx: atom loop not found')
    ifs = [s for s in loops[0].body if isinstance(s, ast.If) and _u(s.test) == 'conf']
    if len(ifs) != 1 or calls[0] not in list(ast.walk(ifs[0])):
        raise Unsupported('rdkit_to_networkx: position read is not under `if conf:` in the atom loop')
    if "props['position'] = np.array([pos.x, pos.y, pos.z])" not in [_u(s) for s in ifs[0].body]:
        raise Unsupported('rdkit_to_networkx: position store changed')
    if 'out_mol.add_node(atom.GetIdx(), **props)' not in [_u(s) for s in loops[0].body]:
        raise Unsupported('rdkit_to_networkx: node key is not atom.GetIdx()')
    # names bound in the function when the call executes: parameters, assignment / loop targets
    bound = {a.arg for a in fn.args.args}
    for n in ast.walk(fn):
        if isinstance(n, ast.Name) and isinstance(n.ctx, ast.Store):
            bound.add(n.id)
    module_names = {'np', 'nx', 'Chem', 'AllChem'}
    if _u(arg) == 'atom.GetIdx()':
        return True
    if isinstance(arg, ast.Name):
        if arg.id in bound:
            # a bound plain name would have to be proven equal to the atom's index: not modelled
            raise Unsupported('rdkit_to_networkx: GetAtomPosition(%s): bound name with unmodelled value' % arg.id)
        if arg.id in module_names:
            raise Unsupported('rdkit_to_networkx: GetAtomPosition(%s)' % arg.id)
        return False
    raise Unsupported('rdkit_to_networkx: GetAtomPosition argument ' + _u(arg))


# --------------------------------------------------------------------------- graph_layout.py
def _arith(e, names):
    """arithmetic over the generic carrier: names, len(graph.edges), + - * /"""
    if isinstance(e, ast.Name) and e.id in names:
        return names[e.id]
    if isinstance(e, ast.Call) and _u(e) == 'len(graph.edges)':
        return 'n_edges'
    if isinstance(e, ast.BinOp):
        op = {ast.Add: 'nadd o', ast.Sub: 'nsub o', ast.Mult: 'nmul o', ast.Div: 'ndiv o'}.get(type(e.op))
        if op is None:
            raise Unsupported('operator in ' + _u(e))
        return '(%s %s %s)' % (op, _arith(e.left, names), _arith(e.right, names))
    raise Unsupported('expression outside the carrier subset: ' + _u(e))


ALIGN_BLOCK = ('if align_with is not None:\n'
               '    pos_arr = np.array(list(pos.values()))\n'
               '    pos_aligned = rotate_to_axis(pos_arr, align_with)\n'
               '    for idx, node in enumerate(pos):\n'
               '        pos[node] = pos_aligned[idx]')


def _align_block(st):
    """the alignment block of vespr_layout (a rigid motion of ALL positions; keys and their order kept)"""
    if not (isinstance(st, ast.If) and not st.orelse and len(st.body) == 3
            and isinstance(st.body[0], ast.Assign) and isinstance(st.body[0].targets[0], ast.Name)
            and isinstance(st.body[1], ast.Assign) and isinstance(st.body[1].targets[0], ast.Name)
            and isinstance(st.body[2], ast.For)):
        return False
    lp = st.body[2]
    try:
        tn = _names(lp.target)
    except Unsupported:
        return False
    if len(tn) != 2:
        return False
    mp = {st.body[0].targets[0].id: 'pos_arr', st.body[1].targets[0].id: 'pos_aligned', tn[0]: 'idx', tn[1]: 'node'}
    if len(mp) != 4 or set(mp) & {'pos', 'graph', 'default_bond', 'np', 'align_with', 'rotate_to_axis'}:
        return False
    return _ur(st, mp) == _norm(ALIGN_BLOCK)


def _rescale_group(group):
    """the four statements of the rescale step -> (avg_final, factor) over the generic carrier"""
    init, loop, fin, upd = group
    if not (isinstance(init, ast.Assign) and isinstance(init.targets[0], ast.Name) and _u(init.value) == '0'):
        raise Unsupported('rescale: ' + _u(init))
    if not (isinstance(loop, ast.For) and isinstance(upd, ast.For) and isinstance(loop.target, ast.Name)
            and isinstance(upd.target, ast.Name)):
        raise Unsupported('rescale: loops changed')
    mp = {init.targets[0].id: 'avg_dist', loop.target.id: 'edge'}
    mp2 = {init.targets[0].id: 'avg_dist', upd.target.id: 'node'}
    if set(mp) & {'pos', 'graph', 'default_bond', 'np'} or set(mp2) & {'pos', 'graph', 'default_bond', 'np'}:
        raise Unsupported('rescale: a name is reused')
    if not (_ur(loop.iter, mp) == 'graph.edges' and len(loop.body) == 1 and not loop.orelse
            and _ur(loop.body[0], mp) == 'avg_dist += np.linalg.norm(pos[edge[0]] - pos[edge[1]])'):
        raise Unsupported('rescale: accumulation of bond lengths changed: ' + _u(loop))
    if not (isinstance(fin, ast.Assign) and _ur(fin.targets[0], mp) == 'avg_dist'):
        raise Unsupported('rescale: ' + _u(fin))
    avg_final = _arith(_Rename(mp).visit(__import__('copy').deepcopy(fin.value)), {'avg_dist': 'avg_dist'})
    if not (_ur(upd.iter, mp2) == 'pos' and len(upd.body) == 1 and not upd.orelse
            and isinstance(upd.body[0], ast.AugAssign) and isinstance(upd.body[0].op, ast.Mult)
            and _ur(upd.body[0].target, mp2) == 'pos[node]'):
        raise Unsupported('rescale: update loop changed: ' + _u(upd))
    factor = _arith(_Rename(mp2).visit(__import__('copy').deepcopy(upd.body[0].value)),
                    {'default_bond': 'default_bond', 'avg_dist': 'avg_dist'})
    return avg_final, factor


def rescale_facts(tree):
    """vespr_layout from `pos = check_and_fix_cis_trans(graph, pos)` to the end: EVERY statement must be one of
       - the alignment block (TAlign: rigid motion of all positions),
       - the four statements of the rescale step (TRescale; exactly once),
       - the final `return pos`.
    Anything else between the cis/trans correction and the return (e.g. a step that moves atoms after the
    rescale) leaves the modelled shape: fail closed."""
    fn = _fn(tree, 'vespr_layout')
    args = [a.arg for a in fn.args.args]
    if args != ['graph', 'default_bond', 'align_with'] or fn.args.vararg or fn.args.kwarg or fn.args.kwonlyargs:
        raise Unsupported('vespr_layout arguments %r' % args)
    body = _strip_doc(fn.body)
    lines = [_u(s) for s in body]
    if lines.count('pos = check_and_fix_cis_trans(graph, pos)') != 1:
        raise Unsupported('vespr_layout: check_and_fix_cis_trans call not found (exactly once, at top level)')
    k = lines.index('pos = check_and_fix_cis_trans(graph, pos)')
    if k == 0 or not lines[k - 1].startswith('pos = nx.kamada_kawai_layout(graph'):
        raise Unsupported('vespr_layout: the cis/trans correction does not follow the kamada_kawai_layout call')
    tail = body[k + 1:]
    if not tail or _u(tail[-1]) != 'return pos':
        raise Unsupported('vespr_layout does not end in `return pos`')
    tail = tail[:-1]
    steps, res, i = [], None, 0
    while i < len(tail):
        st = tail[i]
        if _align_block(st):
            steps.append('TAlign')
            i += 1
        elif isinstance(st, ast.Assign) and _u(st.value) == '0' and i + 4 <= len(tail):
            if res is not None:
                raise Unsupported('vespr_layout: more than one rescale step')
            res = _rescale_group(tail[i:i + 4])
            steps.append('TRescale')
            i += 4
        else:
            raise Unsupported('vespr_layout: statement after the cis/trans correction outside the modelled '
                              'steps (alignment block, rescale step, return): ' + _u(st).split('\n')[0])
    if res is None:
        raise Unsupported('vespr_layout: rescale step not found')
    d = fn.args.defaults
    names = [a.arg for a in fn.args.args][-len(d):] if d else []
    defaults = dict(zip(names, d))
    if not (isinstance(defaults.get('align_with'), ast.Constant) and defaults['align_with'].value is None):
        raise Unsupported('vespr_layout: align_with default is not None')
    return res[0], res[1], steps


ROTATE_BODY = ['positions = positions - origin',
               'rotated_positions = np.dot(positions, rotation_matrix.T)',
               'rotated_positions = rotated_positions + origin',
               'return rotated_positions']


def _rot_entry(e):
    """an entry of the rotation matrix over the carrier: c = np.cos(angle), s = np.sin(angle), unary minus"""
    t = _u(e)
    if t == 'np.cos(angle)':
        return 'c'
    if t == 'np.sin(angle)':
        return 's'
    if isinstance(e, ast.UnaryOp) and isinstance(e.op, ast.USub):
        return '(nsub o (nzero o) %s)' % _rot_entry(e.operand)
    raise Unsupported('rotation matrix entry ' + t)


def linalg_facts(tree):
    """linalg_functions.rotate (matrix entries regenerated) and rotate_to_axis (ends in rotate(positions, angle)
    about the default origin [0, 0]; the angle is third-party arithmetic: transcript)"""
    fn = _fn(tree, 'rotate')
    if [a.arg for a in fn.args.args] != ['positions', 'angle', 'origin']:
        raise Unsupported('rotate arguments')
    if len(fn.args.defaults) != 1 or _u(fn.args.defaults[0]) != 'np.array([0, 0])':
        raise Unsupported('rotate: default origin is not np.array([0, 0])')
    body = _strip_doc(fn.body)
    if len(body) != 5 or [_u(s) for s in body[:1] + body[2:]] != ROTATE_BODY:
        raise Unsupported('rotate: statements changed')
    m = body[1]
    if not (isinstance(m, ast.Assign) and _u(m.targets[0]) == 'rotation_matrix' and isinstance(m.value, ast.Call)
            and _u(m.value.func) == 'np.array' and len(m.value.args) == 1 and not m.value.keywords
            and isinstance(m.value.args[0], ast.List) and len(m.value.args[0].elts) == 2
            and all(isinstance(r, ast.List) and len(r.elts) == 2 for r in m.value.args[0].elts)):
        raise Unsupported('rotate: rotation matrix is not a 2x2 literal')
    rows = [[_rot_entry(e) for e in r.elts] for r in m.value.args[0].elts]
    # np.dot(positions, R.T): row p -> (p . R[0], p . R[1])
    comp = ['(nadd o (nmul o x %s) (nmul o y %s))' % (r[0], r[1]) for r in rows]
    fn2 = _fn(tree, 'rotate_to_axis')
    if [a.arg for a in fn2.args.args] != ['positions', 'align_with'] or fn2.args.defaults:
        raise Unsupported('rotate_to_axis arguments')
    b2 = _strip_doc(fn2.body)
    if [_u(s) for s in b2[-2:]] != ['rotated_positions = rotate(positions, angle)', 'return rotated_positions']:
        raise Unsupported('rotate_to_axis does not end in rotate(positions, angle)')
    for s in b2[:-2]:
        if not isinstance(s, ast.Assign):
            raise Unsupported('rotate_to_axis: statement ' + _u(s))
        for n in ast.walk(s):
            if isinstance(n, ast.Name) and isinstance(n.ctx, ast.Store) and n.id in ('positions', 'rotate', 'np'):
                raise Unsupported('rotate_to_axis rebinds ' + n.id)
            if isinstance(n, (ast.Subscript, ast.Attribute)) and isinstance(n.ctx, ast.Store):
                raise Unsupported('rotate_to_axis stores into ' + _u(n))
    return '(%s, %s)' % (comp[0], comp[1])


def _norm(text):
    """the running interpreter's spelling of a statement (ast.unparse differs between Python versions)"""
    return ast.unparse(ast.parse(text))


REFINED_BODY = [
    'atom_to_idx = OrderedDict(zip(list(graph.nodes), range(0, len(graph.nodes))))',
    'max_iter = 5',
    'counter = 0',
    ('while counter < max_iter:\n'
     '    pos = vespr_layout(graph, default_bond)\n'
     '    (pos, energy) = _force_minimize(graph, pos, default_bond, default_angle, atom_to_idx, lbfgs_options)\n'
     '    if energy < target_energy:\n'
     '        break\n'
     '    counter += 1'),
    ('if align_with is not None:\n'
     '    pos_aligned = rotate_to_axis(pos, align_with)\n'
     'else:\n'
     '    pos_aligned = pos'),
    'positions = {}',
    'for (node_key, idx) in atom_to_idx.items():\n    positions[node_key] = pos_aligned[idx]',
    'return positions']

FORCE_MIN_LINES = ['atom_to_idx = atom_to_idx = {n: idx for (idx, n) in enumerate(pos.keys())}',
                   'pos = np.ravel(np.array(list(pos.values())))',
                   'return (pos, energy)']


def refined_facts(tree, utree):
    """vespr_refined_layout: the whole body is pinned (the optimiser is third party; what the model takes from the
    code is: rows of the optimiser's array follow the key order of the dict vespr_layout returned, the write-back
    runs over graph.nodes with idx = position, optional rotate_to_axis of all rows in between)"""
    fn = _fn(tree, 'vespr_refined_layout')
    if [a.arg for a in fn.args.args] != ['graph', 'default_bond', 'align_with', 'default_angle', 'target_energy',
                                         'lbfgs_options']:
        raise Unsupported('vespr_refined_layout arguments')
    lines = [_u(s) for s in _strip_doc(fn.body)]
    expected = [_norm(x) for x in REFINED_BODY]
    if lines != expected:
        for a, b in zip(lines, expected):
            if a != b:
                raise Unsupported('vespr_refined_layout: statement changed: ' + a.split('\n')[0])
        raise Unsupported('vespr_refined_layout: number of statements changed')
    fm = _fn(utree, '_force_minimize')
    fl = [_u(s) for s in _strip_doc(fm.body)]
    for l in [_norm(x) for x in FORCE_MIN_LINES]:
        if l not in fl:
            raise Unsupported('_force_minimize: statement not found: ' + l)
    og = _fn(utree, '_optimize_geometry_2D')
    ol = [_u(s) for s in _strip_doc(og.body)]
    if ol[-2:] != [_norm("positions = opt_result['x'].reshape((-1, 2))"), _norm("return (positions, opt_result['fun'])")]:
        raise Unsupported('_optimize_geometry_2D: result shape changed')


def circular_facts(tree):
    """circular_layout: coordinates from _generate_circle_coordinates, written under the first nodes of the edges of
    nx.find_cycle in order.  The alignment block is classified:
      CircAlignUnbound  the argument of rotate_to_axis is a local name that is only bound LATER (UnboundLocalError)
      CircAlignIgnored  the call works but its result is not what the write loop reads
      CircAlignApplied  the write loop reads the aligned rows"""
    fn = _fn(tree, 'circular_layout')
    if [a.arg for a in fn.args.args] != ['graph', 'radius', 'align_with']:
        raise Unsupported('circular_layout arguments')
    body = _strip_doc(fn.body)
    lines = [_u(s) for s in body]
    if len(body) != 6:
        raise Unsupported('circular_layout: number of statements changed')
    if lines[0] != 'positions = _generate_circle_coordinates(radius=radius, num_points=len(graph))':
        raise Unsupported('circular_layout: ' + lines[0])
    if lines[2:] != ['pos = {}', 'start = list(graph.nodes)[0]',
                     _norm('for (idx, (node, _)) in enumerate(nx.find_cycle(graph, source=start)):\n    pos[node] = positions[idx]'),
                     'return pos']:
        raise Unsupported('circular_layout: write-back statements changed')
    blk = body[1]
    if not (isinstance(blk, ast.If) and _u(blk.test) == 'align_with is not None' and not blk.orelse
            and len(blk.body) == 1 and isinstance(blk.body[0], ast.Assign) and isinstance(blk.body[0].targets[0], ast.Name)
            and isinstance(blk.body[0].value, ast.Call) and _u(blk.body[0].value.func) == 'rotate_to_axis'
            and len(blk.body[0].value.args) == 2 and not blk.body[0].value.keywords
            and isinstance(blk.body[0].value.args[0], ast.Name) and _u(blk.body[0].value.args[1]) == 'align_with'):
        raise Unsupported('circular_layout: alignment block changed')
    arg, tgt = blk.body[0].value.args[0].id, blk.body[0].targets[0].id
    if arg == 'positions':
        return 'CircAlignApplied' if tgt == 'positions' else 'CircAlignIgnored'
    if arg == 'pos':                      # assigned two statements later: a local name, unbound here
        return 'CircAlignUnbound'
    raise Unsupported('circular_layout: rotate_to_axis(%s, ...)' % arg)


def rotate_facts(tree):
    fn = _fn(tree, 'rotate_subgraph')
    lines = [_u(s) for s in _strip_doc(fn.body)]
    need = ['graph_copy = nx.subgraph(graph, graph.nodes).copy()', 'graph_copy.remove_edge(anchor, target)',
            'connected_comps = nx.connected_components(graph_copy)', 'target_nodes = next(connected_comps)',
            'target_points = np.array([points[node] for node in target_nodes])',
            'new_points = rotate_degrees(target_points, rotate_angle, origin=points[anchor])',
            'return points']
    for l in need:
        if l not in lines:
            raise Unsupported('rotate_subgraph: statement not found: ' + l)
    wl = [s for s in fn.body if isinstance(s, ast.While)]
    if len(wl) != 1 or _u(wl[0]) != ('while target_nodes:\n    if target in target_nodes:\n        break\n'
                                     '    target_nodes = next(connected_comps)'):
        raise Unsupported('rotate_subgraph: component search loop changed')
    fl = [s for s in fn.body if isinstance(s, ast.For)]
    if len(fl) != 1 or _u(fl[0]) != 'for point, node in zip(new_points, target_nodes):\n    points[node] = point':
        raise Unsupported('rotate_subgraph: write-back loop changed')


@gen.target('GeomGen', ['cgsmiles/coordinates.py', 'cgsmiles/rdkit.py', 'cgsmiles/graph_layout.py',
                        'cgsmiles/graph_layout_utils.py', 'cgsmiles/linalg_functions.py'])
def gen_geom(trees):
    mode = forward_map_facts(trees['cgsmiles/coordinates.py'])
    rd = trees['cgsmiles/rdkit.py']
    keys2, default_member = bond_type_facts(rd)
    n2r_index_facts(rd)
    wmode = embed_facts(rd)
    bound = r2n_facts(rd)
    avg_final, factor, steps = rescale_facts(trees['cgsmiles/graph_layout.py'])
    rot_xy = linalg_facts(trees['cgsmiles/linalg_functions.py'])
    refined_facts(trees['cgsmiles/graph_layout.py'], trees['cgsmiles/graph_layout_utils.py'])
    circ = circular_facts(trees['cgsmiles/graph_layout.py'])
    rotate_facts(trees['cgsmiles/graph_layout_utils.py'])
    out = 'From CGV Require Import Geom.Num.\n\n'
    out += '(* coordinates.forward_map_molecule: cg_pos = (sum of position*weight) / <denominator> *)\n'
    out += 'Inductive avg_mode := DivByLen | DivBySum.\n'
    out += 'Definition fm_avg_mode : avg_mode := %s.\n\n' % mode
    out += '(* rdkit.embed_3d_via_rdkit: which key of mol_graph.nodes receives the position of RDKit atom i *)\n'
    out += 'Inductive write_mode := WriteByEnumIndex | WriteByNodeKey.\n'
    out += 'Definition embed_write_mode : write_mode := %s.\n\n' % wmode
    out += '(* rdkit.rdkit_to_networkx: is the argument of conf.GetAtomPosition(...) bound (atom.GetIdx())? *)\n'
    out += 'Definition r2n_pos_arg_bound : bool := %s.\n\n' % ('true' if bound else 'false')
    out += '(* rdkit.BOND_TYPE_MAP keys in half units (1.5 -> 3), in source order *)\n'
    out += 'Definition bond_type_map_keys2 : list Z := [%s].\n' % '; '.join('(%d)%%Z' % k for k in keys2)
    out += 'Definition bond_type_default_is_member : bool := %s.\n\n' % ('true' if default_member else 'false')
    out += '(* graph_layout.vespr_layout, rescale step, over a generic numeric carrier *)\n'
    out += 'Definition gen_avg_final {M : Type} (o : numops M) (avg_dist n_edges : M) : M := %s.\n' % avg_final
    out += 'Definition gen_scale_factor {M : Type} (o : numops M) (default_bond avg_dist : M) : M := %s.\n' % factor
    out += '\n(* graph_layout.vespr_layout from the cis/trans correction to `return pos`: the steps, in source order *)\n'
    out += 'Inductive tail_step := TAlign | TRescale.\n'
    out += 'Definition gen_vespr_tail : list tail_step := [%s].\n' % '; '.join(steps)
    out += '(* linalg_functions.rotate about the origin [0, 0]: one row (x, y) of np.dot(positions, rotation_matrix.T), *)\n'
    out += '(* c = np.cos(angle), s = np.sin(angle) *)\n'
    out += 'Definition gen_rot_xy {M : Type} (o : numops M) (c s x y : M) : M * M := %s.\n' % rot_xy
    out += '\n(* graph_layout.circular_layout: what `if align_with is not None:` does (see tools/gen_geom.circular_facts) *)\n'
    out += 'Inductive circ_align_mode := CircAlignUnbound | CircAlignIgnored | CircAlignApplied.\n'
    out += 'Definition circ_align : circ_align_mode := %s.\n' % circ
    return out
