#!/usr/bin/env python3
"""assemble /verif/MANIFEST.json from tools/props/*.manifest.json (one per claimed property)"""
import glob
import json
import os


def _write_atomic(path, obj):
    """a check may read the file while it is rewritten: write beside it and rename"""
    tmp = path + '.tmp%d' % os.getpid()
    with open(tmp, 'w') as fh:
        json.dump(obj, fh, indent=1)
    os.replace(tmp, path)


VERIF = os.path.dirname(os.path.dirname(os.path.abspath(__file__)))
props = [json.loads(l)['id'] for l in open(os.path.join(VERIF, 'properties.jsonl'))]
checks = []
na = []
hooks_commits = []
for p in props:
    f = os.path.join(VERIF, 'tools', 'props', p.lower() + '.manifest.json')
    if os.path.exists(f):
        m = json.load(open(f))
        if 'not_applicable' in m:
            na.append({'property_id': p, 'reason': m['not_applicable']})
            continue
        checks.append({
            'property_id': p,
            'quick_cmd': './check %s --tier quick' % p,
            'thorough_cmd': './check %s --tier thorough' % p,
            'evidence_file': '/verif/evidence/%s.json' % p,
            'replay_cmd_template': './check %s --replay {path}' % p,
            'engine': 'coq-proof+correspondence',
            'level_claimed': {'category': m.get('category', 'proof'), 'text': m['text'], 'design_ref': m.get('design_ref', 'DESIGN.md section 3')},
            'level_note': m['note'],
            'technique': m['technique'],
        })
    else:
        na.append({'property_id': p, 'reason': 'check not built yet (work in progress; see DESIGN.md section 6)'})
hooks = json.load(open(os.path.join(VERIF, 'tools', 'hooks.json'))) if os.path.exists(os.path.join(VERIF, 'tools', 'hooks.json')) else {}
man = {
    'version': 1,
    'setup_cmd': 'make -C /verif all',
    'hooks': {
        'guard': 'CGSMILES_VERIF',
        'enable': 'checks set CGSMILES_VERIF=1 in their own process; no hook in /repo is needed so far '
                  '(observation is by wrapping methods and library functions from the harness process)',
        'baseline_off_cmd': 'cd /repo && /venv/bin/python -m pytest -ra -q -p no:cacheprovider --timeout=900',
        'source_commits': hooks.get('source_commits', []),
        'add_only': True,
    },
    'engines': [{'name': 'coq-proof+correspondence', 'path': '/verif/check',
                 'serves_properties': [c['property_id'] for c in checks],
                 'kind_free_text': 'Coq 8.16 theorems about a formal model (theories/), the model regenerated from /repo '
                                   '(tools/py2v.py, tools/gen.py) or tied to it by a per-run correspondence check '
                                   '(tools/props/*.py evaluate model and implementation on the same inputs inside Coq)'}],
    'checks': checks,
    'not_applicable': na,
    'notes': 'See DESIGN.md. Known findings: known_findings.json. Seeded changes used to test the checks: seeded/.',
}
_write_atomic(os.path.join(VERIF, 'MANIFEST.json'), man)
# known findings: one committed file assembled from the per-property files
kf = {'findings': [], 'fixed': []}
for f in sorted(glob.glob(os.path.join(VERIF, 'known_findings.d', '*.json'))):
    d = json.load(open(f))
    for e in d.get('findings', []):
        e = dict(e)
        e['line'] = 'KNOWN-FINDING: property=%s %s %s' % (e['property'], e.get('class', ''), e.get('what', ''))
        kf['findings'].append(e)
    for e in d.get('fixed', []):
        e = dict(e)
        e['line'] = 'fixed: property=%s %s %s' % (e['property'], e.get('commit', ''), e.get('what', ''))
        kf['fixed'].append(e)
_write_atomic(os.path.join(VERIF, 'known_findings.json'), kf)
print('claimed:', [c['property_id'] for c in checks])
