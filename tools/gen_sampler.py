"""gen plug-in of the random polymer sampler (C16, C17).

Target SamplerGen (theories/Gen/SamplerGen.v), regenerated from the CURRENT source on every run:

  * `find_complementary_bonding_descriptor` (cgsmiles_utils.py) translated statement by statement
    with py2v, through the subclass `SFn` below that adds exactly the constructs this function and
    `_set_bond_order_defaults` use: `xs.append(e)`, `d[k] = v`, `{}`/`[...]` of str expressions,
    `raise <Exc>(...)`, `s.isdigit()`, truthiness of a list inside `and`, a variable that is re-bound
    with another type, `for k, v in d.items()`, and a *static* `isinstance(x, dict)` test (the
    function is translated once for each dynamic type it distinguishes);
  * `_set_bond_order_defaults` (sample.py): list branch and dict branch;
  * the weight look-up of `_select_bonding_operator` (`[probabilities.get(bond_type, 0) for ...]`),
    by a dedicated fail-closed `ast` matcher that also pins the shape of the rest of that function
    (weights only when `probabilities` is truthy, else `random.choice`);
  * the guard of the growth loop of `MoleculeSampler.sample` (`while current_weight < target_weight`),
    the start value of `current_weight`, the increment, the sort attribute of the finalisation;
  * the key patch of `fragment_reactivities` in `__init__`;
  * atomic masses of the installed pysmiles as PrimFloat literals (float.hex()), obtained by
    calling pysmiles in a subprocess (used only by the executable checks, never by theorems).

Anything outside these shapes raises py2v.Unsupported: the target is reported as a broken
obligation, never guessed.
"""
import ast
import json
import os
import subprocess
import sys

import py2v
from py2v import Unsupported, coq_str

gen = sys.modules.get('gen')
if gen is None or not hasattr(gen, 'TARGETS'):
    main_mod = sys.modules.get('__main__')
    if main_mod is not None and hasattr(main_mod, 'TARGETS') and hasattr(main_mod, 'target'):
        gen = main_mod
    else:
        import gen  # noqa: E402

EXC = {'IOError': 'EIO', 'OSError': 'EIO', 'KeyError': 'EKey', 'ValueError': 'EValue', 'IndexError': 'EIndex',
       'TypeError': 'EType', 'LookupError': 'ELookup', 'SyntaxError': 'ESyntax []'}


class SFn(py2v.Fn):
    """py2v.Fn + the few constructs of the sampler's helper functions (see module docstring).
    Types added: 'dict' (insertion-ordered str-keyed dict with opaque values 'V'), 'V'."""

    # ------------------------------------------------------------------ expressions
    def expr(self, e, env):
        if isinstance(e, ast.Dict):
            if e.keys:
                raise Unsupported('non-empty dict literal')
            return 'dict', 'ret []'
        if isinstance(e, ast.List) and e.elts and not all(isinstance(x, ast.Constant) for x in e.elts):
            parts = []
            for x in e.elts:
                t, v = self.expr(x, env)
                if t != 'str':
                    raise Unsupported('list literal element of type %s' % (t,))
                parts.append(v)
            names = ['x%d_' % i for i in range(len(parts))]
            out = 'ret [%s]' % '; '.join(names)
            for nm, v in reversed(list(zip(names, parts))):
                out = 'bind (%s) (fun %s => %s)' % (v, nm, out)
            return 'list[str]', out
        if isinstance(e, ast.Call) and isinstance(e.func, ast.Attribute) and e.func.attr == 'isdigit' \
                and not e.args and not e.keywords:
            t, v = self.expr(e.func.value, env)
            if t != 'str':
                raise Unsupported('isdigit on %s' % (t,))
            return 'bool', 'bind (%s) (fun s_ => ret (py_isdigit s_))' % v
        return super().expr(e, env)

    def truth(self, e, env):
        """term : res bool for an expression used as a condition (Python truthiness)"""
        if isinstance(e, ast.BoolOp):
            op = 'py_and' if isinstance(e.op, ast.And) else 'py_or'
            parts = [self.truth(v, env) for v in e.values]
            out = parts[-1]
            for p in reversed(parts[:-1]):
                out = '%s (%s) (%s)' % (op, p, out)
            return out
        if isinstance(e, ast.UnaryOp) and isinstance(e.op, ast.Not):
            return 'py_not (%s)' % self.truth(e.operand, env)
        t, v = self.expr(e, env)
        if t == 'bool':
            return v
        if t in ('list[str]', 'dict', 'str'):
            return 'bind (%s) (fun l_ => ret (match l_ with [] => false | _ => true end))' % v
        raise Unsupported('truth value of %s' % (t,))

    # ------------------------------------------------------------------ statements
    @staticmethod
    def assigned(stmts):
        out = py2v.Fn.assigned(stmts)
        for s in stmts:
            for n in ast.walk(s):
                if isinstance(n, ast.Call) and isinstance(n.func, ast.Attribute) and n.func.attr == 'append' \
                        and isinstance(n.func.value, ast.Name) and n.func.value.id not in out:
                    out.append(n.func.value.id)
        return out

    def static_isinstance(self, test, env):
        """True/False when `test` is isinstance(<name>, dict|list) decidable from the tracked type"""
        if isinstance(test, ast.Call) and isinstance(test.func, ast.Name) and test.func.id == 'isinstance' \
                and len(test.args) == 2 and isinstance(test.args[0], ast.Name) and isinstance(test.args[1], ast.Name):
            ty = env.get(test.args[0].id)
            cls = test.args[1].id
            if cls == 'dict' and ty in ('dict', 'list[str]', 'str'):
                return ty == 'dict'
            if cls == 'list' and ty in ('dict', 'list[str]', 'str'):
                return ty == 'list[str]'
            raise Unsupported('isinstance(%s, %s) with tracked type %s' % (test.args[0].id, cls, ty))
        return None

    def block(self, stmts, env, k):
        if not stmts:
            return k(env)
        s, rest = stmts[0], stmts[1:]
        if isinstance(s, ast.If):
            st = self.static_isinstance(s.test, env)
            if st is not None:
                return self.block(list(s.body if st else s.orelse) + rest, env, k)
            c = self.truth(s.test, env)
            kont = lambda env2: self.block(rest, env2, k)
            return 'bind (%s) (fun c_ : bool => if c_ then (%s) else (%s))' % (
                c, self.block(s.body, env, kont), self.block(s.orelse, env, kont))
        if isinstance(s, ast.Raise):
            exc = s.exc
            name = exc.func.id if isinstance(exc, ast.Call) and isinstance(exc.func, ast.Name) else \
                (exc.id if isinstance(exc, ast.Name) else None)
            if name not in EXC:
                raise Unsupported('raise of %s' % ast.dump(exc)[:60])
            return 'Err %s' % EXC[name]
        if isinstance(s, ast.Expr) and isinstance(s.value, ast.Call) and isinstance(s.value.func, ast.Attribute) \
                and s.value.func.attr == 'append' and isinstance(s.value.func.value, ast.Name) \
                and len(s.value.args) == 1 and not s.value.keywords:
            x = s.value.func.value.id
            if env.get(x) != 'list[str]':
                raise Unsupported('append on %s of type %s' % (x, env.get(x)))
            t, v = self.expr(s.value.args[0], env)
            if t != 'str':
                raise Unsupported('append of %s' % (t,))
            return 'bind (%s) (fun a_ => bind (ret (%s ++ [a_])) (fun %s => %s))' % (v, x, x, self.block(rest, env, k))
        if isinstance(s, ast.Assign) and len(s.targets) == 1 and isinstance(s.targets[0], ast.Subscript) \
                and isinstance(s.targets[0].value, ast.Name):
            d = s.targets[0].value.id
            if env.get(d) != 'dict':
                raise Unsupported('item assignment on %s of type %s' % (d, env.get(d)))
            tk, kk = self.expr(s.targets[0].slice, env)
            tv, vv = self.expr(s.value, env)
            if tk != 'str' or tv != 'V':
                raise Unsupported('dict item assignment %s -> %s' % (tk, tv))
            return ('bind (%s) (fun k_ => bind (%s) (fun v_ => bind (ret (dict_set k_ v_ %s)) (fun %s => %s)))'
                    % (kk, vv, d, d, self.block(rest, env, k)))
        if isinstance(s, ast.Assign) and len(s.targets) == 1 and isinstance(s.targets[0], ast.Name) \
                and s.targets[0].id in env:
            # re-binding with another type is a new Gallina binder (CPS: later code sees the new type)
            ty, v = self.expr(s.value, env)
            env2 = dict(env)
            env2[s.targets[0].id] = ty
            return 'bind (%s) (fun %s => %s)' % (v, s.targets[0].id, self.block(rest, env2, k))
        return super().block(stmts, env, k)

    def for_loop(self, s, rest, env, k):
        it = s.iter
        if isinstance(it, ast.Call) and isinstance(it.func, ast.Attribute) and it.func.attr == 'items' \
                and not it.args and isinstance(it.func.value, ast.Name):
            if env.get(it.func.value.id) != 'dict':
                raise Unsupported('.items() of %s' % env.get(it.func.value.id))
            if not (isinstance(s.target, ast.Tuple) and len(s.target.elts) == 2
                    and all(isinstance(x, ast.Name) for x in s.target.elts)) or s.orelse:
                raise Unsupported('for target over .items()')
            kn, vn = s.target.elts[0].id, s.target.elts[1].id
            carried = [nm for nm in self.assigned(s.body) if nm not in (kn, vn) and nm in env]
            if len(carried) != 1:
                raise Unsupported('items() loop must carry exactly one variable, carries %s' % carried)
            c = carried[0]
            env_body = dict(env)
            env_body[kn] = 'str'
            env_body[vn] = 'V'
            body = self.block(list(s.body), env_body, lambda env2: 'ret (RNext %s)' % c)
            loop = ("bind (ret %s) (fun seq_ => py_for (id seq_) %s (fun st_ kv_ => let %s := st_ in "
                    "let '(%s, %s) := kv_ in %s))" % (it.func.value.id, c, c, kn, vn, body))
            after = self.block(rest, env, k)
            return ('bind (%s) (fun lr_ => match lr_ with RReturn r_ => ret (RReturn r_) | RNext st_ => '
                    'let %s := st_ in %s end)' % (loop, c, after))
        return super().for_loop(s, rest, env, k)


GT = dict(py2v.GTYPES)
GT['dict'] = 'list (pystr * V)'


def translate(tree, name, argtypes, rettype, cname, poly=False):
    fn = py2v.find_function(tree, name)
    tr = SFn(fn, argtypes, {}, rettype)
    args, body = tr.translate()
    sig = ' '.join('(%s : %s)' % (a, GT[argtypes[a]]) for a in args)
    return ('Definition %s %s%s : res (%s) :=\n  unwrap_return (%s).\n'
            % (cname, '{V : Type} ' if poly else '', sig, GT[rettype], body))


# --------------------------------------------------------------------------- shapes pinned by ast
def _only(xs, what):
    if len(xs) != 1:
        raise Unsupported('expected exactly one %s, found %d' % (what, len(xs)))
    return xs[0]


def select_weights(tree):
    fn = py2v.find_function(tree, '_select_bonding_operator')
    args = [a.arg for a in fn.args.args]
    if args != ['bonds', 'probabilities'] or len(fn.args.defaults) != 1 or \
            not (isinstance(fn.args.defaults[0], ast.Constant) and fn.args.defaults[0].value is None):
        raise Unsupported('signature of _select_bonding_operator changed')
    body = [s for s in fn.body if not (isinstance(s, ast.Expr) and isinstance(s.value, ast.Constant))]
    if not (len(body) == 2 and isinstance(body[0], ast.If) and isinstance(body[1], ast.Return)
            and ast.unparse(body[1].value) == 'bonding'):
        raise Unsupported('_select_bonding_operator is not `if probabilities: … else: …; return bonding`')
    iff = body[0]
    if not (isinstance(iff.test, ast.Name) and iff.test.id == 'probabilities'):
        raise Unsupported('_select_bonding_operator: the test is not the truth value of `probabilities`')
    if [ast.unparse(s) for s in iff.orelse] != ['bonding = random.choice(bonds)']:
        raise Unsupported('_select_bonding_operator: unweighted branch is not random.choice(bonds)')
    if len(iff.body) != 3:
        raise Unsupported('_select_bonding_operator: weighted branch changed shape')
    a0, a1, a2 = iff.body
    if ast.unparse(a1) != 'probs = probs / sum(probs)' or \
            ast.unparse(a2) != 'bonding = random.choices(bonds, weights=probs)[0]':
        raise Unsupported('_select_bonding_operator: normalisation / random.choices call changed')
    if not (isinstance(a0, ast.Assign) and ast.unparse(a0.targets[0]) == 'probs' and isinstance(a0.value, ast.Call)
            and ast.unparse(a0.value.func) == 'np.array' and len(a0.value.args) == 1
            and isinstance(a0.value.args[0], ast.ListComp)):
        raise Unsupported('_select_bonding_operator: weights are not np.array([... for ...])')
    lc = a0.value.args[0]
    g = _only(lc.generators, 'generator of the weight comprehension')
    if g.ifs or not isinstance(g.target, ast.Name) or ast.unparse(g.iter) != 'bonds':
        raise Unsupported('weight comprehension does not iterate over bonds')
    e = lc.elt
    if not (isinstance(e, ast.Call) and isinstance(e.func, ast.Attribute) and e.func.attr == 'get'
            and ast.unparse(e.func.value) == 'probabilities' and len(e.args) == 2 and not e.keywords
            and isinstance(e.args[0], ast.Name) and e.args[0].id == g.target.id
            and isinstance(e.args[1], ast.Constant) and isinstance(e.args[1].value, int)
            and not isinstance(e.args[1].value, bool)):
        raise Unsupported('weight look-up is not probabilities.get(<loop variable>, <int constant>)')
    v = g.target.id
    return ('(* sample.py _select_bonding_operator: the weights handed to random.choices; [c0] injects the\n'
            '   integer default into the carrier of the weights *)\n'
            'Definition select_weights {M : Type} (c0 : Z -> M) (bonds : list pystr) (probabilities : list (pystr * M))'
            ' : list M :=\n  map (fun %s => dict_get_default probabilities %s (c0 (%d)%%Z)) bonds.\n'
            % (v, v, e.args[1].value))


CMP = {ast.Lt: 'ltb a b', ast.LtE: 'negb (ltb b a)', ast.Gt: 'ltb b a', ast.GtE: 'negb (ltb a b)'}


def loop_guard(tree):
    cls = [n for n in ast.walk(tree) if isinstance(n, ast.ClassDef) and n.name == 'MoleculeSampler']
    fn = py2v.find_function(_only(cls, 'class MoleculeSampler'), 'sample')
    wh = _only([n for n in ast.walk(fn) if isinstance(n, ast.While)], 'while loop in sample()')
    t = wh.test
    if not (isinstance(t, ast.Compare) and len(t.ops) == 1 and type(t.ops[0]) in CMP
            and isinstance(t.left, ast.Name) and isinstance(t.comparators[0], ast.Name)
            and {t.left.id, t.comparators[0].id} == {'current_weight', 'target_weight'}):
        raise Unsupported('guard of the growth loop is not a comparison of current_weight and target_weight')
    rel = CMP[type(t.ops[0])]
    a, b = t.left.id, t.comparators[0].id
    init = [n for n in fn.body if isinstance(n, ast.Assign) and ast.unparse(n.targets[0]) == 'current_weight']
    i0 = _only(init, 'initialisation of current_weight')
    if not (isinstance(i0.value, ast.Constant) and isinstance(i0.value.value, int) and not isinstance(i0.value.value, bool)):
        raise Unsupported('current_weight does not start at an integer constant')
    incs = [n for n in ast.walk(wh) if isinstance(n, ast.AugAssign) and ast.unparse(n.target) == 'current_weight']
    inc = _only(incs, 'update of current_weight in the loop')
    if not (isinstance(inc.op, ast.Add) and ast.unparse(inc.value) == 'self.fragment_masses[fragname]'):
        raise Unsupported('current_weight is not incremented by self.fragment_masses[fragname]')
    # the loop body: find_open_bonds, add_fragment, the increment (in this order)
    calls = [ast.unparse(n.func) for s in wh.body for n in ast.walk(s) if isinstance(n, ast.Call)]
    if calls != ['find_open_bonds', 'self.add_fragment']:
        raise Unsupported('calls inside the growth loop changed: %s' % calls)
    srt = _only([n for n in ast.walk(fn) if isinstance(n, ast.Call) and ast.unparse(n.func) == 'sort_nodes_by_attr'],
                'sort_nodes_by_attr call in sample()')
    kws = {k.arg: k.value for k in srt.keywords}
    if set(kws) != {'sort_attr'} or not (isinstance(kws['sort_attr'], ast.Constant) and isinstance(kws['sort_attr'].value, str)):
        raise Unsupported('sort_nodes_by_attr is not called with a constant sort_attr')
    out = ('(* sample.py MoleculeSampler.sample: `while %s` *)\n'
           'Definition loop_guard {M : Type} (ltb : M -> M -> bool) (%s %s : M) : bool :=\n  let a := %s in let b := %s in %s.\n'
           % (ast.unparse(t), 'current_weight', 'target_weight', a, b, rel))
    out += 'Definition current_weight_start : Z := (%d)%%Z.\n' % i0.value.value
    out += 'Definition sample_sort_attr : pystr := %s.\n' % coq_str(kws['sort_attr'].value)
    return out


def key_patch(tree):
    """__init__: `for key, probs in fragment_reactivities.items(): if not key[-1].isdigit(): key += '1'; …`"""
    cls = _only([n for n in ast.walk(tree) if isinstance(n, ast.ClassDef) and n.name == 'MoleculeSampler'], 'class')
    fn = py2v.find_function(cls, '__init__')
    loops = [n for n in fn.body if isinstance(n, ast.For) and ast.unparse(n.iter) == 'fragment_reactivities.items()']
    lp = _only(loops, 'loop over fragment_reactivities.items() in __init__')
    if [ast.unparse(s) for s in lp.body] != ["if not key[-1].isdigit():\n    key += '1'",
                                             'self.fragment_reactivities[key] = _set_bond_order_defaults(probs)']:
        raise Unsupported('key patch of fragment_reactivities changed: %s' % [ast.unparse(s) for s in lp.body])
    # translated through a synthetic one-statement function so that the same translator is used
    src = 'def patch_key(key):\n    if not key[-1].isdigit():\n        key += \'1\'\n    return key\n'
    # the synthetic text is checked against the source above; translate it
    return translate(ast.parse(src), 'patch_key', {'key': 'str'}, 'str', 'patch_key')


_PROBE = r'''
import json, pysmiles
els = %r
print(json.dumps([[e, float(pysmiles.PTE[e]['AtomicMass']).hex()] for e in els]))
'''
ELEMENTS = "H B C N O F Na Mg Si P S Cl Br I".split()


def masses():
    try:
        import pysmiles  # noqa: F401
        exe = sys.executable
    except ImportError:
        exe = '/venv/bin/python'
    try:
        p = subprocess.run([exe, '-W', 'ignore', '-c', _PROBE % (ELEMENTS,)], stdout=subprocess.PIPE,
                           stderr=subprocess.PIPE, text=True, timeout=120)
    except (OSError, subprocess.TimeoutExpired) as exc:
        raise Unsupported('cannot run the installed pysmiles: %s' % exc)
    line = [l for l in p.stdout.splitlines() if l.startswith('[')]
    if p.returncode != 0 or not line:
        raise Unsupported('probing pysmiles.PTE failed: %s' % p.stderr[-300:])
    rows = json.loads(line[-1])
    return ('(* pysmiles.PTE[e]["AtomicMass"] of the installed pysmiles as binary64 literals (float.hex()) *)\n'
            'Definition pte_mass_float : list (pystr * PrimFloat.float) := [\n%s].\n'
            % ';\n'.join('  (%s, %s%%float)' % (coq_str(e), h) for e, h in rows))


FALLBACK = os.path.join(os.path.dirname(os.path.abspath(__file__)), 'gen_sampler_fallback.v.txt')
MARK = '(*@piece %s *)\n'


def load_fallback():
    """the translation of the source the model was last validated against (committed), by piece"""
    out = {}
    if not os.path.exists(FALLBACK):
        return out
    text = open(FALLBACK).read()
    parts = text.split('(*@piece ')
    for part in parts[1:]:
        name, body = part.split(' *)\n', 1)
        out[name] = body
    return out


@gen.target('SamplerGen', ['cgsmiles/sample.py', 'cgsmiles/cgsmiles_utils.py'])
def gen_sampler(trees):
    """Every piece is translated from the CURRENT source.  A piece whose source left the supported
    shapes is NOT guessed: `samplergen_current` becomes false, which breaks the theorems of C16/C17
    (Example C1x_translation_current in the property files: a broken proof obligation), and the piece
    is emitted from the committed fall-back translation ONLY so that the executable model and the
    oracles still build and the search for a failing input can run against the changed code."""
    ts, tu = trees['cgsmiles/sample.py'], trees['cgsmiles/cgsmiles_utils.py']

    def sig_check():
        fn = py2v.find_function(tu, 'find_complementary_bonding_descriptor')
        if [a.arg for a in fn.args.args] != ['bonding_descriptor', 'ellegible_descriptors']:
            raise Unsupported('signature of find_complementary_bonding_descriptor changed')
        return translate(tu, 'find_complementary_bonding_descriptor',
                         {'bonding_descriptor': 'str', 'ellegible_descriptors': 'list[str]'}, 'list[str]',
                         'find_complementary_bonding_descriptor')
    pieces = [
        ('find_complementary_bonding_descriptor', sig_check),
        ('set_bond_order_defaults_list', lambda: translate(ts, '_set_bond_order_defaults', {'bonding': 'list[str]'},
                                                           'list[str]', 'set_bond_order_defaults_list')),
        ('set_bond_order_defaults_dict', lambda: translate(ts, '_set_bond_order_defaults', {'bonding': 'dict'}, 'dict',
                                                           'set_bond_order_defaults_dict', poly=True)),
        ('patch_key', lambda: key_patch(ts)),
        ('select_weights', lambda: select_weights(ts)),
        ('loop_guard', lambda: loop_guard(ts)),
    ]
    fb = None
    stale = []
    out = 'From Coq Require Import Floats.PrimFloat.\nFrom CGV Require Import Sample.GenSupport.\n\n'
    body = ''
    for name, f in pieces:
        try:
            text = f()
        except Unsupported as exc:
            if fb is None:
                fb = load_fallback()
            if name not in fb:
                raise
            stale.append((name, str(exc)))
            text = ('(* NOT TRANSLATED from the current source (%s): fall-back text, only to keep the\n'
                    '   executable check alive; samplergen_current = false breaks the theorems *)\n%s'
                    % (str(exc).replace('*)', '* )')[:300], fb[name]))
        body += MARK % name + text + '\n'
    out += body
    out += ('(* true iff every piece above is the translation of the current source *)\n'
            'Definition samplergen_current : bool := %s.\n\n' % ('false' if stale else 'true'))
    out += masses()
    if os.environ.get('GEN_SAMPLER_WRITE_FALLBACK') == '1' and not stale:
        with open(FALLBACK, 'w') as fh:
            fh.write(body)
    return out
