#!/bin/sh
# try_patch.sh <patch.diff> <Cxx> [Cyy ...]   (env TIER=quick|thorough, KEEP=1 to keep the scratch copy)
# Runs the checks against a scratch copy of /repo with the patch applied, from a scratch copy of
# /verif, so that neither /repo nor /verif/theories/Gen is disturbed.  Prints one line per check.
patch="$1"; shift
d=$(mktemp -d /tmp/trypatch.XXXXXX)
cp -r "${CGV_REPO_SRC:-/repo}" "$d/repo" && rm -rf "$d/repo/.git"
(cd "$d/repo" && git init -q . && git add -A >/dev/null 2>&1 && git -c user.email=x@y -c user.name=x commit -qm base >/dev/null 2>&1)
rsync -a --exclude .git --exclude .work --exclude replays "${CGV_VERIF_SRC:-/verif}/" "$d/verif/"
if ! (cd "$d/repo" && git apply "$patch"); then echo "PATCH DOES NOT APPLY: $patch"; rm -rf "$d"; exit 2; fi
for p in "$@"; do
  out=$(cd "$d/verif" && CGV_REPO="$d/repo" ./check "$p" --tier "${TIER:-quick}" 2>&1); rc=$?
  echo "== $p rc=$rc :: $(echo "$out" | grep -E 'VIOLATION|KNOWN-FINDING' | tr '\n' ' ' | cut -c1-400)"
  for r in $(echo "$out" | grep -o 'replay=[^ ]*' | cut -d= -f2); do
    [ -f "$r" ] && /venv/bin/python -c "import json,sys; d=json.load(open('$r')); print('   input:', json.dumps(d.get('input'))[:300]); print('   clause:', d.get('failing_clause')); b=d.get('broken'); print('   broken:', [x.get('kind') for x in b] if b else None)"
  done
done
[ -n "$KEEP" ] && echo "kept $d" || rm -rf "$d"
