#!/usr/bin/env python3
"""gen: regenerate theories/Gen/*.v from /repo's CURRENT working tree (tie (a) of DESIGN 2.3).
Run on every check and by `make`.  A file is rewritten only when its text changes, so that
`make` stays a no-op when /repo did not change.  A target whose source leaves the supported
subset is recorded as failed in .work/gen_status.json and its .v file is removed: every
property whose theorems import it then reports a broken obligation.
Usage: gen.py [--repo /repo] [--out /verif/theories/Gen]
"""
import ast
import json
import os
import sys

HERE = os.path.dirname(os.path.abspath(__file__))
sys.path.insert(0, HERE)
import py2v
from py2v import Unsupported, coq_str, HEADER

TARGETS = {}


def target(name, sources):
    def deco(f):
        TARGETS[name] = (sources, f)
        return f
    return deco


def parse(repo, rel):
    with open(os.path.join(repo, rel)) as fh:
        return ast.parse(fh.read())


def str_list(node):
    if not isinstance(node, ast.List):
        raise Unsupported('expected a list literal')
    out = []
    for x in node.elts:
        if not (isinstance(x, ast.Constant) and isinstance(x.value, str)):
            raise Unsupported('expected string constants in list literal')
        out.append(x.value)
    return out


def coq_str_list(xs):
    return '[' + '; '.join(coq_str(x) for x in xs) + ']'


# --------------------------------------------------------------------------- resolve.py
@target('ResolveGen', ['cgsmiles/resolve.py'])
def gen_resolve(trees):
    t = trees['cgsmiles/resolve.py']
    out = py2v.translate_function(t, 'compatible', {'left': 'str', 'right': 'str', 'legacy': 'bool'}, 'bool')
    # default of the `legacy` parameter of MoleculeResolver.__init__/compatible (documented default)
    return out


# --------------------------------------------------------------------------- read_cgsmiles.py
@target('ReaderGen', ['cgsmiles/read_cgsmiles.py'])
def gen_reader(trees):
    t = trees['cgsmiles/read_cgsmiles.py']
    out = py2v.table_def('symbol_to_order', py2v.find_dict(t, 'symbol_to_order'), 'str', 'int')
    out += '\n' + py2v.translate_function(t, '_find_next_character',
                                          {'string': 'str', 'chars': 'list[str]', 'start': 'int'}, 'int')
    fn = py2v.find_function(t, 'read_cgsmiles')
    # the regular expression that finds nodes: the model hard-wires its meaning
    pats = None
    for n in ast.walk(t):
        if isinstance(n, ast.Assign) and isinstance(n.targets[0], ast.Name) and n.targets[0].id == 'PATTERNS':
            pats = {k.value: v.value for k, v in zip(n.value.keys, n.value.values)}
    if not pats or pats.get('place_holder') != r"\[\#.*?\]":
        raise Unsupported('PATTERNS["place_holder"] is not the modelled regular expression')
    uses = [n for n in ast.walk(fn) if isinstance(n, ast.Call) and isinstance(n.func, ast.Attribute)
            and n.func.attr == 'finditer']
    if len(uses) != 1 or not (isinstance(uses[0].args[0], ast.Subscript)
                              and isinstance(uses[0].args[0].slice, ast.Constant)
                              and uses[0].args[0].slice.value == 'place_holder'):
        raise Unsupported('read_cgsmiles does not iterate re.finditer(PATTERNS["place_holder"], …)')
    # string constants on the right of `in` inside read_cgsmiles (bond symbol membership)
    ins = [n.comparators[0].value for n in ast.walk(fn) if isinstance(n, ast.Compare) and len(n.ops) == 1
           and isinstance(n.ops[0], ast.In) and isinstance(n.comparators[0], ast.Constant)
           and isinstance(n.comparators[0].value, str)]
    if len(ins) != 1:
        raise Unsupported('expected exactly one `x in "<constant>"` test in read_cgsmiles, found %d' % len(ins))
    out += '\nDefinition bond_symbol_chars : pystr := %s.\n' % coq_str(ins[0])
    # character lists handed to _find_next_character, in order of appearance
    calls = sorted([n for n in ast.walk(fn) if isinstance(n, ast.Call) and isinstance(n.func, ast.Name)
                    and n.func.id == '_find_next_character'], key=lambda n: (n.lineno, n.col_offset))
    def char_list(a):
        """Gallina text of a character-list argument: a list literal, or <list literal> +
        list(symbol_to_order.keys())"""
        if isinstance(a, ast.List):
            return coq_str_list(str_list(a))
        if isinstance(a, ast.BinOp) and isinstance(a.op, ast.Add) and isinstance(a.left, ast.List) \
                and ast.unparse(a.right) == 'list(symbol_to_order.keys())':
            return '%s ++ map fst symbol_to_order' % coq_str_list(str_list(a.left))
        raise Unsupported('unexpected character-list argument of _find_next_character')

    nc = [n for n in ast.walk(fn) if isinstance(n, ast.Assign) and isinstance(n.targets[0], ast.Name)
          and n.targets[0].id == 'next_characters']
    if len(nc) != 1:
        raise Unsupported('next_characters is not assigned exactly once')
    texts = []
    for c in calls:
        a = c.args[1]
        if isinstance(a, ast.Name) and a.id == 'next_characters':
            texts.append(char_list(nc[0].value))
        else:
            texts.append(char_list(a))
    if len(texts) != 5 or not (isinstance(calls[4].args[1], ast.Name) and calls[4].args[1].id == 'next_characters'):
        raise Unsupported('the five _find_next_character call sites changed shape')
    names = ['fnc_eon', 'fnc_next_open', 'fnc_next_close', 'fnc_eon_a', 'fnc_eon_b']
    for nm, t in zip(names, texts):
        out += 'Definition %s : list pystr := %s.\n' % (nm, t)
    dbo = [n for n in ast.walk(fn) if isinstance(n, ast.Assign) and isinstance(n.targets[0], ast.Name)
           and n.targets[0].id == 'default_bond_order' and isinstance(n.value, ast.Constant)]
    if len(dbo) != 1 or not isinstance(dbo[0].value.value, int):
        raise Unsupported('default_bond_order is not an integer constant')
    out += 'Definition default_bond_order : Z := (%d)%%Z.\n' % dbo[0].value.value
    return out


# --------------------------------------------------------------------------- read_fragments.py
@target('FragGen', ['cgsmiles/read_fragments.py'])
def gen_frag(trees):
    t = trees['cgsmiles/read_fragments.py']
    fn = py2v.find_function(t, 'strip_bonding_descriptors')
    out = py2v.table_def('bond_to_order', py2v.find_dict(fn, 'bond_to_order'), 'str', 'num')
    lists = [str_list(n.comparators[0]) for n in ast.walk(fn) if isinstance(n, ast.Compare) and len(n.ops) == 1
             and isinstance(n.ops[0], ast.In) and isinstance(n.comparators[0], ast.List)]
    if len(lists) != 2:
        raise Unsupported('expected two `in [list]` tests in strip_bonding_descriptors')
    kinds = [l for l in lists if all(len(x) == 1 for x in l)]
    two = [l for l in lists if all(len(x) == 2 for x in l)]
    if len(kinds) != 1 or len(two) != 1:
        raise Unsupported('descriptor-kind list / two-letter element list not recognised')
    out += '\nDefinition descriptor_kinds : list pystr := %s.\n' % coq_str_list(kinds[0])
    out += 'Definition two_letter_elements : list pystr := %s.\n' % coq_str_list(two[0])
    consts = sorted([n for n in ast.walk(fn) if isinstance(n, ast.Compare) and len(n.ops) == 1
                     and isinstance(n.ops[0], ast.In) and isinstance(n.comparators[0], ast.Constant)
                     and isinstance(n.comparators[0].value, str)], key=lambda n: n.lineno)
    if len(consts) != 2:
        raise Unsupported('expected two `token in "<constant>"` tests in strip_bonding_descriptors')
    out += 'Definition passthrough_chars : pystr := %s.\n' % coq_str(consts[0].comparators[0].value)
    out += 'Definition ez_chars : pystr := %s.\n' % coq_str(consts[1].comparators[0].value)
    return out


# --------------------------------------------------------------------------- write_cgsmiles.py
@target('WriterGen', ['cgsmiles/write_cgsmiles.py'])
def gen_writer(trees):
    t = trees['cgsmiles/write_cgsmiles.py']
    entries = py2v.find_dict(t, 'order_to_symbol')
    rows = []
    ints = []
    for k, v in entries:
        if isinstance(k, bool) or not isinstance(k, (int, float)) or not isinstance(v, str):
            raise Unsupported('order_to_symbol entry %r' % ((k, v),))
        kk = '(VInt (%d)%%Z)' % k if isinstance(k, int) else '(VFlt %s)' % coq_str(repr(k))
        rows.append('(%s, %s)' % (kk, coq_str(v)))
        if isinstance(k, int) or float(k).is_integer():
            ints.append((int(k), v))
    out = 'Definition order_to_symbol_full : list (pyval * pystr) := [%s].\n' % '; '.join(rows)
    out += py2v.table_def('order_to_symbol', ints, 'int', 'str')
    out += '\n' + py2v.translate_function(t, 'format_bonding', {'bonding': 'list[str]'}, 'str',
                                          tables={'order_to_symbol': ('int', 'str', 'order_to_symbol')})
    return out


# --------------------------------------------------------------------------- dialects.py
@target('DialectGen', ['cgsmiles/dialects.py'])
def gen_dialect(trees):
    t = trees['cgsmiles/dialects.py']

    def dialect(varname):
        for n in t.body:
            if isinstance(n, ast.Assign) and isinstance(n.targets[0], ast.Name) and n.targets[0].id == varname:
                c = n.value
                if not (isinstance(c, ast.Call) and isinstance(c.func, ast.Name) and c.func.id == 'create_dialect'):
                    raise Unsupported('%s is not a create_dialect(...) call' % varname)
                d = c.args[0]
                if not isinstance(d, ast.Dict):
                    raise Unsupported('%s: first argument is not a dict literal' % varname)
                params = []
                for k, v in zip(d.keys, d.values):
                    if not (isinstance(k, ast.Constant) and isinstance(v, ast.Tuple) and len(v.elts) == 2
                            and isinstance(v.elts[0], ast.Constant) and isinstance(v.elts[1], ast.Name)):
                        raise Unsupported('%s: parameter entry shape' % varname)
                    params.append((k.value, v.elts[0].value, v.elts[1].id))
                kw = True
                for k in c.keywords:
                    if k.arg == 'accept_kwargs' and isinstance(k.value, ast.Constant):
                        kw = bool(k.value.value)
                    else:
                        raise Unsupported('%s: keyword %s' % (varname, k.arg))
                if len(c.args) != 1:
                    raise Unsupported('%s: optional_attributes are not modelled' % varname)
                return params, kw
        raise Unsupported('%s not found' % varname)

    def parser(varname, sigvar):
        for n in t.body:
            if isinstance(n, ast.Assign) and isinstance(n.targets[0], ast.Name) and n.targets[0].id == varname:
                c = n.value
                if not (isinstance(c, ast.Call) and ast.unparse(c.func) == 'partial'
                        and ast.unparse(c.args[0]) == '_parse_dialect_string'):
                    raise Unsupported('%s is not partial(_parse_dialect_string, …)' % varname)
                kws = {k.arg: k.value for k in c.keywords}
                if set(kws) != {'dialect_signature', 'arg_to_fullname'} or ast.unparse(kws['dialect_signature']) != sigvar:
                    raise Unsupported('%s: keywords changed' % varname)
                d = kws['arg_to_fullname']
                return [(k.value, v.value) for k, v in zip(d.keys, d.values)]
        raise Unsupported('%s not found' % varname)

    def emit(cname, params, kw, rename):
        rows = []
        for name, default, ty in params:
            if ty not in ('str', 'float'):
                raise Unsupported('parameter type %s' % ty)
            if default is None:
                dv = 'None'
            elif isinstance(default, float):
                dv = '(Some (VFlt %s))' % coq_str(repr(default))
            elif isinstance(default, str):
                dv = '(Some (VStr %s))' % coq_str(default)
            else:
                raise Unsupported('default %r' % (default,))
            rows.append('{| pname := %s; pdefault := %s; ptype := %s |}' % (coq_str(name), dv,
                                                                           'TFloat' if ty == 'float' else 'TStr'))
        ren = '; '.join('(%s, %s)' % (coq_str(a), coq_str(b_)) for a, b_ in rename)
        return ('Definition %s : dialect := {| params := [%s]; accept_kwargs := %s; rename := [%s] |}.\n'
                % (cname, '; '.join(rows), 'true' if kw else 'false', ren))

    # the parsing function itself is hand-modelled; pin the tokens it uses
    fn = py2v.find_function(t, '_parse_dialect_string')
    defaults = {a.arg: d for a, d in zip(fn.args.args[-len(fn.args.defaults):], fn.args.defaults)}
    if not (isinstance(defaults.get('annotation_sep_token'), ast.Constant) and defaults['annotation_sep_token'].value == ';'
            and isinstance(defaults.get('annotation_assign_token'), ast.Constant)
            and defaults['annotation_assign_token'].value == '='
            and isinstance(defaults.get('drop_none'), ast.Constant) and defaults['drop_none'].value is True):
        raise Unsupported('_parse_dialect_string defaults changed')
    out = ('Inductive ptype_t := TFloat | TStr.\n'
           'Record param := { pname : pystr; pdefault : option pyval; ptype : ptype_t }.\n'
           'Record dialect := { params : list param; accept_kwargs : bool; rename : list (pystr * pystr) }.\n\n')
    p, kw = dialect('CGSMILES_DEFAULT_DIALECT')
    out += emit('graph_base_dialect', p, kw, parser('parse_graph_base_node', 'CGSMILES_DEFAULT_DIALECT'))
    p, kw = dialect('fragment_base')
    out += emit('fragment_node_dialect', p, kw, parser('_fragment_node_parser', 'fragment_base'))
    return out


def load_plugins():
    """component-owned generator modules tools/gen_<component>.py register more targets"""
    import glob
    import importlib
    for f in sorted(glob.glob(os.path.join(HERE, 'gen_*.py'))):
        importlib.import_module(os.path.basename(f)[:-3])


def main(argv):
    load_plugins()
    repo = '/repo'
    outdir = os.path.join(os.path.dirname(HERE), 'theories', 'Gen')
    only = None
    i = 0
    while i < len(argv):
        if argv[i] == '--repo':
            repo = argv[i + 1]; i += 2
        elif argv[i] == '--out':
            outdir = argv[i + 1]; i += 2
        elif argv[i] == '--only':
            only = argv[i + 1].split(','); i += 2
        else:
            raise SystemExit('unknown argument ' + argv[i])
    os.makedirs(outdir, exist_ok=True)
    status = {}
    for name, (sources, f) in TARGETS.items():
        if only and name not in only:
            continue
        path = os.path.join(outdir, name + '.v')
        try:
            trees = {rel: parse(repo, rel) for rel in sources}
            text = HEADER % ', '.join(sources) + f(trees)
            old = open(path).read() if os.path.exists(path) else None
            if old != text:
                tmp = path + '.tmp%d' % os.getpid()
                with open(tmp, 'w') as fh:
                    fh.write(text)
                os.replace(tmp, path)
            status[name] = {'ok': True, 'changed': old != text}
        except (Unsupported, SyntaxError, OSError) as exc:
            # remove the source AND every compiled artefact, otherwise the stale .vo keeps the old
            # model alive for the files that import it
            for ext in ('.v', '.vo', '.vos', '.vok', '.glob'):
                if os.path.exists(path[:-2] + ext):
                    os.remove(path[:-2] + ext)
            status[name] = {'ok': False, 'error': '%s: %s' % (type(exc).__name__, exc)}
    return status


if __name__ == '__main__':
    sys.modules.setdefault('gen', sys.modules['__main__'])   # plug-ins `import gen` must see this module
    st = main(sys.argv[1:])
    print(json.dumps(st, indent=1))
    sys.exit(0 if all(v['ok'] for v in st.values()) else 2)
