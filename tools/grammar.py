"""grammar: ASTs of the documented CGsmiles GRAPH grammar (DESIGN Appendix A reading), shared by the
reader checks (C04, C05, C20) and usable by other builders for base graphs.

AST (JSON-able):
  chain  := [item, ...]                              (non-empty)
  item   := {'n': text between "[#" and "]" (name and annotations),
             'r': [[sym|None, marker], ...]          ring specifications; marker = 'd' or '%dd..'
             'm': None | 'digits'                    node multiplier (excludes rings)
             'b': None | sym                         bond symbol after the node (and its rings / |n)
             'br': [branch, ...]}
  branch := {'c': chain, 'ms': None|sym, 'm': None|'digits', 'a': None|sym}     "(chain) ms? |m a?"
  sym    := one of . - = # $

  print_ast(ast, braces=True)   concrete syntax
  expand(ast)                   all multipliers written out (Appendix A reading)
  denote(ast)                   expected graph, independent of /repo:
                                {'nodes': [attrs...], 'edges': [[u, v, order], ...]} | {'error': kind}
  wf(ast)                       the grammar's side conditions (symbols have a consumer, rings pair
                                inside multiplied units, ...), None or a reason
  rand_ast(rng, ...)            random ASTs
  enum_asts(...)                exhaustive enumeration up to a size bound
  coq_ast(ast)                  Gallina literal (CGV.Reader.Grammar)
"""
import copy
import itertools

SYM_ORDER = {'.': 0, '-': 1, '=': 2, '#': 3, '$': 4}
SYMS = ['.', '-', '=', '#', '$']


# --------------------------------------------------------------------------- constructors
def item(n, r=None, m=None, b=None, br=None):
    return {'n': n, 'r': [list(x) for x in (r or [])], 'm': m, 'b': b, 'br': list(br or [])}


def branch(c, ms=None, m=None, a=None):
    return {'c': list(c), 'ms': ms, 'm': m, 'a': a}


def marker_value(mk):
    return int(mk[1:]) if mk[0] == '%' else int(mk)


# --------------------------------------------------------------------------- printing
def _print_rings(rings):
    out = ''
    prev_pct = False
    for sym, mk in rings:
        if sym:
            out += sym + mk
            prev_pct = mk[0] == '%'
        elif prev_pct and mk[0] != '%':
            out += '%0' + mk            # a one-digit marker directly after a % form cannot be written
            prev_pct = True
        else:
            out += mk
            prev_pct = mk[0] == '%'
    return out


def print_chain(chain):
    out = ''
    for it in chain:
        out += '[#' + it['n'] + ']'
        if it['m'] is not None:
            out += '|' + it['m']
        out += _print_rings(it['r'])
        out += it['b'] or ''
        for br in it['br']:
            out += '(' + print_chain(br['c']) + ')'
            if br['m'] is not None:
                out += (br['ms'] or '') + '|' + br['m']
            out += br['a'] or ''
    return out


def print_ast(ast, braces=True):
    return ('{' + print_chain(ast) + '}') if braces else print_chain(ast)


# --------------------------------------------------------------------------- traversal helpers
def items_in_order(chain):
    """items in order of appearance in the printed text"""
    for it in chain:
        yield it
        for br in it['br']:
            yield from items_in_order(br['c'])


def has_node_mult(ast):
    return any(it['m'] is not None for it in items_in_order(ast))


def has_branch_mult(ast):
    return any(br['m'] is not None for it in items_in_order(ast) for br in it['br'])


def depth(chain):
    return 1 + max([depth(br['c']) for it in chain for br in it['br']] + [0]) if chain else 0


# --------------------------------------------------------------------------- expansion
def expand_chain(chain):
    out = []
    for it in chain:
        n = int(it['m']) if it['m'] is not None else 1
        # node multiplier: n copies joined by order 1; rings cannot be present; the symbol after |n and
        # the branches belong to the last copy
        for _ in range(n - 1):
            out.append(item(it['n']))
        cur = item(it['n'], r=it['r'], b=it['b'])
        out.append(cur)
        pending = it['b']                    # symbol that applies to the next branch's first node
        first = True
        for br in it['br']:
            body = expand_chain(br['c'])
            k = int(br['m']) if br['m'] is not None else 1
            if br['m'] is None or k == 1:
                cur['br'].append(branch(copy.deepcopy(body), a=br['a']))
            else:
                # unit = anchor + this branch, written k times; consecutive anchors joined by ms
                cur['br'].append(branch(copy.deepcopy(body), a=br['ms']))
                for j in range(1, k):
                    cur = item(it['n'], r=(it['r'] if first else []), b=pending,
                               br=[branch(copy.deepcopy(body), a=(br['ms'] if j < k - 1 else br['a']))])
                    out.append(cur)
            pending = br['a']
            first = False
    return out


def expand(ast):
    return expand_chain(ast)


def expand_nodes_only(ast):
    """write out node multipliers only (numbering is preserved by the implementation's reading)"""
    out = []
    for it in ast:
        n = int(it['m']) if it['m'] is not None else 1
        for _ in range(n - 1):
            out.append(item(it['n']))
        out.append(item(it['n'], r=it['r'], b=it['b'],
                        br=[branch(expand_nodes_only(b['c']), ms=b['ms'], m=b['m'], a=b['a']) for b in it['br']]))
    return out


# --------------------------------------------------------------------------- annotations (Appendix A)
def parse_annotation(text):
    """expected attribute dict of a base-graph node `[#text]`; raises ValueError(kind) for the documented errors"""
    pos, kw = [], {}
    if text:
        for e in text.split(';'):
            if e.count('=') > 1:
                raise ValueError('annotation')
            if '=' in e:
                k, v = e.split('=')
                if k in kw:
                    pass            # last value wins (a dict)
                kw[k] = v
            else:
                pos.append(e)
    names = ['fragname', 'q', 'w']
    if len(pos) > len(names):
        raise ValueError('annotation')
    vals = {}
    for nme, v in zip(names, pos):
        if nme in kw:
            raise ValueError('annotation')
        vals[nme] = v
    for nme in names:
        if nme in kw and nme not in vals:
            vals[nme] = kw.pop(nme)
    out = dict(kw)
    if 'fragname' in vals:
        out['fragname'] = vals['fragname']
    for short, full, dflt in (('q', 'charge', 0.0), ('w', 'weight', 1.0)):
        if short in vals:
            try:
                out[full] = float(vals[short])
            except ValueError:
                raise ValueError('type')
        else:
            out[full] = dflt
    return out


# --------------------------------------------------------------------------- denotation
def denote(ast):
    ast = expand(ast)
    nodes, edges, ring = [], {}, {}

    class Fault(Exception):
        pass

    def add_edge(u, v, o):
        if (min(u, v), max(u, v)) in edges:
            raise Fault('double')
        edges[(min(u, v), max(u, v))] = o

    def walk(chain, anchor, pend):
        prev = anchor
        for it in chain:
            cur = len(nodes)
            try:
                nodes.append(parse_annotation(it['n']))
            except ValueError as exc:
                raise Fault(str(exc))
            if prev is not None:
                edges[(prev, cur)] = pend
            for sym, mk in it['r']:
                m = marker_value(mk)
                if m in ring:
                    n0, o0 = ring.pop(m)
                    add_edge(cur, n0, o0)
                else:
                    ring[m] = (cur, SYM_ORDER[sym] if sym else 1)
            pend = SYM_ORDER[it['b']] if it['b'] else 1
            for br in it['br']:
                walk(br['c'], cur, pend)
                pend = SYM_ORDER[br['a']] if br['a'] else 1
            prev = cur
    try:
        walk(ast, None, 1)
    except Fault as f:
        return {'error': str(f)}
    if ring:
        return {'error': 'dangling'}
    return {'nodes': nodes, 'edges': [[u, v, o] for (u, v), o in sorted(edges.items())]}


def to_nx(den):
    import networkx as nx
    g = nx.Graph()
    for i, a in enumerate(den['nodes']):
        g.add_node(i, **a)
    for u, v, o in den['edges']:
        g.add_edge(u, v, order=o)
    return g


# --------------------------------------------------------------------------- well-formedness
def _ring_balanced(items):
    """markers of the given items (in order) open and close among themselves"""
    open_ = set()
    for it in items:
        for _, mk in it['r']:
            m = marker_value(mk)
            if m in open_:
                open_.discard(m)
            else:
                open_.add(m)
    return not open_


def wf(ast, top=True, has_next=False):
    """None if the AST is a string of the grammar, else a reason.  `has_next`: something follows this
    chain's last node in the enclosing chain (consumer of a trailing symbol)."""
    if not ast:
        return 'empty chain'
    for i, it in enumerate(ast):
        last = i == len(ast) - 1
        if it['m'] is not None:
            if it['r']:
                return 'rings and multiplier on one node'
            if not it['m'].isdigit() or int(it['m']) < 1:
                return 'multiplier < 1'
        for sym, mk in it['r']:
            body = mk[1:] if mk[0] == '%' else mk
            if not body.isdigit() or (mk[0] != '%' and len(mk) != 1):
                return 'marker'
        if it['b'] and not it['br'] and last:
            return 'symbol without consumer'
        for j, br in enumerate(it['br']):
            lastb = j == len(it['br']) - 1
            if br['a'] and lastb and last:
                return 'symbol without consumer'
            if br['m'] is None and br['ms']:
                return 'ms without multiplier'
            if br['m'] is not None:
                if not br['m'].isdigit() or int(br['m']) < 1:
                    return 'multiplier < 1'
                unit = ([it] if j == 0 else []) + list(items_in_order(br['c']))
                if int(br['m']) > 1 and not _ring_balanced(unit):
                    return 'ring bond leaves a multiplied unit'
            w = wf(br['c'], top=False)
            if w:
                return w
    return None


def ring_in_unit(ast):
    """some multiplied (n>1) unit contains a ring marker"""
    for it in items_in_order(ast):
        for j, br in enumerate(it['br']):
            if br['m'] is not None and int(br['m']) > 1:
                unit = ([it] if j == 0 else []) + list(items_in_order(br['c']))
                if any(u['r'] for u in unit):
                    return True
    return False


# --------------------------------------------------------------------------- random ASTs
NAMES = ['A', 'B', 'C', 'D', 'PEO', 'PMA', 'X1', 'a_b', 'N3']
ANNOTS = ['', '', '', '', ';q=1', ';0.5', ';0.5;2', ';w=2.5', ';tag=x', ';q=-1;mass=72', ';w=3;q=1', ';1;w=2']


def rand_name(rng, annotate=True, names=NAMES):
    return rng.choice(names) + (rng.choice(ANNOTS) if annotate else '')


def rand_sym(rng, p=0.35):
    return rng.choice(SYMS) if rng.random() < p else None


def rand_count(rng, hi=4, p_big=0.08):
    if rng.random() < p_big:
        return str(rng.randint(10, 12))
    return str(rng.randint(1 if rng.random() < 0.1 else 2, hi))


def rand_structure(rng, budget, depth_left, p_branch, p_nmult, p_bmult, annotate, names=NAMES):
    """chain with about `budget` items"""
    n = max(1, rng.randint(1, max(1, budget)) - rng.randint(0, budget // 2))
    chain = []
    left = budget - n
    for _ in range(n):
        it = item(rand_name(rng, annotate, names))
        if rng.random() < p_nmult:
            it['m'] = rand_count(rng)
        if depth_left > 1 and left > 0:
            while left > 0 and rng.random() < p_branch and len(it['br']) < 3:
                sub = rng.randint(1, left)
                left -= sub
                br = branch(rand_structure(rng, sub, depth_left - 1, p_branch, p_nmult, p_bmult, annotate, names))
                if rng.random() < p_bmult:
                    br['m'] = rand_count(rng, hi=3)
                it['br'].append(br)
        chain.append(it)
    return chain


def place_symbols(rng, chain, p=0.35, has_next=False):
    for i, it in enumerate(chain):
        last = i == len(chain) - 1
        if it['br'] or not last:
            it['b'] = rand_sym(rng, p)
        for j, br in enumerate(it['br']):
            place_symbols(rng, br['c'], p)
            lastb = j == len(it['br']) - 1
            if not (lastb and last):
                br['a'] = rand_sym(rng, p)
            if br['m'] is not None:
                br['ms'] = rand_sym(rng, p)


def _units(ast):
    """id(item) -> frozenset of multiplied units the item belongs to; id(item) -> tree neighbours"""
    units, nbrs, order = {}, {}, []

    def walk(chain, anchor, enclosing):
        prev = anchor
        for it in chain:
            order.append(it)
            u = set(enclosing)
            units[id(it)] = u
            nbrs.setdefault(id(it), set())
            if prev is not None:
                nbrs[id(it)].add(id(prev))
                nbrs[id(prev)].add(id(it))
            for j, br in enumerate(it['br']):
                mult = br['m'] is not None and int(br['m']) > 1
                if mult and j == 0:
                    u.add(id(br))
                walk(br['c'], it, set(enclosing) | ({id(br)} if mult else set()))
            prev = it
    walk(ast, None, set())
    return {k: frozenset(v) for k, v in units.items()}, nbrs, order


def rand_ast(rng, size=8, max_depth=5, rings=2, p_branch=0.45, p_nmult=0.0, p_bmult=0.0, p_sym=0.35,
             annotate=True, max_open=4, names=NAMES, rings_in_units=True):
    ast = rand_structure(rng, rng.randint(1, size), max_depth, p_branch, p_nmult, p_bmult, annotate, names)
    place_symbols(rng, ast, p_sym)
    if rings:
        _place_rings_ordered(rng, ast, rng.randint(0, rings), max_open, rings_in_units)
    assert wf(ast) is None, (wf(ast), print_ast(ast))
    return ast


def _place_rings_ordered(rng, ast, nrings, max_open, allow_in_unit):
    units, nbrs, order = _units(ast)
    idx = {id(it): k for k, it in enumerate(order)}
    cands = [it for it in order if it['m'] is None]
    pairs = []
    for _ in range(nrings * 4):
        if len(pairs) >= nrings or len(cands) < 2:
            break
        a, b = rng.sample(cands, 2)
        if idx[id(a)] > idx[id(b)]:
            a, b = b, a
        if id(b) in nbrs[id(a)] or units[id(a)] != units[id(b)] or (not allow_in_unit and units[id(a)]):
            continue
        if any((x is a and y is b) for x, y, _ in pairs):
            continue
        pairs.append((a, b, rand_sym(rng, 0.4)))
    open_ = {}                      # marker value -> (pair index, marker text)
    marker_of = {}
    for it in order:
        spec = []
        closed_here = []
        for k, (a, b, s) in enumerate(pairs):
            if b is it and k in marker_of:
                v, mk = marker_of.pop(k)
                # the closing side may be written with another spelling of the same number
                spec.append([None, mk])
                del open_[v]
                closed_here.append(v)
        for k, (a, b, s) in enumerate(pairs):
            if a is it and len(open_) < max_open:
                while True:
                    if closed_here and rng.random() < 0.5:
                        # close-then-reopen: the ring id that was just closed behind this node is used again
                        # behind the same node (two rings sharing a node), in any spelling of the number
                        v = rng.choice(closed_here)
                        mk = rng.choice([str(v)] if v > 9 else [str(v), str(v), '%0' + str(v)]) if v <= 9 else '%' + str(v)
                    elif rng.random() < 0.3:
                        v = rng.choice([rng.randint(10, 99), rng.randint(100, 130), rng.randint(0, 9)])
                        mk = '%' + (str(v) if rng.random() < 0.8 else '0' + str(v))
                    else:
                        v = rng.randint(0, 9)
                        mk = str(v)
                    if v not in open_:
                        break
                open_[v] = k
                marker_of[k] = (v, mk)
                spec.append([s, mk])
        it['r'] = spec
    return ast


# fault injection (C20 and validation of the model): returns a new AST or None
def inject_unclosed_ring(rng, ast):
    ast = copy.deepcopy(ast)
    cands = [it for it in items_in_order(ast) if it['m'] is None]
    if not cands:
        return None
    used = {marker_value(mk) for it in items_in_order(ast) for _, mk in it['r']}
    free = [v for v in range(0, 10) if v not in used]
    if not free:
        return None
    it = rng.choice(cands)
    it['r'].insert(rng.randint(0, len(it['r'])), [rand_sym(rng, 0.2), str(rng.choice(free))])
    return ast


def inject_duplicate_edge(rng, ast):
    """ring bond between two tree neighbours"""
    ast = copy.deepcopy(ast)
    units, nbrs, order = _units(ast)
    byid = {id(it): it for it in order}
    idx = {id(it): k for k, it in enumerate(order)}
    cands = [(a, byid[b]) for a in order for b in nbrs[id(a)] if idx[id(a)] < idx[b] and a['m'] is None
             and byid[b]['m'] is None and units[id(a)] == units[b]]
    if not cands:
        return None
    used = {marker_value(mk) for it in order for _, mk in it['r']}
    free = [v for v in range(0, 10) if v not in used]
    if not free:
        return None
    a, b = rng.choice(cands)
    mk = str(rng.choice(free))
    a['r'].append([rand_sym(rng, 0.2), mk])
    b['r'].insert(0, [None, mk])
    return ast


def inject_double_ring(rng, ast):
    """two ring bonds between the same pair of nodes (the second duplicates the first)"""
    ast = copy.deepcopy(ast)
    units, nbrs, order = _units(ast)
    idx = {id(it): k for k, it in enumerate(order)}
    cands = [(a, b) for a in order for b in order if idx[id(a)] < idx[id(b)] and a['m'] is None and b['m'] is None
             and units[id(a)] == units[id(b)] and id(b) not in nbrs[id(a)]]
    if not cands:
        return None
    used = {marker_value(mk) for it in order for _, mk in it['r']}
    free = [v for v in range(0, 10) if v not in used]
    if len(free) < 2:
        return None
    a, b = rng.choice(cands)
    m1, m2 = rng.sample(free, 2)
    a['r'] += [[rand_sym(rng, 0.2), str(m1)], [rand_sym(rng, 0.2), str(m2)]]
    b['r'] = [[None, str(m1)], [None, str(m2)]] + b['r']
    return ast


# --------------------------------------------------------------------------- exhaustive enumeration
def _shapes(n, depth_left, max_branches):
    """all chain shapes with exactly n items: list of chains of bare items (names filled later)"""
    if n == 0:
        return []
    out = []
    # first item takes some branches, rest of the chain follows
    for rest_n in range(0, n):
        inside = n - 1 - rest_n                      # items in the first item's branches
        for brs in _branch_sets(inside, depth_left - 1, max_branches):
            tails = _shapes(rest_n, depth_left, max_branches) if rest_n else [[]]
            for tail in tails:
                out.append([item('?', br=copy.deepcopy(brs))] + copy.deepcopy(tail))
    return out


def _branch_sets(n, depth_left, max_branches):
    """all lists of branches with n items in total"""
    if n == 0:
        return [[]]
    if depth_left <= 0 or max_branches == 0:
        return []
    out = []
    for first in range(1, n + 1):
        for c in _shapes(first, depth_left, max_branches):
            for rest in _branch_sets(n - first, depth_left, max_branches - 1):
                out.append([branch(c)] + rest)
    return out


def _sym_slots(chain, slots, with_ms):
    for i, it in enumerate(chain):
        last = i == len(chain) - 1
        if it['br'] or not last:
            slots.append((it, 'b'))
        for j, br in enumerate(it['br']):
            _sym_slots(br['c'], slots, with_ms)
            if not (j == len(it['br']) - 1 and last):
                slots.append((br, 'a'))
            if with_ms and br['m'] is not None:
                slots.append((br, 'ms'))


def enum_asts(max_nodes=3, syms=(None, '='), max_sym_slots=None, max_rings=1, markers=('1', '%10'),
              ring_syms=(None, '='), node_mults=(), branch_mults=(), max_mults=1, max_depth=3, max_branches=2, reuse=()):
    """every AST with up to max_nodes items (names A, B, C… in order of appearance), every assignment of
    `syms` to the symbol positions, up to max_rings ring bonds between non-adjacent node pairs (each
    marker spelling, each ring symbol), up to max_mults multipliers from node_mults / branch_mults.
    Only well-formed ASTs are produced."""
    for n in range(1, max_nodes + 1):
        for shape in _shapes(n, max_depth, max_branches):
            # multipliers
            for mshape in _with_mults(shape, node_mults, branch_mults, max_mults):
                for k, it in enumerate(items_in_order(mshape)):
                    it['n'] = chr(ord('A') + k)
                slots = []
                _sym_slots(mshape, slots, True)
                if max_sym_slots is not None and len(slots) > max_sym_slots:
                    choices = [c for c in itertools.product(syms, repeat=len(slots))
                               if sum(1 for x in c if x is not None) <= max_sym_slots]
                else:
                    choices = list(itertools.product(syms, repeat=len(slots)))
                for ch in choices:
                    for (obj, key), s in zip(slots, ch):
                        obj[key] = s
                    for ringed in _with_rings(mshape, max_rings, markers, ring_syms, reuse):
                        if wf(ringed) is None:
                            yield ringed


def _with_mults(shape, node_mults, branch_mults, max_mults):
    pos = [(it, 'm') for it in items_in_order(shape)] if node_mults else []
    bpos = [(br, 'm') for it in items_in_order(shape) for br in it['br']] if branch_mults else []
    allpos = [(o, k, node_mults) for o, k in pos] + [(o, k, branch_mults) for o, k in bpos]
    yield copy.deepcopy(shape)
    for r in range(1, max_mults + 1):
        for combo in itertools.combinations(range(len(allpos)), r):
            for vals in itertools.product(*[allpos[c][2] for c in combo]):
                for c, v in zip(combo, vals):
                    allpos[c][0]['m'] = v
                yield copy.deepcopy(shape)
                for c in combo:
                    allpos[c][0]['m'] = None


def _with_rings(ast, max_rings, markers, ring_syms, reuse=()):
    yield copy.deepcopy(ast)
    if max_rings < 1 and not reuse:
        return
    units, nbrs, order = _units(ast)
    n = len(order)
    pairs = [(i, j) for i in range(n) for j in range(i + 1, n)
             if id(order[j]) not in nbrs[id(order[i])] and order[i]['m'] is None and order[j]['m'] is None
             and units[id(order[i])] == units[id(order[j])]]
    for (i, j) in (pairs if max_rings >= 1 else []):
        for mk in markers:
            for s in ring_syms:
                a = copy.deepcopy(ast)
                o = list(items_in_order(a))
                o[i]['r'].append([s, mk])
                o[j]['r'].append([None, mk])
                yield a
    for (mc, mo, mz) in reuse:
        # two rings sharing a node with the SAME ring id: closed (spelling mc) and reopened (spelling mo, every ring
        # symbol) behind the shared node, closed again with spelling mz
        for (i, j) in pairs:
            for (j2, k) in pairs:
                if j2 != j:
                    continue
                for s in ring_syms:
                    a = copy.deepcopy(ast)
                    o = list(items_in_order(a))
                    o[i]['r'].append([None, mc])
                    o[j]['r'].append([None, mc])
                    o[j]['r'].append([s, mo])
                    o[k]['r'].append([None, mz])
                    if wf(a) is None and 'error' not in denote_rings_only(a):
                        yield a
    if max_rings >= 2:
        for (p1, p2) in itertools.combinations(pairs, 2):
            for m1, m2 in itertools.permutations(markers, 2):
                a = copy.deepcopy(ast)
                o = list(items_in_order(a))
                for (i, j), mk in ((p1, m1), (p2, m2)):
                    o[i]['r'].append([None, mk])
                for (i, j), mk in ((p1, m1), (p2, m2)):
                    o[j]['r'].append([None, mk])
                # close before open on a shared node, as the reader would see them
                for it in o:
                    it['r'] = it['r']
                if wf(a) is None and 'error' not in denote_rings_only(a):
                    yield a


def denote_rings_only(a):
    b = copy.deepcopy(a)
    for it in items_in_order(b):
        it['n'] = 'A'
    return denote(b)


# --------------------------------------------------------------------------- Gallina literals
_COQ_SYM = {'.': 'SDot', '-': 'SSingle', '=': 'SDouble', '#': 'STriple', '$': 'SQuad'}


def _coq_str(t):
    for ch in t:
        if ord(ch) > 126 or ord(ch) < 32:
            raise ValueError('non printable-ASCII in literal')
    return '(S "%s")' % t.replace('"', '""')


def _coq_osym(s):
    return 'None' if s is None else '(Some %s)' % _COQ_SYM[s]


def _coq_digits(d):
    return '[' + '; '.join('%d%%nat' % int(c) for c in d) + ']'


def _coq_marker(mk):
    return '(MPct %s)' % _coq_digits(mk[1:]) if mk[0] == '%' else '(MDigit %d%%nat)' % int(mk)


def coq_chain(chain):
    return '[' + '; '.join(coq_item(it) for it in chain) + ']'


def coq_item(it):
    rings = '[' + '; '.join('(%s, %s)' % (_coq_osym(s), _coq_marker(mk)) for s, mk in it['r']) + ']'
    mult = 'None' if it['m'] is None else '(Some %s)' % _coq_digits(it['m'])
    brs = '[' + '; '.join(coq_branch(b) for b in it['br']) + ']'
    return '(Item %s %s %s %s %s)' % (_coq_str(it['n']), rings, mult, _coq_osym(it['b']), brs)


def coq_branch(br):
    bm = 'None' if br['m'] is None else '(Some (%s, %s))' % (_coq_osym(br['ms']), _coq_digits(br['m']))
    return '(Branch %s %s %s)' % (coq_chain(br['c']), bm, _coq_osym(br['a']))


def coq_ast(ast):
    return coq_chain(ast)


if __name__ == '__main__':
    import random
    import sys
    rng = random.Random(int(sys.argv[1]) if len(sys.argv) > 1 else 0)
    for _ in range(10):
        a = rand_ast(rng, p_nmult=0.15, p_bmult=0.2)
        print(print_ast(a), '   =>   ', print_ast(expand(a)))
    print(sum(1 for _ in enum_asts(3)), 'ASTs with <= 3 nodes')
