#!/bin/sh
# reconfirm_seed.sh <seed-id> [ported.diff] : confirm a seed against /repo's CURRENT HEAD (after fix: commits);
# with a ported diff, keep the original as patch.orig.diff and install the port as patch.diff when confirmed
id="$1"; port="$2"; dir=/verif/seeded/$id
[ -n "$port" ] && port=$(realpath "$port")
patch=${port:-$dir/patch.diff}
wt=$(mktemp -d /tmp/reconfirm.XXXXXX); rmdir "$wt"
git -C /repo worktree add --detach "$wt" HEAD >/dev/null 2>&1 || { echo "worktree failed"; exit 2; }
run_demo() { (cd "$wt" && PBR_VERSION=0.0.0 PYTHONPATH="$wt" timeout 900 /venv/bin/python "$dir/demo.py" >/dev/null 2>&1; echo $?); }
clean_rc=$(run_demo)
if ! (cd "$wt" && git apply "$patch" 2>/dev/null); then echo "$id: patch does not apply to HEAD"; git -C /repo worktree remove --force "$wt"; exit 3; fi
tests=$(cd "$wt" && PBR_VERSION=0.0.0 timeout 900 /venv/bin/python -m pytest -q -p no:cacheprovider 2>&1 | tail -1)
mut_rc=$(run_demo)
git -C /repo worktree remove --force "$wt"
head=$(git -C /repo rev-parse --short HEAD)
echo "$id: HEAD=$head demo_on_clean_rc=$clean_rc tests='$tests' demo_with_change_rc=$mut_rc"
case "$tests" in *"150 passed"*) t_ok=1;; *) t_ok=0;; esac
if [ "$clean_rc" = 0 ] && [ "$mut_rc" != 0 ] && [ "$t_ok" = 1 ]; then
  if [ -n "$port" ]; then [ -f $dir/patch.orig.diff ] || cp $dir/patch.diff $dir/patch.orig.diff; cp "$port" $dir/patch.diff; fi
  /venv/bin/python - "$dir/meta.json" "$head" "$tests" "${port:+ported}" <<'PY'
import json,sys
p=sys.argv[1]; m=json.load(open(p))
m['reconfirmed_on_repaired_tree']={'repo_head':sys.argv[2],'demo_on_unmodified_code':'exit 0','test_suite_with_change':sys.argv[3],'demo_with_change':'exit non-zero','patch':'ported to the repaired tree (original kept as patch.orig.diff)' if sys.argv[4] else 'original patch applies unchanged'}
json.dump(m,open(p,'w'),indent=1)
PY
  echo "  CONFIRMED"
else echo "  REJECTED"; fi
