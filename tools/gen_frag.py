"""gen plug-in of the fragment-text component (C13, text level of C01).

Target SmilesGen (theories/Gen/SmilesGen.v), regenerated on every run from the SOURCE TEXT of the
installed pysmiles (ast only, nothing imported, fail closed):
  * from pysmiles/read_smiles.py, `_tokenize`: the organic-subset list, the bond-symbol string and
    the stereo string of the two `char in '<constant>'` tests;
  * from `read_smiles`: bond_to_order, default_bond, default_aromatic_bond;
  * from pysmiles/smiles_helper.py: the six pattern strings of ATOM_PATTERN must be EXACTLY the texts
    the hand-written regular expression of theories/Frag/SmilesParse.v transcribes (otherwise the
    target fails), and the `defaults` dict of parse_atom.
The logic of _tokenize / base_smiles_parser / parse_atom is hand-modelled and tied by the per-run
correspondence stream of tools/props/c13.py.
"""
import ast
import glob
import json
import os
import subprocess
import sys

import py2v
from py2v import Unsupported, coq_str

import gen  # noqa: E402


def _target(name, sources):
    mods = [gen]
    main_mod = sys.modules.get('__main__')
    if main_mod is not None and main_mod is not gen and hasattr(main_mod, 'TARGETS') and hasattr(main_mod, 'target'):
        mods.append(main_mod)

    def deco(f):
        for m in mods:
            m.TARGETS[name] = (sources, f)
        return f
    return deco


EXPECTED_PATTERNS = {
    'ISOTOPE_PATTERN': r'(?P<isotope>[\d]+)?',
    'ELEMENT_PATTERN': r'(?P<element>b|c|n|o|s|p|as|se|\*|[A-Z][a-z]{0,2})',
    'STEREO_PATTERN': r'(?P<rs_isomer>@|@@|@TH[1-2]|@AL[1-2]|@SP[1-3]|@OH[\d]{1,2}|' r'@TB[\d]{1,2})?',
    'HCOUNT_PATTERN': r'(?P<hcount>H[\d]?)?',
    'CHARGE_PATTERN': r'(?P<charge>(-|\+)(\++|-+|[\d]{1,2})?)?',
    'CLASS_PATTERN': r'(?::(?P<class>[\d]+))?',
}
EXPECTED_ATOM_PATTERN = ("re.compile('^\\\\[' + ISOTOPE_PATTERN + ELEMENT_PATTERN + STEREO_PATTERN + HCOUNT_PATTERN + "
                         "CHARGE_PATTERN + CLASS_PATTERN + '\\\\]$')")


def pysmiles_dir():
    cands = []
    try:
        import importlib.util
        spec = importlib.util.find_spec('pysmiles')
        if spec is not None and spec.submodule_search_locations:
            cands.append(list(spec.submodule_search_locations)[0])
    except (ImportError, ValueError):
        pass
    cands += sorted(glob.glob('/venv/lib/python*/site-packages/pysmiles'))
    for c in cands:
        if os.path.exists(os.path.join(c, 'read_smiles.py')):
            return c
    raise Unsupported('the installed pysmiles was not found')


def const_str(node, what):
    """string constant, possibly an implicit concatenation already folded by the parser"""
    if isinstance(node, ast.Constant) and isinstance(node.value, str):
        return node.value
    raise Unsupported('%s is not a string constant' % what)


ORGANIC_ELEMENTS = ['B', 'C', 'N', 'O', 'P', 'S', 'F', 'Cl', 'Br', 'I']
_PROBE = ("import json\nfrom pysmiles.smiles_helper import valence\n"
          "print(json.dumps([[e, valence({'element': e, 'charge': 0})] for e in %r]))\n")


def probe_valence():
    """valence() of the installed pysmiles for the neutral organic-subset elements (the only atoms
    read_smiles leaves without an explicit hcount), obtained by CALLING the library"""
    try:
        import pysmiles  # noqa: F401
        exe = sys.executable
    except ImportError:
        exe = '/venv/bin/python'
    try:
        p = subprocess.run([exe, '-W', 'ignore', '-c', _PROBE % (ORGANIC_ELEMENTS,)], stdout=subprocess.PIPE,
                           stderr=subprocess.PIPE, text=True, timeout=120)
    except (OSError, subprocess.TimeoutExpired) as exc:
        raise Unsupported('cannot run the installed pysmiles: %s' % exc)
    line = [l for l in p.stdout.splitlines() if l.startswith('[')]
    if p.returncode != 0 or not line:
        raise Unsupported('probing pysmiles.valence failed: %s' % p.stderr[-300:])
    rows = json.loads(line[-1])
    for e, v in rows:
        if not (isinstance(v, list) and v and all(isinstance(x, int) and not isinstance(x, bool) and x >= 0 for x in v)):
            raise Unsupported('valence(%s) is not a non-empty list of naturals: %r' % (e, v))
    return rows


@_target('SmilesGen', [])
def gen_smiles(trees):
    d = pysmiles_dir()
    rs = ast.parse(open(os.path.join(d, 'read_smiles.py')).read())
    sh = ast.parse(open(os.path.join(d, 'smiles_helper.py')).read())
    out = ''
    # ------------------------------------------------------------------ _tokenize
    tk = py2v.find_function(rs, '_tokenize')
    org = [n for n in ast.walk(tk) if isinstance(n, ast.Assign) and isinstance(n.targets[0], ast.Name)
           and n.targets[0].id == 'organic_subset']
    if len(org) != 1 or ast.unparse(org[0].value).count('.split()') != 1 or not isinstance(org[0].value, ast.Call) \
            or not isinstance(org[0].value.func, ast.Attribute) or org[0].value.args:
        raise Unsupported('organic_subset is not "<constant>".split()')
    subset = const_str(org[0].value.func.value, 'organic_subset').split()
    out += 'Definition smiles_organic_subset : list pystr := [%s].\n' % '; '.join(coq_str(x) for x in subset)
    consts = sorted([n for n in ast.walk(tk) if isinstance(n, ast.Compare) and len(n.ops) == 1
                     and isinstance(n.ops[0], ast.In) and isinstance(n.comparators[0], ast.Constant)
                     and isinstance(n.comparators[0].value, str)], key=lambda n: n.lineno)
    if len(consts) != 2:
        raise Unsupported('expected two `char in "<constant>"` tests in _tokenize')
    out += 'Definition smiles_bond_chars : pystr := %s.\n' % coq_str(consts[0].comparators[0].value)
    out += 'Definition smiles_ez_chars : pystr := %s.\n' % coq_str(consts[1].comparators[0].value)
    # the order of the if/elif chain the model transcribes
    chain = []
    for n in ast.walk(tk):
        if isinstance(n, ast.While):
            for st in n.body:
                if isinstance(st, ast.If) and ast.unparse(st.test) == "char == '['":
                    cur = st
                    while True:
                        chain.append(ast.unparse(cur.test))
                        if len(cur.orelse) == 1 and isinstance(cur.orelse[0], ast.If):
                            cur = cur.orelse[0]
                        else:
                            break
    want = ["char == '['", 'char in organic_subset', "char in '-=#$:.'", "char == '('", "char == ')'", "char == '%'",
            "char in '/\\\\'", 'char.isdigit()']
    if chain != want:
        raise Unsupported('the if/elif chain of _tokenize changed: %r' % (chain,))
    # ------------------------------------------------------------------ read_smiles
    rd = py2v.find_function(rs, 'read_smiles')
    out += py2v.table_def('smiles_bond_to_order', py2v.find_dict(rd, 'bond_to_order'), 'str', 'num')
    for name in ('default_bond', 'default_aromatic_bond'):
        a = [n for n in ast.walk(rd) if isinstance(n, ast.Assign) and isinstance(n.targets[0], ast.Name)
             and n.targets[0].id == name]
        if len(a) != 1 or not isinstance(a[0].value, ast.Constant) or isinstance(a[0].value.value, bool) \
                or not isinstance(a[0].value.value, (int, float)):
            raise Unsupported('%s is not a numeric constant' % name)
        v = a[0].value.value
        out += 'Definition smiles_%s : pyval := %s.\n' % (
            name, '(VInt (%d)%%Z)' % v if isinstance(v, int) else '(VFlt %s)' % coq_str(repr(v)))
    # ------------------------------------------------------------------ smiles_helper: patterns, defaults
    for name, text in EXPECTED_PATTERNS.items():
        a = [n for n in sh.body if isinstance(n, ast.Assign) and isinstance(n.targets[0], ast.Name)
             and n.targets[0].id == name]
        if len(a) != 1 or const_str(a[0].value, name) != text:
            raise Unsupported('%s is not the regular expression transcribed in Frag/SmilesParse.v' % name)
    a = [n for n in sh.body if isinstance(n, ast.Assign) and isinstance(n.targets[0], ast.Name)
         and n.targets[0].id == 'ATOM_PATTERN']
    if len(a) != 1 or ast.unparse(a[0].value) != EXPECTED_ATOM_PATTERN:
        raise Unsupported('ATOM_PATTERN is not assembled as transcribed: %s' % (ast.unparse(a[0].value) if a else None))
    pa = py2v.find_function(sh, 'parse_atom')
    dflt = py2v.find_dict(pa, 'defaults')
    if dflt != [('charge', 0), ('hcount', 0), ('aromatic', False)]:
        raise Unsupported('parse_atom defaults changed: %r' % (dflt,))
    out += ('Definition smiles_atom_defaults : attrs := [((S "charge"), (VInt (0)%Z)); ((S "hcount"), (VInt (0)%Z)); '
            '((S "aromatic"), (VBool false))].\n')
    out += 'Definition smiles_atom_pattern_checked : bool := true.\n'
    # ------------------------------------------------------------------ valences (called, not parsed)
    rows = probe_valence()
    out += 'Definition smiles_valence : list (pystr * list Z) := [%s].\n' % '; '.join(
        '(%s, [%s])' % (coq_str(e), '; '.join('(%d)%%Z' % x for x in v)) for e, v in rows)
    # fill_valence / bonds_missing: the two expressions the model transcribes
    fv = py2v.find_function(sh, 'fill_valence')
    bm = py2v.find_function(sh, 'bonds_missing')
    src_fv, src_bm = ast.unparse(fv), ast.unparse(bm)
    for needle, where in (("if 'hcount' in node and respect_hcount or node.get('element') == 'H':", src_fv),
                          ("missing = max(bonds_missing(mol, n_idx), 0)", src_fv),
                          ("node['hcount'] = node.get('hcount', 0) + missing", src_fv),
                          ("val = [v for v in val if v >= bonds] or val[-1:]", src_bm),
                          ("return int(val[0] - bonds)", src_bm)):
        if needle not in where:
            raise Unsupported('fill_valence / bonds_missing changed: %r not found' % needle)
    return out
