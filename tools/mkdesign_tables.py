#!/usr/bin/env python3
"""fill the generated tables of DESIGN.md (between <!-- BEGIN:x --> / <!-- END:x --> markers) from
known_findings.json, /repo's fix: commits and seeded/*/meta.json"""
import glob
import json
import os
import re
import subprocess

V = '/verif'


def findings_table():
    kf = json.load(open(V + '/known_findings.json'))
    log = subprocess.run("git -C /repo log --format='%h %s' --grep='^fix:'", shell=True, capture_output=True, text=True).stdout
    fixes = [l.split(' ', 1) for l in log.strip().splitlines()]
    out = ['### 11.1 Repaired in /repo (`fix:` commits, oldest last)\n', '| commit | repair |', '|---|---|']
    for h, s in fixes:
        out.append('| %s | %s |' % (h, s.replace('|', '/')))
    out += ['', '### 11.2 `fixed:` entries of known_findings.json (witness stays in the corpus; suppresses nothing)\n',
            '| property | class | commit | witness |', '|---|---|---|---|']
    for e in kf['fixed']:
        out.append('| %s | %s | %s | `%s` |' % (e['property'], e.get('class', ''), e.get('commit', ''),
                                               json.dumps(e.get('witness'))[:110].replace('|', '/')))
    out += ['', '### 11.3 Open known findings (reported as KNOWN-FINDING on every run, exit 0)\n',
            '| property | class | what fails | witness |', '|---|---|---|---|']
    for e in kf['findings']:
        out.append('| %s | %s | %s | `%s` |' % (e['property'], e.get('class', ''), (e.get('what') or '')[:230].replace('|', '/'),
                                               json.dumps(e.get('witness'))[:90].replace('|', '/')))
    return '\n'.join(out) + '\n'


def seeds_table():
    rows = ['| seed | what the change does / needs | own check on /repo itself | own check, final tree, VERIF_SEED=1 | caught with a failing input by | caught without input by | not caught by | note |',
            '|---|---|---|---|---|---|---|---|']
    n = caught = weak = missed = own_in = own_weak = own_silent = 0
    f_in = f_weak = f_silent = f_err = 0
    for mp in sorted(glob.glob(V + '/seeded/C*-*/meta.json')):
        sid = os.path.basename(os.path.dirname(mp))
        m = json.load(open(mp))
        det = m.get('detected_by', {}).get('checks', {})
        c = [p for p, r in det.items() if isinstance(r, dict) and r.get('violation') and not r.get('no_failing_input_found')]
        w = [p for p, r in det.items() if isinstance(r, dict) and r.get('violation') and r.get('no_failing_input_found')]
        s = [p for p, r in det.items() if isinstance(r, dict) and not r.get('violation')]
        note = 'superseded by a fix' if m.get('status', '').startswith('superseded') else ''
        if 'port_note' in m or m.get('reconfirmed_on_repaired_tree', {}).get('patch', '').startswith('ported'):
            note = (note + '; ' if note else '') + 'ported to the repaired tree'
        summ = ((m.get('summary') or '') + ' NEEDS: ' + (m.get('what_it_needs_to_manifest') or '')).replace('\n', ' ').replace('|', '/')[:260]
        ori = m.get('on_repo_itself') or {}
        if not ori:
            own = '(not run)'
        elif ori.get('error'):
            own = 'patch does not apply'
        elif ori.get('violation') and not ori.get('no_failing_input_found'):
            own = 'VIOLATION with input'
        elif ori.get('violation'):
            own = 'VIOLATION, no input'
        else:
            own = 'silent'
        fin = (m.get('detected_by_seed1') or {}).get('checks', {})
        fr = fin.get(sid.split('-')[0])
        if '_error' in fin:
            final = 'patch does not apply'
        elif not isinstance(fr, dict):
            final = '(not run)'
        elif fr.get('violation') and not fr.get('no_failing_input_found'):
            final = 'VIOLATION with input'
        elif fr.get('violation'):
            final = 'VIOLATION, no input'
        else:
            final = 'silent'
        rows.append('| %s | %s | %s | %s | %s | %s | %s | %s |' % (sid, summ, own, final, ', '.join(c) or '—', ', '.join(w) or '—', ', '.join(s) or '—', note))
        if not note.startswith('superseded'):
            f_in += final == 'VIOLATION with input'
            f_weak += final == 'VIOLATION, no input'
            f_silent += final == 'silent'
            f_err += final == 'patch does not apply'
            own_in += own == 'VIOLATION with input'
            own_weak += own == 'VIOLATION, no input'
            own_silent += own == 'silent'
            n += 1
            caught += bool(c)
            weak += bool(w and not c)
            missed += not (c or w)
    head = ('%d live seeded changes. Scratch-copy runs (own property and the properties anchored in the touched files): %d caught '
            'with a concrete failing input by at least one check, %d only as "no-failing-input-found", %d not caught. Own property\'s '
            'check with the patch applied to /repo itself (tools/run_repo_seeds.py): %d VIOLATION with a failing input, %d VIOLATION '
            'without input, %d silent (run for rounds 8-10, ids -9 ... -11). FINAL TREE, every change, own property, VERIF_SEED=1 (the seed '
            '`vp check` uses; scratch copies): %d VIOLATION with a failing input, %d VIOLATION without input, %d silent, %d not '
            'applicable any more.\n\n' % (n, caught, weak, missed, own_in, own_weak, own_silent, f_in, f_weak, f_silent, f_err))
    return head + '\n'.join(rows) + '\n'


def main():
    p = V + '/DESIGN.md'
    s = open(p).read()
    for name, fn in (('findings', findings_table), ('seeds', seeds_table)):
        a, b = '<!-- BEGIN:%s -->' % name, '<!-- END:%s -->' % name
        if a in s and b in s:
            s = s[:s.index(a) + len(a)] + '\n' + fn() + s[s.index(b):]
    open(p, 'w').write(s)


if __name__ == '__main__':
    main()
