"""Operation-sequence correspondence stream for theories/Base/NxGraph.v against networkx."""
import networkx as nx

import lit
from props import _resolver as RS

ATTRS = ['fragid', 'order', 'x', 'name']


def rand_val(rng):
    r = rng.random()
    if r < 0.3:
        return rng.randint(0, 4)
    if r < 0.5:
        return [rng.randint(0, 3) for _ in range(rng.randint(1, 2))]
    if r < 0.7:
        return rng.choice(['A', 'B', 'C1'])
    if r < 0.8:
        return rng.choice([1.5, 0.0, 2.0])
    if r < 0.9:
        return (rng.randint(0, 3), rng.choice(['a', 'b']))
    return rng.choice([None, True, False])


def rand_attrs(rng):
    return {k: rand_val(rng) for k in rng.sample(ATTRS, rng.randint(0, 2))}


def rand_case(rng):
    """a list of operations, valid for the evolving graph (the harness tracks it while generating)"""
    G = nx.Graph()
    ops = []
    nmax = rng.randint(3, 8)
    for _ in range(rng.randint(4, 22)):
        nodes = list(G.nodes)
        r = rng.random()
        if r < 0.22 or len(nodes) < 2:
            k = rng.randint(0, nmax + 3)
            a = rand_attrs(rng)
            ops.append(['add_node', k, RS.enc_attrs(a)])
            G.add_node(k, **a)
        elif r < 0.50:
            u = rng.choice(nodes) if rng.random() < 0.85 else rng.randint(0, nmax + 3)
            v = rng.choice(nodes) if rng.random() < 0.85 else rng.randint(0, nmax + 3)
            if u == v and rng.random() < 0.8:
                continue
            a = rand_attrs(rng)
            ops.append(['add_edge', u, v, RS.enc_attrs(a)])
            G.add_edge(u, v, **a)
        elif r < 0.58:
            k = rng.choice(nodes)
            ops.append(['remove_node', k])
            G.remove_node(k)
        elif r < 0.63 and G.number_of_edges():
            u, v = rng.choice(list(G.edges))
            if rng.random() < 0.5:
                u, v = v, u
            ops.append(['remove_edge', u, v])
            G.remove_edge(u, v)
        elif r < 0.68:
            ops.append(['copy'])
            G = G.copy()
        elif r < 0.80:
            # injective relabelling: a permutation of a subset, or onto fresh keys, or sorted-rank style
            sub = rng.sample(nodes, rng.randint(1, len(nodes)))
            style = rng.random()
            if style < 0.4:
                tgt = sub[:]
                rng.shuffle(tgt)
            elif style < 0.7:
                tgt = list(range(50, 50 + len(sub)))
            else:
                sub = nodes[:]
                rng.shuffle(sub)
                tgt = list(range(len(sub)))
            m = dict(zip(sub, tgt))
            rest = set(nodes) - set(sub)
            if len(set(m.values()) | rest) != len(nodes):
                continue
            ops.append(['relabel', [[a, b] for a, b in m.items()]])
            G = nx.relabel_nodes(G, m, copy=True)
        elif r < 0.88:
            u, v = rng.sample(nodes, 2)
            if any(a == b for a, b in G.edges):     # self loops: contracted_nodes corner cases are outside the use
                continue
            ops.append(['contract', u, v])
            G = nx.contracted_nodes(G, u, v, self_loops=False)
            for n in G.nodes:
                G.nodes[n].pop('contraction', None)
            for a, b in G.edges:
                G.edges[a, b].pop('contraction', None)
        elif r < 0.93:
            k = rng.choice(nodes)
            a = rng.choice(ATTRS)
            val = rand_val(rng)
            ops.append(['set_node', k, a, RS.enc_val(val)])
            G.nodes[k][a] = val
        elif r < 0.96:
            a = rng.choice(ATTRS)
            val = rand_val(rng)
            ops.append(['set_all', a, RS.enc_val(val)])
            nx.set_node_attributes(G, val, a)
        else:
            a = rng.choice(ATTRS)
            d = {rng.randint(0, nmax + 3): rand_val(rng) for _ in range(rng.randint(1, 3))}
            ops.append(['set_from', a, [[k, RS.enc_val(v)] for k, v in d.items()]])
            nx.set_node_attributes(G, d, a)
    return {'kind': 'nx', 'ops': ops, 'attr': rng.choice(ATTRS)}


def run(case):
    G = nx.Graph()
    try:
        for op in case['ops']:
            name = op[0]
            if name == 'add_node':
                G.add_node(op[1], **{k: RS.dec_val(v) for k, v in op[2]})
            elif name == 'add_edge':
                G.add_edge(op[1], op[2], **{k: RS.dec_val(v) for k, v in op[3]})
            elif name == 'remove_node':
                G.remove_node(op[1])
            elif name == 'remove_edge':
                G.remove_edge(op[1], op[2])
            elif name == 'copy':
                G = G.copy()
            elif name == 'relabel':
                G = nx.relabel_nodes(G, {a: b for a, b in op[1]}, copy=True)
            elif name == 'contract':
                G = nx.contracted_nodes(G, op[1], op[2], self_loops=False)
                for n in G.nodes:
                    G.nodes[n].pop('contraction', None)
                for a, b in G.edges:
                    G.edges[a, b].pop('contraction', None)
            elif name == 'set_node':
                G.nodes[op[1]][op[2]] = RS.dec_val(op[3])
            elif name == 'set_all':
                nx.set_node_attributes(G, RS.dec_val(op[2]), op[1])
            elif name == 'set_from':
                nx.set_node_attributes(G, {k: RS.dec_val(v) for k, v in op[2]}, op[1])
            else:
                raise ValueError(name)
    except Exception as exc:                  # noqa: BLE001
        return {'exc': type(exc).__name__}
    return {'final': RS.enc_graph(G, skip=()), 'edges': [[u, v] for u, v in G.edges],
            'get': [[k, RS.enc_val(v)] for k, v in nx.get_node_attributes(G, case['attr']).items()]}


def coq_case(case, impl):
    tab = RS.Tab()
    tab.s = lambda text: lit.s(text)          # no sharing needed: the terms are small

    def at(a):
        return lit.lst([lit.pair(lit.s(k), tab.val(v)) for k, v in a])
    ops = []
    for op in case['ops']:
        name = op[0]
        if name == 'add_node':
            ops.append('OAddNode %s %s' % (lit.z(op[1]), at(op[2])))
        elif name == 'add_edge':
            ops.append('OAddEdge %s %s %s' % (lit.z(op[1]), lit.z(op[2]), at(op[3])))
        elif name == 'remove_node':
            ops.append('ORemoveNode %s' % lit.z(op[1]))
        elif name == 'remove_edge':
            ops.append('ORemoveEdge %s %s' % (lit.z(op[1]), lit.z(op[2])))
        elif name == 'copy':
            ops.append('OCopy')
        elif name == 'relabel':
            ops.append('ORelabel %s' % lit.lst([lit.pair(lit.z(a), lit.z(b)) for a, b in op[1]]))
        elif name == 'contract':
            ops.append('OContract %s %s' % (lit.z(op[1]), lit.z(op[2])))
        elif name == 'set_node':
            ops.append('OSetNode %s %s %s' % (lit.z(op[1]), lit.s(op[2]), tab.val(op[3])))
        elif name == 'set_all':
            ops.append('OSetAll %s %s' % (lit.s(op[1]), tab.val(op[2])))
        elif name == 'set_from':
            ops.append('OSetFrom %s %s' % (lit.s(op[1]), lit.lst([lit.pair(lit.z(k), tab.val(v)) for k, v in op[2]])))
    if 'exc' in impl:
        fin, edges, get = 'None', '[]', '[]'
    else:
        fin = '(Some %s)' % lit.lst(['{| nk := %s; na := %s; nadj := %s |}'
                                     % (lit.z(n), at(a), lit.lst([lit.pair(lit.z(w), at(ea)) for w, ea in adj]))
                                     for n, a, adj in impl['final']])
        edges = lit.lst([lit.pair(lit.z(u), lit.z(v)) for u, v in impl['edges']])
        get = lit.lst([lit.pair(lit.z(k), tab.val(v)) for k, v in impl['get']])
    return ('{| nx_ops := %s; nx_final := %s; nx_edges := %s; nx_attr := %s; nx_get := %s |}'
            % (lit.lst(ops), fin, edges, lit.s(case['attr']), get))
