"""C01 — cutting a molecule into fragments and resolving gives the molecule back.
Proved part: the bonding step (Resolve/CutBonding.v, re-checked against the regenerated
`compatible`); per run the hypothesis of that theorem is tested on the tables the implementation
built (`dedicated_b`) and the bonds it created are compared with the cut pairs (Coq, `cut_fail`).
Search part (never a proof): the end-to-end result is compared with the generator's molecule
(element, charge, bond orders, hydrogen counts) and with resolving the uncut molecule."""
import contextlib
import io
import re

import networkx as nx

import common
import lit
import molgen
from props.c03 import C03, RecGraph, tables
import copy


def _mol(atoms, bonds):
    m = nx.Graph()
    for i, (el, ch, ar) in enumerate(atoms):
        m.add_node(i, element=el, charge=ch, aromatic=ar)
    for a, b, o in bonds:
        m.add_edge(a, b, order=o)
    return molgen.mol_dump(m)


class C01(C03):
    id = 'C01'
    level = 'proof'
    technique = ('Coq proof of the bonding step (unique labels force exactly the cut bonds; on the regenerated '
                 '`compatible`), its hypothesis tested and its conclusion compared on the implementation per run; '
                 'end-to-end molecule equality decided by a generated search (molecule x partition x rendering)')
    vo_deps = ['theories/Resolve/CutCheck.vo']
    prop_file = 'theories/Properties/C01.v'
    case_requires = ('From Coq Require Import String.\nFrom Coq Require Import List Ascii ZArith Bool.\n'
                     'From CGV Require Import Base.PyBase Base.PyVal Resolve.Bonding Resolve.BondingCheck Resolve.CutCheck.')
    case_type = 'cut_case'
    corr_fn = 'cut_corr'
    fail_fn = 'cut_fail_judged'
    quick_cases = 350
    thorough_cases = 6000
    extended_cases = 2500
    fail_text = {2: 'the bonds created for a base edge are not exactly the cut bonds',
                 9: 'implementation raised an unexpected exception in the bonding step',
                 201: 'bonding step: a bond joins fragments of coarse nodes that are not joined by a base-graph edge',
                 202: 'bonding step: more bonds than the base edge order',
                 203: 'bonding step: bonded descriptor pair is not compatible',
                 204: 'bonding step: wrong bond order',
                 205: 'bonding step: a descriptor was used for more bonds than it was written',
                 206: 'bonding step: fewer bonds than the edge order although a compatible pair was left',
                 209: 'bonding step: the implementation raised an unexpected exception',
                 101: 'resolved molecule differs from the original molecule (elements, charges, bond orders, H counts)',
                 102: 'resolving the uncut molecule as a single fragment differs from the original molecule',
                 103: 'resolver raised an exception on a valid cut string'}

    def corpus(self, ctx):
        cyclopropene_me = _mol([('C', 0, False)] * 4, [(0, 1, 1), (0, 2, 1), (2, 3, 1), (3, 0, 2)])
        toluene = _mol([('C', 0, False)] + [('C', 0, True)] * 6,
                       [(0, 1, 1)] + [(1 + i, 1 + (i + 1) % 6, 1.5) for i in range(6)])
        return [
            # descriptor after a ring digit that carries a ring-bond symbol (DESIGN 5 row 12)
            {'s': '{[#A][#B]}.{#A=C=1[$a]CC1,#B=[$a]C}', 'single': '{[#M]}.{#M=C=1(C)CC1}', 'mol': cyclopropene_me,
             'cutinfo': {'0-1': [[0, '$a1', 3, '$a1']]}},
            {'s': '{[#A][#B]}.{#A=C[$a]=1CC1,#B=[$a]C}', 'single': '{[#M]}.{#M=C=1(C)CC1}', 'mol': cyclopropene_me,
             'cutinfo': {'0-1': [[0, '$a1', 3, '$a1']]}},
            # aromatic rings written as Kekule structures in every fragment (no lower-case atom anywhere)
            {'s': '{[#A][#B]}.{#A=C1=CC=CC=C1[$a],#B=[$a]C}', 'single': '{[#M]}.{#M=Cc1ccccc1}', 'mol': toluene, 'kekule': True},
            {'s': '{[#A]=[#B]}.{#A=[$a]C=CC=[$b],#B=[$a]C(C)=CC=[$b]}', 'single': '{[#M]}.{#M=CC1=CC=CC=C1}', 'mol': toluene, 'kekule': True},
            {'s': '{[#B]=[#A]}.{#A=[$a]=CC=C[$b],#B=[$a]=C(C)C=C[$b]}', 'single': '{[#M]}.{#M=Cc1ccccc1}', 'mol': toluene, 'kekule': True},
        ]

    def generate(self, ctx, n):
        out = []
        while len(out) < n:
            c = molgen.cut_case(ctx.rng, nmax=ctx.rng.choice([4, 7, 9, 12]), kmax=ctx.rng.choice([2, 3, 4, 5]))
            if c is not None:
                out.append(c)
        return out

    def describe(self, case):
        return {k: case[k] for k in ('s', 'single', 'mol')}

    def run_impl(self, case):
        from cgsmiles.resolve import MoleculeResolver
        case = dict(case)
        case.setdefault('legacy', True)
        case['aa'] = True
        out = C03.run_impl(self, case)
        res = {'bonding': out}
        exp = molgen.expected_graph(case['mol'])
        for key in ('s', 'single'):
            try:
                _, g = MoleculeResolver.from_string(case[key]).resolve_all()
                res[key] = bool(molgen.same_molecule(molgen.heavy_graph_of_result(g), exp))
            except Exception as exc:
                res[key] = 'EXC %s: %s' % (type(exc).__name__, str(exc)[:80])
        # cut pairs per base edge in the coordinates of the bonding step (for dedicated_b / cut_fail)
        res['cuts'] = self._cut_pairs(case)
        return res

    def _cut_pairs(self, case):
        """[(a, b, [(u, d, v, t)])] with a,b coarse keys as the base graph numbers them and u,v the
        fine keys at bonding time; None when the generator did not record the cut geometry"""
        return case.get('cutinfo')

    def python_oracle(self, case, impl):
        # only used when the Coq side cannot be built: the C03 clauses on the bonding step
        code = C03.python_oracle(self, dict(case, legacy=case.get('legacy', True)), impl['bonding'])
        return 200 + code if code else 0

    def extra_fail(self, case, impl):
        if impl['s'] is True and impl['single'] is True:
            return 0
        if impl['single'] is not True:
            return 102 if impl['single'] is False else 103
        return 101 if impl['s'] is False else 103

    def nontrivial(self, case, impl):
        return case.get('ncuts', 1) >= 1

    def case_class(self, case, impl):
        s = case['s']
        tags = []
        tags.append('cuts=%d' % min(case.get('ncuts', 1), 5))
        if re.search(r'[=#]%?\d+\[[$<>]', s):
            tags.append('ringbond-symbol+descriptor')
        if re.search(r'[a-z]\d*\[[$<>]', s.split('.', 1)[1]):
            tags.append('aromatic-cut')
        if '+]' in s or '-]' in s:
            tags.append('charged')
        if case.get('kekule'):
            tags.append('kekule-written-ring')
        return ' '.join(tags)

    def known_class(self, case, impl, code):
        # no known finding is open for C01 (descriptor_after_symbol_ring was repaired by /repo commit
        # f3554b8; its witnesses stay in the corpus, a fixed entry suppresses nothing)
        return None

    def coq_case(self, case, impl):
        base = C03.coq_case(self, dict(case, legacy=case.get('legacy', True), aa=True), impl['bonding'])
        cuts = impl.get('cuts')
        if cuts is None or 'skip' in impl['bonding']:
            cl = '[]'
            judged = 'false'
        else:
            rows = []
            for a, b, _ in impl['bonding']['edges']:      # orientation of the implementation's edge list
                if a < b:
                    L = [(u, d, v, t) for u, d, v, t in cuts.get('%d-%d' % (a, b), [])]
                else:
                    L = [(v, t, u, d) for u, d, v, t in cuts.get('%d-%d' % (b, a), [])]
                rows.append('(%s, %s, %s)' % (lit.z(a), lit.z(b), lit.lst(
                    ['(%s, %s, %s, %s)' % (lit.z(u), lit.s(d), lit.z(v), lit.s(t)) for u, d, v, t in L])))
            cl = lit.lst(rows)
            judged = 'true'
        return '({| cc_case := %s; cc_cuts := %s |}, %s)' % (base, cl, judged)


PROP = C01()
PROP.case_type = '(cut_case * bool)'
PROP.corr_fn = '(fun c : cut_case * bool => cut_corr (fst c))'
PROP.fail_fn = ('(fun c : cut_case * bool => if snd c then match cut_fail (fst c) with 1%nat => 0%nat | n => n end else 0%nat)')
