"""C01 — cutting a molecule into fragments and resolving gives the molecule back.
Proved part: the bonding step (Resolve/CutBonding.v, re-checked against the regenerated
`compatible`); per run the hypothesis of that theorem is tested on the tables the implementation
built (`dedicated_b`) and the bonds it created are compared with the cut pairs (Coq, `cut_fail`).
Graph level (theories/Compose): for every generated cut the cut record C, the template dictionary exactly as
read_fragments returned it, the base graph exactly as read_cgsmiles returned it and the implementation's fine graph
right after edges_from_bonding_descrpt are evaluated in Coq (Compose/CutRunCheck.v): the hypotheses of
`cut_bonding_skeleton` hold of the implementation's own templates / base graph (121, 122), its conclusion holds of the
implementation's own fine graph (123), and the resolver model run on those templates and that base graph returns
exactly that fine graph (correspondence, "124").  Compose/CutRunSound.v proves what verdict 0 means.
String level (Compose/TextCutDefs.v, TextRunCheck.v): the string-level driver model of the text theorems
(C01_text_level_skeleton, C01_text_returned_iso) - find_blocks, Reader's read_cgsmiles, fragment_split, strip, pysmiles
parser model, final template, dictionary insertion, disconnected + bonding step - is run on every generated string and
compared with the implementation's base graph, template dictionary and bonded fine graph (correspondence).
Search part (never a proof): the end-to-end result is compared with the generator's molecule
(element, charge, bond orders, hydrogen counts) and with resolving the uncut molecule."""
import contextlib
import io
import re

import networkx as nx

import common
import lit
import molgen
from props.c03 import C03, RecGraph, tables, make_resolver
import copy


def _mol(atoms, bonds):
    m = nx.Graph()
    for i, (el, ch, ar) in enumerate(atoms):
        m.add_node(i, element=el, charge=ch, aromatic=ar)
    for a, b, o in bonds:
        m.add_edge(a, b, order=o)
    return molgen.mol_dump(m)


# abbreviations for the graph literals of the graph-level clause (elaborating a large literal is the cost of a case
# file; the abbreviations halve it)
_ABBR_KEYS = ['element', 'charge', 'aromatic', 'fragname', 'fragid', 'weight', 'atomname', 'hcount', '_atom_str', '_pos',
              '_bond_str', 'order', 'bonding', 'mapping']
_ABBR = [('(S "%s")' % k, 'k_%s' % k.strip('_')) for k in _ABBR_KEYS] + [
    ('(VInt (0)%Z)', 'v_0'), ('(VInt (1)%Z)', 'v_1'), ('(VInt (2)%Z)', 'v_2'), ('(VInt (3)%Z)', 'v_3'),
    ('(VBool false)', 'v_f'), ('(VBool true)', 'v_t'), ('(VStr (S "C"))', 'v_C'), ('(VStr (S "c"))', 'v_c'),
    ('(VFlt (S "1.5"))', 'v_15'), ('(VStr (S ""))', 'v_e')]
_ABBR_DEFS = ''.join('Definition %s := %s.\n' % (v, k) for k, v in _ABBR)


def _compress(text):
    for k, v in _ABBR:
        text = text.replace(k, v)
    return text


class C01(C03):
    id = 'C01'
    level = 'proof'
    technique = ('Coq proof of the bonding step (unique labels force exactly the cut bonds; on the regenerated '
                 '`compatible`), its hypothesis tested and its conclusion compared on the implementation per run; '
                 'end-to-end molecule equality decided by a generated search (molecule x partition x rendering)')
    vo_deps = ['theories/Resolve/CutCheck.vo', 'theories/Compose/CutRunCheck.vo', 'theories/Compose/TextRunCheck.vo']
    prop_file = 'theories/Properties/C01.v'
    case_requires = ('From Coq Require Import String.\nFrom Coq Require Import List Ascii ZArith Bool.\n'
                     'From CGV Require Import Base.PyBase Base.PyVal Base.NxGraph Resolve.Bonding Resolve.BondingCheck Resolve.CutCheck '
                     'Compose.CutModel Compose.CutRunCheck Compose.TextRunCheck.\nOpen Scope Z_scope.\n' + _ABBR_DEFS)
    shard = 30
    case_type = 'cut_case'
    corr_fn = 'cut_corr'
    fail_fn = 'cut_fail_judged'
    quick_cases = 350
    thorough_cases = 6000
    extended_cases = 2500
    fail_text = {2: 'the bonds created for a base edge are not exactly the cut bonds',
                 9: 'implementation raised an unexpected exception in the bonding step',
                 201: 'bonding step: a bond joins fragments of coarse nodes that are not joined by a base-graph edge',
                 202: 'bonding step: more bonds than the base edge order',
                 203: 'bonding step: bonded descriptor pair is not compatible',
                 204: 'bonding step: wrong bond order',
                 205: 'bonding step: a descriptor was used for more bonds than it was written',
                 206: 'bonding step: fewer bonds than the edge order although a compatible pair was left',
                 209: 'bonding step: the implementation raised an unexpected exception',
                 121: 'graph level: a fragment graph the implementation read is not the template of its part of the cut '
                      '(node numbering, element/charge/aromatic/hcount, descriptors on the atoms that lost a bond, inner bonds '
                      'with their orders), or an atom lacks element / an integer hcount',
                 122: 'graph level: the base graph the implementation read is not a base graph of the cut (one node per '
                      'part in order with its name, one edge per bonded pair of parts, order = number of cut bonds)',
                 123: 'graph level: the fine graph right after the bonding step is not the skeleton of the molecule '
                      '(keys offset+index, element/charge/aromatic per atom, exactly the bonds of the molecule with their orders)',
                 101: 'resolved molecule differs from the original molecule (elements, charges, bond orders, H counts)',
                 102: 'resolving the uncut molecule as a single fragment differs from the original molecule',
                 103: 'resolver raised an exception on a valid cut string'}

    def corpus(self, ctx):
        cyclopropene_me = _mol([('C', 0, False)] * 4, [(0, 1, 1), (0, 2, 1), (2, 3, 1), (3, 0, 2)])
        toluene = _mol([('C', 0, False)] + [('C', 0, True)] * 6,
                       [(0, 1, 1)] + [(1 + i, 1 + (i + 1) % 6, 1.5) for i in range(6)])
        # a polycycle cut into four parts with several cut bonds per pair of parts (A-Cf 3, Cf-D 2): the base graph is a
        # multigraph-like K4 fragment whose listings put two ring markers with DIFFERENT order symbols on one node,
        # opened and closed in every arrangement (seed C01-11: a stale ring-bond symbol in the base-graph reader)
        cage = _mol([('C', 0, False), ('C', 0, False), ('N', 0, False), ('C', 0, False), ('C', 0, False), ('N', 0, False),
                     ('C', 0, False), ('C', 0, False)],
                    # 0=A 1=B 2=D 3..7 = c1..c5 (C C N C C)
                    [(0, 3, 1), (0, 4, 1), (0, 5, 1), (0, 1, 1), (3, 4, 1), (4, 5, 1), (5, 6, 1), (6, 7, 1), (2, 6, 1),
                     (2, 7, 1), (2, 1, 1), (1, 7, 1)])
        frs = ['{#A=[$a1][$a2][>a3]C[$ab],#B=[$ab]C([$bc])[<bd],#D=[$d1][>d2]N[>bd],'
               '#Cf=C[$a1]C[$a2]N[<a3]C[$d1]C[<d2][$bc]}',
               '{#A=C([$ab])([>a3])([$a2])[$a1],#B=[<bd]C([$ab])[$bc],#D=N([>bd])([>d2])[$d1],'
               '#Cf=[$bc]C([<d2])C([$d1])N([<a3])C([$a2])C[$a1]}']
        bases = ['{[#B]([#A]#1)([#D]=2)[#Cf]12}', '{[#B]([#A]#1)([#D]=2)[#Cf]21}', '{[#A]#1[#B]([#D]=2)[#Cf]12}',
                 '{[#Cf]#1=2[#B]([#A]1)[#D]2}', '{[#D]=1[#B]([#A]#2)[#Cf]12}', '{[#B]([#A]#1)([#Cf]=21)[#D]2}',
                 '{[#A]#1[#B]([#Cf]=21)[#D]2}', '{[#Cf]#1=2[#B]([#D]2)[#A]1}', '{[#A]#1[#B]([#Cf]1=2)[#D]2}']
        cage_cases = [{'s': b + '.' + f, 'single': '{[#M]}.{#M=C123CC1N2C4C5C3N45}', 'mol': cage, 'ncuts': 8}
                      for f in frs for b in bases]
        return cage_cases + [
            # descriptor after a ring digit that carries a ring-bond symbol (DESIGN 5 row 12)
            {'s': '{[#A][#B]}.{#A=C=1[$a]CC1,#B=[$a]C}', 'single': '{[#M]}.{#M=C=1(C)CC1}', 'mol': cyclopropene_me,
             'cutinfo': {'0-1': [[0, '$a1', 3, '$a1']]}},
            {'s': '{[#A][#B]}.{#A=C[$a]=1CC1,#B=[$a]C}', 'single': '{[#M]}.{#M=C=1(C)CC1}', 'mol': cyclopropene_me,
             'cutinfo': {'0-1': [[0, '$a1', 3, '$a1']]}},
            # aromatic rings written as Kekule structures in every fragment (no lower-case atom anywhere)
            {'s': '{[#A][#B]}.{#A=C1=CC=CC=C1[$a],#B=[$a]C}', 'single': '{[#M]}.{#M=Cc1ccccc1}', 'mol': toluene, 'kekule': True},
            {'s': '{[#A]=[#B]}.{#A=[$a]C=CC=[$b],#B=[$a]C(C)=CC=[$b]}', 'single': '{[#M]}.{#M=CC1=CC=CC=C1}', 'mol': toluene, 'kekule': True},
            {'s': '{[#B]=[#A]}.{#A=[$a]=CC=C[$b],#B=[$a]=C(C)C=C[$b]}', 'single': '{[#M]}.{#M=Cc1ccccc1}', 'mol': toluene, 'kekule': True},
        ]

    def generate(self, ctx, n):
        out = []
        while len(out) < n:
            c = molgen.cut_case(ctx.rng, nmax=ctx.rng.choice([4, 7, 9, 12]), kmax=ctx.rng.choice([2, 3, 4, 5]))
            if c is not None:
                # the bonding step and the graph-level clauses are observed through one of the three constructors
                c['ctor'] = ctx.rng.choice(['string', 'string', 'graph', 'dicts'])
                out.append(c)
        return out

    def describe(self, case):
        d = {k: case[k] for k in ('s', 'single', 'mol')}
        if case.get('ctor', 'string') != 'string':
            d['ctor'] = case['ctor']
        return d

    def run_impl(self, case):
        from cgsmiles.resolve import MoleculeResolver
        case = dict(case)
        case.setdefault('legacy', True)
        case['aa'] = True
        out = C03.run_impl(self, case)
        res = {'bonding': out}
        exp = molgen.expected_graph(case['mol'])
        for key in ('s', 'single'):
            # the cut string goes through all three constructors (the property names from_graph and from_string;
            # the base graph is always the one read_cgsmiles reads, so they must behave alike); the first
            # constructor that does not give the molecule back decides the verdict
            for ctor in (('string', 'graph', 'dicts') if key == 's' else ('string',)):
                try:
                    _, g = make_resolver({'s': case[key], 'aa': True, 'legacy': True, 'ctor': ctor}).resolve_all()
                    res[key] = bool(molgen.same_molecule(molgen.heavy_graph_of_result(g), exp))
                except Exception as exc:
                    res[key] = 'EXC %s: %s' % (type(exc).__name__, str(exc)[:80])
                if res[key] is not True:
                    if ctor != 'string':
                        res['ctor_failed'] = ctor
                    break
        # cut pairs per base edge in the coordinates of the bonding step (for dedicated_b / cut_fail)
        res['cuts'] = self._cut_pairs(case)
        if case.get('glevel'):
            res['gl'] = self._graph_level(case)
        return res

    def _graph_level(self, case):
        """Gallina literals of what the implementation read and built: templates, base graph, fine graph after the
        bonding step (None when it raised / was not reached); the templates' hcount per atom of the cut"""
        from cgsmiles.resolve import MoleculeResolver
        try:
            resolver = make_resolver({'s': case['s'], 'aa': True, 'legacy': True, 'ctor': case.get('ctor', 'string')})
        except Exception:
            return None
        fd = resolver.fragment_dicts[0]
        out = {'base': lit.nxgraph(copy.deepcopy(resolver.molecule)),
               'fd': lit.lst([lit.pair(lit.s(nm), lit.nxgraph(g)) for nm, g in fd.items()])}
        hc = []
        for name, ids in case['glevel']['parts']:
            g = fd.get(name)
            for i, a in enumerate(ids):
                h = g.nodes[i].get('hcount') if (g is not None and i in g.nodes) else None
                hc.append([a, h if (isinstance(h, int) and not isinstance(h, bool)) else (None if h is None else float(h))])
        out['hcount'] = hc
        rec = {}
        orig = resolver.edges_from_bonding_descrpt

        def wrapped(all_atom=True):
            rec['aa'] = bool(all_atom)
            orig(all_atom=all_atom)
            rec['m2'] = lit.nxgraph(copy.deepcopy(resolver.molecule))
        resolver.edges_from_bonding_descrpt = wrapped
        try:
            resolver.resolve()
        except Exception:
            pass
        out['m2'] = rec.get('m2')
        out['aa'] = rec.get('aa', True)
        return out

    @staticmethod
    def _cut_literal(gl, hcount):
        hc = dict((a, h) for a, h in hcount)
        atoms = []
        for a, el, ch, ar in gl['atoms']:
            d = {'element': el, 'charge': ch, 'aromatic': bool(ar)}
            if hc.get(a) is not None:
                d['hcount'] = hc[a]
            atoms.append(lit.pair(lit.z(a), lit.attrs(d)))
        bonds = ['{| cb_u := %s; cb_v := %s; cb_ord := %s; cb_lab := %s; cb_dollar := %s |}'
                 % (lit.z(u), lit.z(v), lit.pyval(o), lit.s(lab), lit.b(dl)) for u, v, o, lab, dl in gl['bonds']]
        parts = [lit.pair(lit.s(nm), lit.lst([lit.z(a) for a in ids])) for nm, ids in gl['parts']]
        dord = [lit.pair(lit.z(a), lit.lst([lit.s(t) for t in ts])) for a, ts in gl['dord']]
        return '{| c_atoms := %s; c_bonds := %s; c_parts := %s; c_dord := %s |}' % (
            lit.lst(atoms), lit.lst(bonds), lit.lst(parts), lit.lst(dord))

    def _cut_pairs(self, case):
        """[(a, b, [(u, d, v, t)])] with a,b coarse keys as the base graph numbers them and u,v the
        fine keys at bonding time; None when the generator did not record the cut geometry"""
        return case.get('cutinfo')

    def python_oracle(self, case, impl):
        # only used when the Coq side cannot be built: the C03 clauses on the bonding step
        code = C03.python_oracle(self, dict(case, legacy=case.get('legacy', True)), impl['bonding'])
        return 200 + code if code else 0

    def extra_fail(self, case, impl):
        if impl['s'] is True and impl['single'] is True:
            return 0
        if impl['single'] is not True:
            return 102 if impl['single'] is False else 103
        return 101 if impl['s'] is False else 103

    def nontrivial(self, case, impl):
        return case.get('ncuts', 1) >= 1

    def case_class(self, case, impl):
        s = case['s']
        tags = []
        tags.append('cuts=%d' % min(case.get('ncuts', 1), 5))
        if re.search(r'[=#]%?\d+\[[$<>]', s):
            tags.append('ringbond-symbol+descriptor')
        if re.search(r'[a-z]\d*\[[$<>]', s.split('.', 1)[1]):
            tags.append('aromatic-cut')
        if '+]' in s or '-]' in s:
            tags.append('charged')
        if case.get('kekule'):
            tags.append('kekule-written-ring')
        if impl.get('gl') is not None and impl['gl'].get('m2') is not None:
            tags.append('graph-level')
        return ' '.join(tags)

    def known_class(self, case, impl, code):
        # no known finding is open for C01 (descriptor_after_symbol_ring was repaired by /repo commit
        # f3554b8; its witnesses stay in the corpus, a fixed entry suppresses nothing)
        return None

    def coq_case(self, case, impl):
        base = C03.coq_case(self, dict(case, legacy=case.get('legacy', True), aa=True), impl['bonding'])
        cuts = impl.get('cuts')
        if cuts is None or 'skip' in impl['bonding']:
            cl = '[]'
            judged = 'false'
        else:
            rows = []
            for a, b, _ in impl['bonding']['edges']:      # orientation of the implementation's edge list
                if a < b:
                    L = [(u, d, v, t) for u, d, v, t in cuts.get('%d-%d' % (a, b), [])]
                else:
                    L = [(v, t, u, d) for u, d, v, t in cuts.get('%d-%d' % (b, a), [])]
                rows.append('(%s, %s, %s)' % (lit.z(a), lit.z(b), lit.lst(
                    ['(%s, %s, %s, %s)' % (lit.z(u), lit.s(d), lit.z(v), lit.s(t)) for u, d, v, t in L])))
            cl = lit.lst(rows)
            judged = 'true'
        gl = impl.get('gl')
        if gl is None or 'skip' in impl['bonding']:
            run = 'None'
        else:
            run = _compress('(Some {| rc_cut := %s; rc_fd := %s; rc_base := %s; rc_aa := %s; rc_impl := %s |})'
                            % (self._cut_literal(case['glevel'], gl['hcount']), gl['fd'], gl['base'], lit.b(gl['aa']),
                               'None' if gl['m2'] is None else '(Some %s)' % gl['m2']))
        # the string itself, for the string-level driver model (Compose/TextRunCheck.v): from_text / text_bonded on the
        # string against the base graph, the dictionary and the bonded fine graph recorded above
        text = 'None' if run == 'None' else '(Some %s)' % lit.s(case['s'])
        return '(({| cc_case := %s; cc_cuts := %s |}, %s, %s), %s)' % (base, cl, judged, run, text)



# ------------------------------------------------------------------------------ how much of the generated language lies
# inside the text-level theorem (Compose/TextDomain.v).  NOT part of the check: a measurement, run by hand with
#   cd /verif && PYTHONPATH=tools:/repo PBR_VERSION=0.0.0 /venv/bin/python -m props.c01 --text-domain SEED N
# A tokenizer proposes (tokens, descriptor decoration) for every fragment text of a generated string; Coq re-renders the
# proposal (FragText.render (decorate toks dc)), compares it with the written text and evaluates td_class.
_BSYM = {'-': 'BSingle', '=': 'BDouble', '#': 'BTriple', '$': 'BQuad', ':': 'BArom', '.': 'BZero'}
_KINDS = '$<>!'


def tokenize_fragment(text):
    """(lead, toks, after): descriptors are (kind, label, sym or None); toks are Gallina terms; after[i] = descriptors
    written behind token i.  None when the text leaves the language of the generator."""
    lead, toks, after = [], [], []
    i, n = 0, len(text)

    def desc_at(j):
        k = text.find(']', j)
        return (text[j + 1], text[j + 2:k]), k + 1

    while i < n and text[i] == '[' and i + 1 < n and text[i + 1] in _KINDS:
        (kind, lab), i = desc_at(i)
        sym = None
        if i < n and text[i] in _BSYM:          # no token yet: a symbol here is the leading descriptor's ([$x]=C)
            sym = text[i]
            i += 1
        lead.append((kind, lab, sym))
    while i < n:
        c = text[i]
        if c in _BSYM and i + 2 < n and text[i + 1] == '[' and text[i + 2] in _KINDS:
            (kind, lab), i = desc_at(i + 1)
            if not toks:
                return None
            after[-1].append((kind, lab, c))
        elif c == '[' and i + 1 < n and text[i + 1] in _KINDS:
            (kind, lab), i = desc_at(i)
            if not toks:
                return None
            after[-1].append((kind, lab, None))
        elif c == '[':
            k = text.find(']', i)
            body = text[i + 1:k]
            if ';' in body:
                return None
            toks.append('TBracket %s None' % lit.s(body)); after.append([]); i = k + 1
        elif c == '(':
            toks.append('TOpen'); after.append([]); i += 1
        elif c == ')':
            toks.append('TClose'); after.append([]); i += 1
        elif c in _BSYM and i + 1 < n and (text[i + 1].isdigit() or text[i + 1] == '%'):
            j = i + 1
            mk = text[j] if text[j].isdigit() else text[j:j + 3]
            toks.append('TRing (Some %s) %s' % (_BSYM[c], lit.s(mk))); after.append([]); i = j + len(mk)
        elif c.isdigit() or c == '%':
            mk = c if c.isdigit() else text[i:i + 3]
            toks.append('TRing None %s' % lit.s(mk)); after.append([]); i += len(mk)
        elif c in _BSYM:
            toks.append('TBond %s' % _BSYM[c]); after.append([]); i += 1
        elif text[i:i + 2] in ('Cl', 'Br'):
            toks.append('TAtom %s' % lit.s(text[i:i + 2])); after.append([]); i += 2
        elif c.isalpha():
            toks.append('TAtom %s' % lit.s(c)); after.append([]); i += 1
        else:
            return None
    return lead, toks, after


def _desc_lit(d):
    kind, lab, sym = d
    return '{| d_kind := "%s"%%char; d_label := %s; d_sym := %s |}' % (kind, lit.s(lab), 'None' if sym is None else '(Some %s)' % _BSYM[sym])


def text_domain_literal(case, hcount):
    """Gallina term of type TextDomain.td_case for a generated case, or None"""
    base, frs = case['s'].split('.', 1)
    defs = []
    for d in frs[1:-1].split(','):
        name, text = d[1:].split('=', 1)
        tk = tokenize_fragment(text)
        if tk is None:
            return None
        lead, toks, after = tk
        defs.append('(%s, {| fd_name := %s; fd_toks := %s; fd_dc := {| d_lead := %s; d_after := %s |} |})' % (
            lit.s(text), lit.s(name), lit.lst(['(%s)' % t for t in toks]), lit.lst([_desc_lit(x) for x in lead]),
            lit.lst([lit.lst([_desc_lit(x) for x in a]) for a in after])))
    return '(%s, %s, %s)' % (C01._cut_literal(case['glevel'], hcount), lit.s(base[1:-1]), lit.lst(defs))


def text_domain_measure(seed, n):
    import os, subprocess, collections
    ctx = common.Ctx('C01td', 'quick', seed)
    prop = C01()
    cases = prop.generate(ctx, n)
    terms, kept = [], []
    for c in cases:
        gl = prop._graph_level(c) if c.get('glevel') else None
        if gl is None:
            print('no graph-level record:', c['s'])
            continue
        t = text_domain_literal(c, gl['hcount'])
        if t is None:
            print('outside the tokenizer:', c['s'])
            continue
        terms.append(t)
        kept.append(c)
    src = ('From Coq Require Import String.\nFrom Coq Require Import List Ascii ZArith Bool.\n'
           'From CGV Require Import Base.PyBase Base.PyVal Base.NxGraph Dialect.DialectImpl Frag.FragText Compose.CutModel '
           'Compose.TextCut Compose.TextDomain.\nImport ListNotations.\nOpen Scope Z_scope.\n'
           'Definition cases : list td_case := [\n' + ';\n'.join(terms) + '].\n'
           'Eval vm_compute in (map (td_class (fo_of_table [])) cases).\n')
    path = os.path.join(ctx.work, 'td_cases.v')
    open(path, 'w').write(src)
    out = subprocess.run(['coqc', '-Q', os.path.join(common.VERIF, 'theories'), 'CGV', path], capture_output=True, text=True,
                         timeout=3000)
    nums = [int(x) for x in re.findall(r'(\d+)%nat', out.stdout)]
    print('generated', len(cases), 'tokenized', len(kept), 'evaluated', len(nums))
    print('classes', dict(collections.Counter(nums)))
    for c, k in zip(kept, nums):
        if k != 0:
            print(k, c['s'])
    if out.returncode != 0:
        print(out.stderr[-2000:])
    ctx.cleanup()

PROP = C01()
PROP.case_type = 'c01t_case'
PROP.corr_fn = 'c01t_corr'
PROP.fail_fn = 'c01t_fail'

def text_iso_measure(seed, n):
    """pairs (cut string, the uncut molecule as a single fragment): how many satisfy every hypothesis of the text-level
    isomorphism theorem but the transcript hypotheses (Compose/TextDomain.iso_domain_sound; tdp_class = 0)"""
    import os, subprocess, collections
    ctx = common.Ctx('C01ti', 'quick', seed)
    prop = C01()
    terms, kept = [], []
    for c in prop.generate(ctx, n):
        gl = c.get('glevel')
        if not gl or not gl.get('single_same'):
            continue
        g1 = prop._graph_level(c)
        c2 = {'s': c['single'], 'ctor': 'string',
              'glevel': {'atoms': gl['atoms'], 'bonds': gl['bonds'], 'parts': [['M', gl['single_order']]], 'dord': []}}
        g2 = prop._graph_level(c2)
        if g1 is None or g2 is None:
            continue
        t1, t2 = text_domain_literal(c, g1['hcount']), text_domain_literal(c2, g2['hcount'])
        if t1 is None or t2 is None:
            continue
        terms.append('(%s, %s)' % (t1, t2))
        kept.append(c)
    src = ('From Coq Require Import String.\nFrom Coq Require Import List Ascii ZArith Bool.\n'
           'From CGV Require Import Base.PyBase Base.PyVal Base.NxGraph Dialect.DialectImpl Frag.FragText Compose.CutModel '
           'Compose.TextCut Compose.TextDomain.\nImport ListNotations.\nOpen Scope Z_scope.\n'
           'Definition cases : list (td_case * td_case) := [\n' + ';\n'.join(terms) + '].\n'
           'Eval vm_compute in (map (tdp_class (fo_of_table [])) cases).\n')
    path = os.path.join(ctx.work, 'ti_cases.v')
    open(path, 'w').write(src)
    out = subprocess.run(['coqc', '-Q', os.path.join(common.VERIF, 'theories'), 'CGV', path], capture_output=True, text=True,
                         timeout=3000)
    nums = [int(x) for x in re.findall(r'(\d+)%nat', out.stdout)]
    print('pairs with the same written molecule', len(kept), 'evaluated', len(nums))
    print('classes', dict(collections.Counter(nums)))
    for c, k in zip(kept, nums):
        if k != 0:
            print(k, c['s'], c['single'])
    if out.returncode != 0:
        print(out.stderr[-2000:])
    ctx.cleanup()


if __name__ == '__main__':
    import sys
    if len(sys.argv) >= 2 and sys.argv[1] == '--text-domain':
        text_domain_measure(int(sys.argv[2]) if len(sys.argv) > 2 else 0, int(sys.argv[3]) if len(sys.argv) > 3 else 100)
    if len(sys.argv) >= 2 and sys.argv[1] == '--text-iso':
        text_iso_measure(int(sys.argv[2]) if len(sys.argv) > 2 else 0, int(sys.argv[3]) if len(sys.argv) > 3 else 100)
