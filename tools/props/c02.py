"""C02 - the coarse-to-fine mapping is a faithful partition into fragment copies.
Tie: merge_graphs / resolve_disconnected_molecule / edges_from_bonding_descrpt (graph level) /
sort_nodes_by_attr / annotate_fragments / set_atom_names_atomistic are hand-modelled over NxGraph
(Resolve/GraphOps.v, Resolve/Pipeline.v) and compared on every run, segment by segment, with a real
MoleculeResolver.resolve() whose stages are wrapped; squash_atoms / rebuild_h_atoms / the E-Z annotation
enter the model as recorded transcripts.  The property's clauses (Resolve/MapDefs.holds_C02) are
evaluated in Coq on the graphs the IMPLEMENTATION returned.  The networkx model (Base/NxGraph.v) has its
own operation-sequence stream here."""
import copy

import networkx as nx

import common
import lit
from props import _resolver as RS
from props import _nxops as NX


PRELUDES = ['compute_mass', 'rebuild_h_bare', 'sampler', 'other_resolve', 'coarse_resolve']


def run_prelude(kind):
    """an unrelated use of the package in the same process, before the judged resolve (the replay names it)"""
    import random
    import pysmiles
    from cgsmiles.resolve import MoleculeResolver
    if kind == 'compute_mass':
        from cgsmiles.pysmiles_utils import compute_mass
        compute_mass(pysmiles.read_smiles('CCO'))
    elif kind == 'rebuild_h_bare':
        from cgsmiles.pysmiles_utils import rebuild_h_atoms
        g = pysmiles.read_smiles('CC=O', explicit_hydrogen=False)
        rebuild_h_atoms(g)
    elif kind == 'sampler':
        from cgsmiles.sample import MoleculeSampler
        state = random.getstate()
        try:
            sampler = MoleculeSampler.from_fragment_string('{#PEO=[<]COC[>]}', polymer_reactivities={'<': 0.5, '>': 0.5},
                                                           all_atom=True)
            sampler.sample(target_weight=150)
        except Exception:      # noqa: BLE001 - the prelude is only there to leave state behind
            pass
        finally:
            random.setstate(state)
    elif kind == 'other_resolve':
        MoleculeResolver.from_string('{[#X][#Y]}.{#X=[$]c1ccccc1,#Y=[$]CC(=O)O}').resolve_all()
    elif kind == 'coarse_resolve':
        MoleculeResolver.from_string('{[#X][#Y]}.{#X=[$][#P][#Q],#Y=[$][#R]}', last_all_atom=False).resolve_all()


def history_in_child(case):
    import json
    import os
    import subprocess
    import sys
    env = dict(os.environ)
    env['PBR_VERSION'] = '0.0.0'
    env['CGV_REPO'] = common.REPO
    sub = os.path.join(os.path.dirname(os.path.abspath(__file__)), '_resolver_sub.py')
    job = {'prelude': case['prelude'], 's': case['s'], 'laa': case['laa'], 'legacy': case['legacy']}
    try:
        p = subprocess.run([sys.executable, '-W', 'ignore', sub, 'record'], input=json.dumps(job), env=env,
                           stdout=subprocess.PIPE, stderr=subprocess.PIPE, text=True, timeout=600)
        return json.loads(p.stdout.split('@@JSON@@', 1)[1])
    except Exception as exc:              # noqa: BLE001
        return {'ctor_exc': 'history child failed: %s' % type(exc).__name__}


def squash_cycle_collapse(rec):
    """True iff some fine node of the returned molecule is the copy of two DIFFERENT template atoms of one coarse node AND
    the input demands it: in the bonded graph (before squash_atoms) the two copies are connected by a path of '!' bonds only.
    (A merge of two atoms that are joined by anything else than squash operators is left to the oracle: clause 4.)"""
    if not rec.get('mol') or not rec.get('m2'):
        return False
    pairs = []
    for _, attrs, _ in rec['mol']:
        a = {k: RS.dec_val(v) for k, v in attrs}
        fid, mp = a.get('fragid'), a.get('mapping')
        if not isinstance(fid, list) or not isinstance(mp, list):
            continue
        seen = {}
        for k, m in zip(fid, mp):
            m = tuple(m) if isinstance(m, (list, tuple)) else (m,)
            if len(m) != 2:
                continue
            if (k, m[0]) in seen and seen[(k, m[0])] != m[1]:
                pairs.append((k, m[0], seen[(k, m[0])], m[1]))
            seen.setdefault((k, m[0]), m[1])
    if not pairs:
        return False
    import networkx as nx
    G = RS.dec_graph(rec['m2'])
    B = nx.Graph()
    B.add_nodes_from(G.nodes)
    for u, v, b in G.edges(data='bonding'):
        if b and str(b[0]).startswith('!'):
            B.add_edge(u, v)

    def copy_of(k, F, t):
        hits = [n for n, d in G.nodes(data=True) if d.get('fragid') == [k] and [tuple(x) for x in (d.get('mapping') or [])] == [(F, t)]]
        return hits[0] if len(hits) == 1 else None
    for k, F, t1, t2 in pairs:
        x, y = copy_of(k, F, t1), copy_of(k, F, t2)
        if x is None or y is None or not nx.has_path(B, x, y):
            return False
    return True


def rand_shared_ring(rng, laa):
    """one atom shared by THREE or more DIFFERENT fragments so that an atom that already absorbed another one is itself
    removed by a later merge (seed C02-6): a ring of k coarse nodes F0..F(k-1) whose LAST node shares its marked atom with
    F0 (ring bond) and with F(k-2) (chain bond), optionally also with a tail node T; the other chain bonds are ordinary.
    Every fragment copy contributes ONE atom to the shared atom, so the input is inside the judged domain."""
    k = rng.randint(3, 5)
    tail = rng.random() < 0.4
    if laa:
        sh = rng.choice(['C', 'N'])
        other = lambda: rng.choice(['C', 'O', 'N', 'S', 'CC', 'C(C)'])      # noqa: E731
    else:
        sh = '[#Y]'
        other = lambda: rng.choice(['[#X]', '[#P]', '[#X][#Q]', '[#P]([#Q])'])      # noqa: E731
    frags = []
    for i in range(k):
        if i == k - 1:
            f = other() + sh + '[!a][!b]' + ('[!d]' if tail else '')
        else:
            # the ordinary chain bonds sit on the OTHER atom(s), the squash operators on the shared atom
            plain = ('[$c%d]' % (i - 1) if i > 0 else '') + ('[$c%d]' % i if i < k - 2 else '')
            bang = ('[!a]' if i == 0 else '') + ('[!b]' if i == k - 2 else '')
            f = other() + plain + sh + bang
        frags.append('#F%d=%s' % (i, f))
    base = '{[#F0]1' + ''.join('[#F%d]' % i for i in range(1, k)) + '1' + ('[#T]' if tail else '') + '}'
    if tail:
        frags.append('#T=%s%s[!d]' % (other(), sh))
    if rng.random() < 0.5:
        rng.shuffle(frags)
    return base, [frags]


def rand_dotted(rng, laa):
    """fragments with an internal bond of order 0 ('.' between two atoms / beads of ONE fragment), chains of 2-4 coarse nodes,
    optionally a second level under the coarse variant (seed C02-11)"""
    if laa:
        pool = ['[$][O-].[Na+]', '[$]C(=O)[O-].[Na+]', '[$]C([O-].[Na+])C[$]', '[$]CC[$].[Cl-]', '[$][NH3+].[Cl-]', '[$]CC[$]', '[$]OC[$]',
                '[$]C[$]', '[Na+].[O-]C[$]']
    else:
        pool = ['[$][#a].[#b]', '[$][#a].[#b][$]', '[$][#a]([#c])[$].[#b]', '[$][#c][#d][$]', '[$][#c][$]', '[#b].[#a][$]']
    n = rng.randint(2, 4)
    names = ['A', 'B', 'C', 'D'][:rng.randint(1, 3)]
    dotted = [f for f in pool if '.' in f]
    frags = {}
    for i, nm in enumerate(names):
        frags[nm] = rng.choice(dotted) if i == 0 else rng.choice(pool)
    base = '{' + ''.join('[#%s]' % rng.choice(names) for _ in range(n)) + '}'
    if names[0] not in base:
        base = '{[#%s]' % names[0] + base[1:]
    blocks = [['#%s=%s' % (nm, f) for nm, f in frags.items()]]
    if not laa and rng.random() < 0.5:
        blocks.append(['#a=[$]CC[$]', '#b=[$]O[$]', '#c=[$]C[$]', '#d=[$]N[$]'])
    return base, blocks


class C02(RS.StepProp):
    id = 'C02'
    level = 'proof'
    technique = ('Coq proofs about hand-written models of merge_graphs / resolve_disconnected_molecule / '
                 'annotate_fragments (cover, exactness, copy through the mapping bijection) + per-run segment-wise '
                 'correspondence of the models with a wrapped real resolve() + the clauses evaluated in Coq on the '
                 "implementation's returned graphs")
    vo_deps = ['theories/Resolve/C02Check.vo', 'theories/Resolve/NxCheck.vo']
    prop_file = 'theories/Properties/C02.v'
    header = RS.HEADER.replace('Resolve.StepCheck.', 'Resolve.StepCheck Resolve.MapDefs Resolve.NxCheck Resolve.C02Check.')
    case_type = 'C02Check.case'
    corr_fn = 'C02Check.corr_ok'
    fail_fn = 'C02Check.prop_fail'
    quick_cases = 150
    thorough_cases = 1200
    extended_cases = 600
    fail_text = {1: 'a fine node has an empty fragid or one that is not a coarse node key',
                 2: "a coarse node's graph is not exactly the sub-graph of the fine nodes recording it",
                 3: 'a fine node is in no coarse node graph',
                 4: 'a template atom has no (unique) copy with the same element/name/annotations under the coarse node, or two template atoms share one copy',
                 5: "the copy's internal bonds / bond orders differ from the fragment's",
                 6: 'a coarse node without fragment carries fine nodes',
                 7: 'a fine node does not report the fragment name of its coarse node',
                 8: 'two atoms joined by the squash operator were not merged: a fine bond still carries a "!" descriptor, so the '
                    'shared atom records only one of the coarse nodes it stems from'}

    def corpus(self, ctx):
        self.begin_round()
        strs = [('{[#V].[#A][#B]}.{#A=[$]CC,#B=[$]OC}', True),
                ('{[#A][#B]}.{#A=[$]CC[$],#B=[$]OC}', True),
                ('{[#A][#B][#V]}.{#A=[$]CC[$],#B=[$]OC}', True),
                ('{[#A].([#V])[#B].[#W]}.{#A=[$]CC[$],#B=[$]OC}', True),
                ('{[#A]|3}.{#A=[$]CC[$]}', True),
                ('{[#A]1[#A][#A]1}.{#A=[$]cc[$]}', True),
                ('{[#A][#B]}.{#A=[$]c1ccccc1,#B=[$]C1=CC=CC=C1}', True),
                ('{[#A][#B]}.{#A=CC[!],#B=[!]CC}', True),
                ('{[#A]([#B])[#A]}.{#A=[$][#X]1[#Y][#Z]1[$],#B=[$][#P]=[#Q]}', False),
                ('{[#B1][#B2][#B1]}.{#B1=[#PEO]|4,#B2=[#PE]|2}.{#PEO=[>]COC[<],#PE=[>]CC[<]}', True),
                ('{[#A][#B][#C]}.{#A=OC[!],#B=[!]CC[!],#C=[!]CO}', True),       # two different shared atoms bonded to each other
                ('{[#R]=[#R]}.{#R=[!]c1ccccc1[!]}', True),
                # the squash operator on two levels (node numbers restart on every level)
                ('{[#A][#B]}.{#A=[#X][#Y][!],#B=[!][#Y][#Z]}.{#X=OC[!],#Y=[!]CC[!],#Z=[!]CN}', True),
                ('{[#A][#B][#A]}.{#A=[!][#X][#Y][!],#B=[!][#Y][#X][!]}.{#X=[!]OC[!],#Y=[!]CC[!]}', True),
                ('{[#A][#B]}.{#A=[#X][#Y][!],#B=[!][#Y][#Z]}.{#X=[#P][#Q][!],#Y=[!][#Q][#R][!],#Z=[!][#R][#S]}', False),
                ('{[#A][#B]}.{#A=[#X][#Y][$],#B=[$][#X]}.{#X=[$]CC[$],#Y=[$]O[$]}', True),
                # one atom shared by three or more DIFFERENT fragments, the hub fragment written LAST so that an atom that already
                # absorbed another one is itself removed by a later merge (seed C02-6); all-atom, coarse, two levels
                ('{[#F0]1[#F1][#F2]1[#F3]}.{#F0=C[$a]C[!b],#F1=C[$a]C[!c],#F2=C[!b][!c][!d],#F3=OC[!d]}', True),
                ('{[#A]1[#B][#C]1}.{#A=[$]CC[!a],#B=[$]OC[!b],#C=NC[!a][!b]}', True),
                ('{[#A]1[#B][#C][#D]1}.{#A=CC[!a],#B=[$]OC[$],#C=[$]NC[!b],#D=SC[!a][!b]}', True),
                ('{[#A]1[#B][#C]1}.{#A=[$][#X][#Y][!a],#B=[$][#P][#Y][!b],#C=[#Q][#Y][!a][!b]}', False),
                ('{[#A]1[#B][#C]1}.{#A=[$][#X][#Y][!a],#B=[$][#P][#Y][!b],#C=[#Q][#Y][!a][!b]}.{#X=[$]CC,#Y=[$]C[$],#P=[$]O,#Q=[$]N}', True),
                # a ZERO-ORDER bond INSIDE a fragment ('.' between two atoms / beads of the same fragment: ion pairs): it is an edge
                # of the fine graph, so it belongs to the coarse node's graph like every other one (seed C02-11)
                ('{[#A][#OHter]}.{#A=[$]CC[$],#OHter=[$][O-].[Na+]}', True),
                ('{[#A][#B]}.{#A=[$]CC[$],#B=[$]C(=O)[O-].[Na+]}', True),
                ('{[#A]|2}.{#A=[$]C([O-].[Na+])C[$]}', True),
                ('{[#A][#B][#A]}.{#A=[$][#a].[#b][$],#B=[$][#c][$]}', False),
                ('{[#A][#B]}.{#A=[$][#a].[#b],#B=[$][#c][#d]}.{#a=[$]CC,#b=O,#c=[$]C[$],#d=[$]N}', True),
                # explicitly written hydrogens that carry their own annotation with a value that reads as "false"
                # (weight 0 / 0.0) on parents of non-zero weight: the copy keeps the fragment's value (seed C02-8)
                ('{[#A][#B]}.{#A=C[H;w=0][$],#B=[$]O[H;0]}', True),
                ('{[#A][#B]}.{#A=[C;w=2.0]([H;w=0])[$],#B=[$][C;2.5]([H;w=0.0])C}', True),
                ('{[#A]}.{#A=[H;w=0]C[H]}', True),
                ('{[#A][#B]}.{#A=[#X][#Y][$],#B=[$][#X]}.{#X=[$][#P][#Q][$],#Y=[$][#R][$]}.{#P=C[$],#Q=[$]C[$],#R=[$]N[$]}', True)]
        out = []
        for s, laa in strs:
            for lv in range(s.count('.{')):
                out.append({'kind': 'step', 's': s, 'laa': laa, 'legacy': True, 'level': lv})
        out.append({'kind': 'step', 's': strs[0][0], 'laa': True, 'legacy': True, 'level': 0, 'rekey': True})
        out.append({'kind': 'step', 's': '{[#B1][#B2][#B1]}.{#B1=[#PEO]|4,#B2=[#PE]|2}.{#PEO=[>]COC[<],#PE=[>]CC[<]}', 'laa': True, 'legacy': True, 'level': 0, 'rekey': True})
        return out

    def generate(self, ctx, n):
        if ctx.coverage['evaluations'] > 0:
            self.begin_round()       # an extension round (the main round was begun by corpus())
        rng = ctx.rng
        out = []
        n_nx = max(10, n // 4)
        n_steps = n - n_nx
        while len(out) < n_steps:
            levels = rng.choice([1, 1, 1, 2, 2, 3])
            laa = rng.random() < 0.6
            base, blocks = RS.rand_multilevel(rng, levels, laa, squash=rng.random() < (0.15 if levels == 1 else 0.4),
                                              coarse_squash=True, squash_chain=levels > 1 and rng.random() < 0.5)
            if rng.random() < 0.15:
                base = RS.add_virtual_tail(rng, base)
            s = RS.join_blocks(base, blocks)
            legacy = rng.random() < 0.6
            rekey = rng.random() < 0.15      # from_graph with non-canonical coarse keys (3k+2, reversed insertion)
            for lv in range(levels):
                c = {'kind': 'step', 's': s, 'laa': laa, 'legacy': legacy, 'level': lv}
                if rekey:
                    c['rekey'] = True
                out.append(c)
        for _ in range(max(3, n // 25)):
            laa = rng.random() < 0.6
            base, blocks = rand_shared_ring(rng, laa)
            out.append({'kind': 'step', 's': RS.join_blocks(base, blocks), 'laa': laa, 'legacy': rng.random() < 0.5, 'level': 0})
        for _ in range(max(3, n // 25)):
            laa = rng.random() < 0.5
            base, blocks = rand_dotted(rng, laa)
            laa2 = laa or len(blocks) > 1
            for lv in range(len(blocks)):
                out.append({'kind': 'step', 's': RS.join_blocks(base, blocks), 'laa': laa2, 'legacy': rng.random() < 0.5, 'level': lv})
        for _ in range(n_nx):
            out.append(NX.rand_case(rng))
        # histories: the same kind of input after an unrelated public helper ran in this process (compute_mass on a bare
        # pysmiles graph).  They come LAST in the round because a helper that leaves state behind affects all that follows.
        aa_cases = [c for c in out if c.get('kind') == 'step' and c['laa'] and c['level'] == c['s'].count('.{') - 1]
        for c in aa_cases[:6]:
            out.append(dict(c, prelude=rng.choice(PRELUDES)))
        for pre in PRELUDES:
            out.append({'kind': 'step', 's': '{[#A][#B]}.{#A=[$]CC[$],#B=[$]OC}', 'laa': True, 'legacy': True, 'level': 0,
                        'prelude': pre})
        return out

    # ---------------------------------------------------------------------------------------------
    def run_impl(self, case):
        if case['kind'] == 'nx':
            impl = NX.run(case)
            impl['_k'] = self.put_term([], 'C02Check.KNx %s' % NX.coq_case(case, impl))
            return impl
        from cgsmiles.resolve import MoleculeResolver
        key = (case['s'], case['laa'], case['legacy'], bool(case.get('rekey')), case.get('prelude'))

        if case.get('prelude') and key not in self._reccache:
            # a history runs in its OWN interpreter, so that the case is its own replay (nothing an earlier case left
            # behind in this process takes part, and nothing it leaves behind reaches later cases)
            self._reccache[key] = history_in_child(case)

        def make():
            if not case.get('rekey'):
                return MoleculeResolver.from_string(case['s'], last_all_atom=case['laa'], legacy=case['legacy'])
            import re
            from cgsmiles.read_cgsmiles import read_cgsmiles
            elements = re.findall(r"\{[^\}]+\}", case['s'])
            base = read_cgsmiles(elements[0])
            G = nx.relabel_nodes(base, {k: 3 * k + 2 for k in base.nodes}, copy=True)
            return MoleculeResolver.from_graph(''.join(elements[1:]), G, last_all_atom=case['laa'], legacy=case['legacy'])
        got = self.records_for(key, make)
        if 'ctor_exc' in got or case['level'] >= len(got['recs']) or 'skip' in got['recs'][case['level']]:
            why = got.get('ctor_exc') or ('level not reached' if case['level'] >= len(got.get('recs', [])) else
                                          got['recs'][case['level']]['skip'])
            return {'skip': why, '_k': self.put_term([], 'C02Check.KStep ' + RS.TRIVIAL_STEP)}
        rec = got['recs'][case['level']]
        if squash_cycle_collapse(rec):
            # degenerate INPUT, not judged: a cycle of squash operators makes two atoms of ONE fragment copy the same atom
            # (e.g. a two-atom fragment whose both atoms are shared with neighbours that are shared with each other)
            return {'skip': 'squash operators of the input merge two atoms of one fragment copy',
                    '_k': self.put_term([], 'C02Check.KStep ' + RS.TRIVIAL_STEP)}
        tab = self.new_tab()
        impl = RS.rec_summary(rec)
        impl['class'] = RS.py_virtual_not_last(rec)
        impl['_k'] = self.put_term([tab], 'C02Check.KStep ' + RS.lit_stepcase(rec, tab))
        return impl

    def python_oracle(self, case, impl):
        """fallback when the Coq side cannot be built (e.g. a generated table fails closed on a source change):
        clauses 1 and 3 of C02 in Python on the summary of what the implementation returned"""
        if case.get('kind') != 'step' or 'skip' in impl or impl.get('exc') or impl.get('coarse') is None:
            return None
        keys = {k for k, _, _ in impl['coarse']}
        for _, fid in impl.get('fragid', []):
            if not isinstance(fid, list) or not fid or any(f not in keys for f in fid):
                return 1
        # clause 4 (part): two different template atoms of one coarse node must not sit on one fine atom
        fid = dict((n, f) for n, f in impl.get('fragid', []))
        for n, mp in impl.get('mapping', []):
            seen = set()
            for k, m in zip(fid.get(n) or [], mp):
                if (k, m[0]) in seen:
                    return 4
                seen.add((k, m[0]))
        covered = {n for _, _, nodes in impl['coarse'] for n in nodes}
        if any(n not in covered for n, _ in impl.get('fragid', [])):
            return 3
        return None

    def known_class(self, case, impl, code):
        # class virtual_not_last was repaired in /repo fa307dd (fragid := the coarse key): nothing is excused
        return None

    def describe(self, case):
        return case

    def nontrivial(self, case, impl):
        return 'skip' not in impl and (case['kind'] == 'nx' or impl.get('fine_nodes', 0) > 0)

    def case_class(self, case, impl):
        if case['kind'] == 'nx':
            return 'networkx-ops'
        if 'skip' in impl:
            return 'skipped:' + str(impl['skip'])[:30]
        if impl.get('exc'):
            return 'raised:%s@%s' % (impl['exc'], RS.STAGES.get(impl['stage']))
        return '%s:level%d%s%s' % ('all-atom' if impl['aa'] else 'coarse', case['level'], (':rekeyed' if case.get('rekey') else '') + (':after-' + case['prelude'] if case.get('prelude') else ''),
                                 ':virtual-before-real' if impl.get('class') else '')


PROP = C02()
