"""C06 — layered resolutions compose.
Proved: the driver state machine (Resolve/Drivers*.v) for every resolution step.  Tie: the hand-written
driver model is compared with the implementation on histories of resolve / resolve_iter / resolve_all
calls (which fragment dictionary and which all-atom flag every resolve() used, IndexError past the end).
Search (never a proof): hierarchical groupings of a fragmented molecule into 1..3 intermediate levels,
coarse or atomistic last level; the layered string must resolve to the flattened two-level molecule by
all three ways of driving, and each step's coarse graph must be the previous step's fine graph.
Graph level (theories/Compose): for every generated hierarchy without shared nodes / reused names / |n the chain of cut
records (top cut U, the cuts below it, the all-atom bottom cut), the fragment dictionaries exactly as read_fragments
returned them, the base graph exactly as read_cgsmiles returned it, the fine graph every coarse resolve() returned and
the all-atom fine graph right after edges_from_bonding_descrpt are evaluated in Coq (Compose/LevelsRunCheck.v): the
hypotheses of `compose_levels` / `compose_levels_all_atom` hold of the implementation's own dictionaries and base graph
(131, 132), their conclusions hold of the implementation's own returned graphs (133, 134), and the driver machine on the
end-to-end step over those dictionaries returns exactly those graphs at every coarse level (correspondence).
Compose/LevelsRunSound.v proves what verdict 0 means."""
import copy
import re
import json

import networkx as nx

import common
import lit
import molgen
from props.c01 import _ABBR_DEFS, _compress


def dump(g, keys=('element', 'atomname', 'fragname', 'fragid', 'charge', 'weight', 'hcount')):
    return (sorted((n, tuple(sorted((k, repr(v)) for k, v in d.items() if k in keys))) for n, d in g.nodes(data=True)),
            sorted((min(a, b), max(a, b), repr(d.get('order'))) for a, b, d in g.edges(data=True)))


def step_guarantees(meta, mol):
    """the per-step mapping and bonding guarantees of C02/C03 in the form C06 needs them: read off the two
    returned graphs only.  Returns None or a short text."""
    for k in meta.nodes:
        g = meta.nodes[k].get('graph')
        if g is None:
            continue
        rec = {n for n in mol.nodes if k in (mol.nodes[n].get('fragid') or [])}
        if set(g.nodes) != rec:
            return 'coarse node %r: fragment graph has nodes %s, fine nodes recording it are %s' % (
                k, sorted(g.nodes)[:8], sorted(rec)[:8])
        want = meta.nodes[k].get('fragname')
        for n in g.nodes:
            if n not in mol.nodes:
                return 'coarse node %r: fragment graph node %r is not a fine node' % (k, n)
            names = [m[0] for m in (mol.nodes[n].get('mapping') or [])]
            if want not in names and mol.nodes[n].get('fragname') != want:
                return 'fine node %r was generated from fragment %r but is recorded on coarse node %r named %r' % (
                    n, mol.nodes[n].get('fragname'), k, want)
    for n in mol.nodes:
        fid = mol.nodes[n].get('fragid')
        if not fid or any(f not in meta.nodes or meta.nodes[f].get('graph') is None for f in fid):
            return 'fine node %r records coarse node(s) %r that do not exist or have no fragment' % (n, fid)
    for u, v in mol.edges:
        fu, fv = set(mol.nodes[u].get('fragid') or []), set(mol.nodes[v].get('fragid') or [])
        if fu & fv:
            continue
        if not any(meta.has_edge(a, b) and meta.edges[a, b].get('order', 1) != 0 for a in fu for b in fv):
            return 'bond %r-%r joins coarse nodes %s / %s that are not joined by a base edge' % (u, v, sorted(fu), sorted(fv))
    return None


def instrument(resolver, log):
    """record (dictionary index, all-atom flag) of every resolve() through the two methods it calls"""
    orig_dis = resolver.resolve_disconnected_molecule
    orig_edges = resolver.edges_from_bonding_descrpt
    cur = {}

    def dis(fragment_dict):
        cur['idx'] = next((i for i, d in enumerate(resolver.fragment_dicts) if d is fragment_dict), -1)
        return orig_dis(fragment_dict)

    def edges(all_atom=True):
        log.append((cur.get('idx', -1), bool(all_atom)))
        return orig_edges(all_atom=all_atom)
    resolver.resolve_disconnected_molecule = dis
    resolver.edges_from_bonding_descrpt = edges


class C06(common.Prop):
    id = 'C06'
    level = 'proof'
    technique = ('Coq proof of the driver state machine for every resolution step (manual/iter/all agree, chaining, '
                 'dictionary and all-atom flag per level) + per-run correspondence of the driver model on call '
                 'histories + generated search for the composition clause (layered vs flattened string)')
    vo_deps = ['theories/Resolve/DriversCheck.vo', 'theories/Compose/LevelsRunCheck.vo']
    prop_file = 'theories/Properties/C06.v'
    case_requires = ('From Coq Require Import String.\nFrom Coq Require Import List Ascii ZArith Bool.\n'
                     'From CGV Require Import Base.PyBase Base.PyVal Base.NxGraph Resolve.Drivers Resolve.DriversCheck '
                     'Compose.CutModel Compose.LevelsRunCheck.\nOpen Scope Z_scope.\n' + _ABBR_DEFS)
    shard = 40
    case_type = 'c06x_case'
    corr_fn = 'c06x_corr'
    fail_fn = 'c06x_fail'
    quick_cases = 250
    thorough_cases = 4000
    extended_cases = 1500
    fail_text = {1: 'manual stepping does not use dictionary i / the all-atom flag as specified',
                 2: 'resolve_iter does not use dictionary i / the all-atom flag as specified',
                 3: 'resolve_all does not use dictionary i / the all-atom flag as specified',
                 101: 'layered string does not resolve to the flattened/original molecule',
                 102: 'the three ways of driving give different final results',
                 103: "a step's coarse graph is not the previous step's fine graph",
                 104: 'flattened two-level string does not resolve to the original molecule',
                 105: 'resolver raised an exception on a valid layered string',
                 131: 'graph level: a fragment dictionary the implementation read does not hold the templates of that level\'s '
                      'cut (node numbering, names / element, charge, aromatic, hcount, descriptors, inner bonds with orders)',
                 132: 'graph level: the base graph the implementation read is not a base graph of the top cut',
                 133: 'graph level: the fine graph a coarse resolve() returned is not the skeleton of that level\'s cut in the '
                      'numbering the levels above induce (keys offset+index, fragid, names, exactly the bonds with their '
                      'orders and descriptor marks), or lists a neighbour twice',
                 134: 'graph level: the all-atom fine graph right after the bonding step is not the skeleton of the bottom cut '
                      'in the numbering the levels above induce',
                 106: 'the mapping or bonding guarantee fails at a step (fragment graph of a coarse node vs the fine nodes '
                      'recording it, fragment name, bonds only across base edges)',
                 107: 'stepping manually across resolver objects (the fine graph returned after k levels handed to from_graph '
                      'with the remaining fragment blocks) does not end in the molecule resolve_all() gives'}

    def corpus(self, ctx):
        return [
            {'layered': '{[#B1][#B2][#B1]}.{#B1=[#PEO][>][#PEO][<],#B2=[<][#PE][#PE][>]}.{#PEO=[>]COC[<],#PE=[>]CC[<]}',
             'flat': '{[#PEO][#PEO][#PE][#PE][#PEO][#PEO]}.{#PEO=[>]COC[<],#PE=[>]CC[<]}', 'coarse_last': False, 'levels': 2,
             'mol': None, 'nparts': 6, 'calls': ['CResolve', 'CResolve', 'CResolve', 'CIter', 'CAll']},
            # known finding ambiguous_descriptor_choice: unlabelled [>]..[<] on blocks and beads
            {'layered': '{[#A][#B]}.{#A=[>][#P][#T][<],#B=[>][#T][<]}.{#P=[>]CO[<],#T=[>]CCO[<]}',
             'flat': '{[#P][#T][#T]}.{#P=[>]CO[<],#T=[>]CCO[<]}', 'coarse_last': False, 'levels': 2, 'mol': None,
             'nparts': 3, 'directional': True, 'calls': ['CAll']},
            # a virtual particle ALONE in an intermediate fragment that is attached by order-0 edges only: after the
            # first step it is an isolated node without fragment at the next level (seed C06-11), coarse and all-atom
            {'layered': '{[#RING].[#VS]}.{#RING=[#SP4r]1[#SP4r][#SP1r]1,#VS=[#TC4]}.{#SP4r=OC[$]C[$]O,#SP1r=[$]OC[$]CO}',
             'flat': '{[#SP4r]1[#SP4r][#SP1r]1.[#TC4]}.{#SP4r=OC[$]C[$]O,#SP1r=[$]OC[$]CO}', 'coarse_last': False,
             'levels': 2, 'mol': None, 'nparts': 4, 'calls': ['CResolve', 'CResolve', 'CAll', 'CIter']},
            {'layered': '{[#VS].[#BLK]}.{#VS=[#V],#BLK=[#P][#Q]}.{#P=CC[$],#Q=[$]CO}',
             'flat': '{[#V].[#P][#Q]}.{#P=CC[$],#Q=[$]CO}', 'coarse_last': False,
             'levels': 2, 'mol': None, 'nparts': 3, 'calls': ['CAll', 'CIter']},
            {'layered': '{[#BLK].([#VS])[#BLK]}.{#VS=[#V],#BLK=[<][#P][#Q][>]}.{#P=[<][#x][$a],#Q=[$a][#y][>]}',
             'flat': '{[#P][#Q].([#V])[#P][#Q]}.{#P=[<][#x][$a],#Q=[$a][#y][>]}', 'coarse_last': True,
             'levels': 2, 'mol': None, 'nparts': 5, 'calls': ['CResolve', 'CAll']},
        ]

    def generate(self, ctx, n):
        rng = ctx.rng
        out = []
        while len(out) < n:
            if rng.random() < 0.06:
                c = molgen.directional_case(rng)
                c['calls'] = [rng.choice(['CResolve', 'CResolve', 'CIter', 'CAll']) for _ in range(rng.randint(1, 3))]
                out.append(c)
                continue
            if rng.random() < 0.12:
                c = molgen.block_case(rng)
                c['calls'] = [rng.choice(['CResolve', 'CResolve', 'CIter', 'CAll']) for _ in range(rng.randint(1, 4))]
                out.append(c)
                continue
            c = molgen.layered_case(rng, nmax=rng.choice([5, 8, 10]), coarse_last=rng.random() < 0.3,
                                    squash=rng.random() < 0.4, reuse_names=rng.random() < 0.35,
                                    virtual=rng.random() < 0.25)
            if c is None:
                continue
            # a history on ONE resolver object, beyond the three fresh ways
            c['calls'] = [rng.choice(['CResolve', 'CResolve', 'CIter', 'CAll']) for _ in range(rng.randint(1, 5))]
            out.append(c)
        return out

    def describe(self, case):
        return {k: case[k] for k in ('layered', 'flat', 'coarse_last', 'calls') if k in case}

    def run_impl(self, case):
        from cgsmiles.resolve import MoleculeResolver
        laa = not case['coarse_last']
        res = {'laa': laa}

        def fresh():
            r = MoleculeResolver.from_string(case['layered'], last_all_atom=laa)
            log = []
            instrument(r, log)
            return r, log
        try:
            r0, _ = fresh()
            n = r0.resolutions
            res['n'] = n
            # (1) manual stepping
            r, log = fresh()
            manual = []
            steps = []
            for _ in range(n):
                before = len(log)
                meta, mol = r.resolve()
                manual.append(log[before:])
                steps.append((dump(meta, keys=('fragname',)), dump(mol, keys=('atomname',)), dump(mol)))
                if 'step_bad' not in res:
                    bad = step_guarantees(meta, mol)
                    if bad:
                        res['step_bad'] = 'step %d: %s' % (len(steps) - 1, bad)
            res['manual'] = manual
            final_manual = dump(r.molecule)
            chain_ok = True
            for i in range(1, n):
                # coarse graph of step i = fine graph of step i-1 (names moved from atomname to fragname)
                cn, ce = steps[i][0]
                fn, fe = steps[i - 1][1]
                if [x[0] for x in cn] != [x[0] for x in fn] or ce != fe:
                    chain_ok = False
                names_c = [dict(a).get('fragname') for _, a in cn]
                names_f = [dict(a).get('atomname') for _, a in fn]
                if names_c != names_f:
                    chain_ok = False
            res['chain_ok'] = chain_ok
            # (2) iterating
            r, log = fresh()
            outs = list(r.resolve_iter())
            res['iter'] = list(log)
            final_iter = dump(outs[-1][1]) if outs else None
            # (3) last level directly
            r, log = fresh()
            meta, mol = r.resolve_all()
            res['all'] = list(log)
            final_all = dump(mol)
            res['same3'] = (final_manual == final_iter == final_all)
            # composition
            if case['coarse_last']:
                if case.get('expect_cg'):
                    e = nx.Graph()
                    for i, nm in case['expect_cg']['nodes']:
                        e.add_node(i, name=nm)
                    for a, b, o in case['expect_cg']['edges']:
                        e.add_edge(a, b, order=o)
                    res['layered_ok'] = bool(nx.is_isomorphic(
                        mol, e, node_match=lambda x, y: x.get('atomname') == y['name'],
                        edge_match=lambda x, y: x.get('order') == y['order']))
                    fl = MoleculeResolver.from_string(case['flat'] + '.{#X=C}').molecule   # base graph only
                    res['flat_ok'] = True
                else:
                    res['layered_ok'] = res['flat_ok'] = True
            else:
                _, fmol = MoleculeResolver.from_string(case['flat']).resolve_all()
                hl, hf = molgen.heavy_graph_of_result(mol), molgen.heavy_graph_of_result(fmol)
                if case.get('mol'):
                    exp = molgen.expected_graph(case['mol'])
                    res['layered_ok'] = bool(molgen.same_molecule(hl, exp))
                    res['flat_ok'] = bool(molgen.same_molecule(hf, exp))
                    # names too: the last step of both strings resolves the same coarse graph (the parts),
                    # so element, atom name and fragment name must agree through one isomorphism
                    if res['layered_ok'] and res['flat_ok']:
                        nm = lambda x, y: (x.get('element'), x.get('atomname'), x.get('fragname')) == \
                            (y.get('element'), y.get('atomname'), y.get('fragname'))
                        em = lambda x, y: float(x.get('order', 1)) == float(y.get('order', 1))
                        res['layered_ok'] = bool(nx.is_isomorphic(mol, fmol, node_match=nm, edge_match=em))
                else:
                    res['layered_ok'] = bool(molgen.same_molecule(hl, hf))
                    res['flat_ok'] = True
            # (5) manual stepping ACROSS resolver objects: the fine graph returned after k levels is handed, as the
            # coarse graph, to from_graph together with the remaining fragment blocks ("each step's coarse graph is
            # the previous step's fine graph"); the end result must be the one resolve_all gives
            if n >= 2:
                blocks = re.findall(r"\{[^\}]+\}", case['layered'])
                k = 1 + (len(case['layered']) % (n - 1))
                r, _ = fresh()
                for _ in range(k):
                    _, part = r.resolve()
                r2 = MoleculeResolver.from_graph('.'.join(blocks[1 + k:]), copy.deepcopy(part), last_all_atom=laa)
                _, mol2 = r2.resolve_all()
                res['xobj_same'] = (dump(mol2) == final_all)
                res['xobj_k'] = k
            # (4) an arbitrary history on one object, exceptions included
            r, log = fresh()
            hist = []
            for c in case.get('calls', []):
                before = len(log)
                exc = None
                try:
                    if c == 'CResolve':
                        r.resolve()
                    elif c == 'CIter':
                        list(r.resolve_iter())
                    else:
                        r.resolve_all()
                except (IndexError, ValueError) as e:
                    exc = type(e).__name__
                hist.append([list(x) for x in log[before:]] + ([None] if exc else []))
            res['hist'] = hist
        except Exception as exc:
            res['exc'] = '%s: %s' % (type(exc).__name__, str(exc)[:100])
        if case.get('hier') and 'exc' not in res:
            res['gl'] = self._hier_level(case, laa)
        elif case.get('directional') and 'exc' not in res and 'n' in res:
            # no cut records for this family (its failures lie in a listed class): the graph-level CORRESPONDENCE is
            # still run - the driver machine over the dictionaries the implementation read must return the graphs the
            # implementation returned at every coarse level, iteration orders included - so that a failure of the class
            # counts as the listed finding only while the implementation still behaves as the model predicts
            res['gl'] = self._corr_level(case, laa, res['n'])
        return res

    def _corr_level(self, case, laa, n):
        from cgsmiles.resolve import MoleculeResolver
        try:
            r = MoleculeResolver.from_string(case['layered'], last_all_atom=laa)
        except Exception:
            return None
        out = {'base': lit.nxgraph(copy.deepcopy(r.molecule)), 'corr_only': True, 'hcount': {}, 'm2': None,
               'fds': [lit.lst([lit.pair(lit.s(nm), lit.nxgraph(g)) for nm, g in fd.items()]) for fd in r.fragment_dicts]}
        ncoarse = n - (1 if laa else 0)
        outs = []
        try:
            for _ in range(ncoarse):
                _, mol = r.resolve()
                outs.append(lit.nxgraph(copy.deepcopy(mol)))
        except Exception:
            pass
        out['outs'] = outs
        out['ncoarse'] = ncoarse
        return out

    def _hier_level(self, case, laa):
        """Gallina literals of what the implementation read and returned: fragment dictionaries, base graph, the fine graph
        of every coarse resolve(), the all-atom fine graph right after the bonding step; hcount per atom of the bottom cut"""
        from cgsmiles.resolve import MoleculeResolver
        cuts = case['hier']['cuts']
        try:
            r = MoleculeResolver.from_string(case['layered'], last_all_atom=laa)
        except Exception:
            return None
        out = {'base': lit.nxgraph(copy.deepcopy(r.molecule)),
               'fds': [lit.lst([lit.pair(lit.s(nm), lit.nxgraph(g)) for nm, g in fd.items()]) for fd in r.fragment_dicts]}
        hc = {}
        if laa and r.fragment_dicts:
            fd = r.fragment_dicts[-1]
            for name, ids in cuts[-1]['parts']:
                g = fd.get(name)
                for i, a in enumerate(ids):
                    h = g.nodes[i].get('hcount') if (g is not None and i in g.nodes) else None
                    hc[a] = h if (isinstance(h, int) and not isinstance(h, bool)) else (None if h is None else float(h))
        out['hcount'] = hc
        rec = {}
        orig = r.edges_from_bonding_descrpt

        def wrapped(all_atom=True):
            orig(all_atom=all_atom)
            if all_atom:
                rec['m2'] = lit.nxgraph(copy.deepcopy(r.molecule))
        r.edges_from_bonding_descrpt = wrapped
        ncoarse = len(cuts) - (1 if laa else 0)
        outs = []
        try:
            for k in range(len(cuts)):
                _, mol = r.resolve()
                if k < ncoarse:
                    outs.append(lit.nxgraph(copy.deepcopy(mol)))
        except Exception:
            pass
        out['outs'] = outs
        out['m2'] = rec.get('m2')
        return out

    @staticmethod
    def _cut_literal(c, hcount=None):
        atoms = []
        for a, d in c['atoms']:
            d = dict(d)
            if hcount and hcount.get(a) is not None:
                d['hcount'] = hcount[a]
            atoms.append(lit.pair(lit.z(a), lit.attrs(d)))
        bonds = ['{| cb_u := %s; cb_v := %s; cb_ord := %s; cb_lab := %s; cb_dollar := %s |}'
                 % (lit.z(u), lit.z(v), lit.pyval(o), lit.s(lab), lit.b(dl)) for u, v, o, lab, dl in c['bonds']]
        parts = [lit.pair(lit.s(nm), lit.lst([lit.z(a) for a in ids])) for nm, ids in c['parts']]
        dord = [lit.pair(lit.z(a), lit.lst([lit.s(t) for t in ts])) for a, ts in c['dord']]
        return '{| c_atoms := %s; c_bonds := %s; c_parts := %s; c_dord := %s |}' % (
            lit.lst(atoms), lit.lst(bonds), lit.lst(parts), lit.lst(dord))

    def extra_fail(self, case, impl):
        if 'exc' in impl:
            return 105
        if not impl['flat_ok']:
            return 104
        if not impl['layered_ok']:
            return 101
        if not impl['same3']:
            return 102
        if not impl['chain_ok']:
            return 103
        if impl.get('step_bad'):
            return 106
        if impl.get('xobj_same') is False:
            return 107
        return 0

    def known_class(self, case, impl, code):
        # unlabelled head-to-tail descriptors on blocks and beads: two compatible pairs per edge, the first-match
        # choice differs between the layered and the flat description (same root cause as C08's class)
        if code == 101 and case.get('directional'):
            return 'ambiguous_descriptor_choice'
        return None

    def case_class(self, case, impl):
        return 'levels=%s %s%s' % (case.get('levels'), 'coarse-last' if case['coarse_last'] else 'atomistic-last',
                                   (' shared-node' if case.get('squash') else '') + (' virtual-site' if case.get('virtual') else '') + (' unlabelled-head-to-tail' if case.get('directional') else '') + (' reused-names' if case.get('reuse_names') else '')
                                   + (' block|n' if case.get('block') else '') + (' graph-level' if impl.get('gl') else ''))

    def nontrivial(self, case, impl):
        return case.get('nparts', 2) >= 2

    def coq_case(self, case, impl):
        def ou(x):
            return 'None' if x is None else '(Some (%s, %s))' % (lit.nat(x[0]), lit.b(x[1]))

        def ous(l):
            return lit.lst([ou(x) for x in l])
        if 'exc' in impl:
            return ('({| k_hist := {| c_len := 0%nat; c_laa := false; c_calls := []; c_obs := [] |}; '
                    'k_fresh := {| f_len := 0%nat; f_laa := false; f_manual := []; f_iter := []; f_all := [] |} |}, None)')
        n, laa = impl['n'], impl['laa']
        hist = ('{| c_len := %s; c_laa := %s; c_calls := %s; c_obs := %s |}'
                % (lit.nat(n), lit.b(laa), lit.lst(case.get('calls', [])), lit.lst([ous(h) for h in impl['hist']])))
        fresh = ('{| f_len := %s; f_laa := %s; f_manual := %s; f_iter := %s; f_all := %s |}'
                 % (lit.nat(n), lit.b(laa), lit.lst([ous(m) for m in impl['manual']]), ous(impl['iter']), ous(impl['all'])))
        gl = impl.get('gl')
        if not gl or (gl.get('corr_only') and gl['ncoarse'] < 1):
            run = 'None'
        elif gl.get('corr_only'):
            # dummy cuts that are not well formed: lrun_fail does not judge, lrun_corr compares model and implementation
            dummy = ('{| c_atoms := []; c_bonds := [{| cb_u := 0; cb_v := 1; cb_ord := VInt 1; cb_lab := S "x"; '
                     'cb_dollar := true |}]; c_parts := []; c_dord := [] |}')
            run = _compress('(Some {| lr_U := %s; lr_Cs := %s; lr_C0 := %s; lr_fds := %s; lr_base := %s; lr_outs := %s; lr_m2 := None |})'
                            % (dummy, lit.lst([dummy] * (gl['ncoarse'] - 1)), '(Some %s)' % dummy if laa else 'None',
                               lit.lst(gl['fds']), gl['base'], lit.lst(gl['outs'])))
        else:
            cuts = case['hier']['cuts']
            ncoarse = len(cuts) - (1 if laa else 0)
            lits = [self._cut_literal(c) for c in cuts[:ncoarse]]
            c0 = '(Some %s)' % self._cut_literal(cuts[-1], gl['hcount']) if laa else 'None'
            run = _compress('(Some {| lr_U := %s; lr_Cs := %s; lr_C0 := %s; lr_fds := %s; lr_base := %s; lr_outs := %s; lr_m2 := %s |})'
                            % (lits[0], lit.lst(lits[1:]), c0, lit.lst(gl['fds']), gl['base'], lit.lst(gl['outs']),
                               'None' if gl['m2'] is None else '(Some %s)' % gl['m2']))
        return '({| k_hist := %s; k_fresh := %s |}, %s)' % (hist, fresh, run)


PROP = C06()
