"""C06 — layered resolutions compose.
Proved: the driver state machine (Resolve/Drivers*.v) for every resolution step.  Tie: the hand-written
driver model is compared with the implementation on histories of resolve / resolve_iter / resolve_all
calls (which fragment dictionary and which all-atom flag every resolve() used, IndexError past the end).
Search (never a proof): hierarchical groupings of a fragmented molecule into 1..3 intermediate levels,
coarse or atomistic last level; the layered string must resolve to the flattened two-level molecule by
all three ways of driving, and each step's coarse graph must be the previous step's fine graph."""
import json

import networkx as nx

import common
import lit
import molgen


def dump(g, keys=('element', 'atomname', 'fragname', 'fragid', 'charge', 'weight', 'hcount')):
    return (sorted((n, tuple(sorted((k, repr(v)) for k, v in d.items() if k in keys))) for n, d in g.nodes(data=True)),
            sorted((min(a, b), max(a, b), repr(d.get('order'))) for a, b, d in g.edges(data=True)))


def step_guarantees(meta, mol):
    """the per-step mapping and bonding guarantees of C02/C03 in the form C06 needs them: read off the two
    returned graphs only.  Returns None or a short text."""
    for k in meta.nodes:
        g = meta.nodes[k].get('graph')
        if g is None:
            continue
        rec = {n for n in mol.nodes if k in (mol.nodes[n].get('fragid') or [])}
        if set(g.nodes) != rec:
            return 'coarse node %r: fragment graph has nodes %s, fine nodes recording it are %s' % (
                k, sorted(g.nodes)[:8], sorted(rec)[:8])
        want = meta.nodes[k].get('fragname')
        for n in g.nodes:
            if n not in mol.nodes:
                return 'coarse node %r: fragment graph node %r is not a fine node' % (k, n)
            names = [m[0] for m in (mol.nodes[n].get('mapping') or [])]
            if want not in names and mol.nodes[n].get('fragname') != want:
                return 'fine node %r was generated from fragment %r but is recorded on coarse node %r named %r' % (
                    n, mol.nodes[n].get('fragname'), k, want)
    for n in mol.nodes:
        fid = mol.nodes[n].get('fragid')
        if not fid or any(f not in meta.nodes or meta.nodes[f].get('graph') is None for f in fid):
            return 'fine node %r records coarse node(s) %r that do not exist or have no fragment' % (n, fid)
    for u, v in mol.edges:
        fu, fv = set(mol.nodes[u].get('fragid') or []), set(mol.nodes[v].get('fragid') or [])
        if fu & fv:
            continue
        if not any(meta.has_edge(a, b) and meta.edges[a, b].get('order', 1) != 0 for a in fu for b in fv):
            return 'bond %r-%r joins coarse nodes %s / %s that are not joined by a base edge' % (u, v, sorted(fu), sorted(fv))
    return None


def instrument(resolver, log):
    """record (dictionary index, all-atom flag) of every resolve() through the two methods it calls"""
    orig_dis = resolver.resolve_disconnected_molecule
    orig_edges = resolver.edges_from_bonding_descrpt
    cur = {}

    def dis(fragment_dict):
        cur['idx'] = next((i for i, d in enumerate(resolver.fragment_dicts) if d is fragment_dict), -1)
        return orig_dis(fragment_dict)

    def edges(all_atom=True):
        log.append((cur.get('idx', -1), bool(all_atom)))
        return orig_edges(all_atom=all_atom)
    resolver.resolve_disconnected_molecule = dis
    resolver.edges_from_bonding_descrpt = edges


class C06(common.Prop):
    id = 'C06'
    level = 'proof'
    technique = ('Coq proof of the driver state machine for every resolution step (manual/iter/all agree, chaining, '
                 'dictionary and all-atom flag per level) + per-run correspondence of the driver model on call '
                 'histories + generated search for the composition clause (layered vs flattened string)')
    vo_deps = ['theories/Resolve/DriversCheck.vo']
    prop_file = 'theories/Properties/C06.v'
    case_requires = ('From Coq Require Import String.\nFrom Coq Require Import List Ascii ZArith Bool.\n'
                     'From CGV Require Import Base.PyBase Resolve.Drivers Resolve.DriversCheck.')
    case_type = 'c06case'
    corr_fn = 'c06_corr'
    fail_fn = 'c06_fail'
    quick_cases = 250
    thorough_cases = 4000
    extended_cases = 1500
    fail_text = {1: 'manual stepping does not use dictionary i / the all-atom flag as specified',
                 2: 'resolve_iter does not use dictionary i / the all-atom flag as specified',
                 3: 'resolve_all does not use dictionary i / the all-atom flag as specified',
                 101: 'layered string does not resolve to the flattened/original molecule',
                 102: 'the three ways of driving give different final results',
                 103: "a step's coarse graph is not the previous step's fine graph",
                 104: 'flattened two-level string does not resolve to the original molecule',
                 105: 'resolver raised an exception on a valid layered string',
                 106: 'the mapping or bonding guarantee fails at a step (fragment graph of a coarse node vs the fine nodes '
                      'recording it, fragment name, bonds only across base edges)'}

    def corpus(self, ctx):
        return [
            {'layered': '{[#B1][#B2][#B1]}.{#B1=[#PEO][>][#PEO][<],#B2=[<][#PE][#PE][>]}.{#PEO=[>]COC[<],#PE=[>]CC[<]}',
             'flat': '{[#PEO][#PEO][#PE][#PE][#PEO][#PEO]}.{#PEO=[>]COC[<],#PE=[>]CC[<]}', 'coarse_last': False, 'levels': 2,
             'mol': None, 'nparts': 6, 'calls': ['CResolve', 'CResolve', 'CResolve', 'CIter', 'CAll']},
        ]

    def generate(self, ctx, n):
        rng = ctx.rng
        out = []
        while len(out) < n:
            if rng.random() < 0.12:
                c = molgen.block_case(rng)
                c['calls'] = [rng.choice(['CResolve', 'CResolve', 'CIter', 'CAll']) for _ in range(rng.randint(1, 4))]
                out.append(c)
                continue
            c = molgen.layered_case(rng, nmax=rng.choice([5, 8, 10]), coarse_last=rng.random() < 0.3,
                                    squash=rng.random() < 0.4, reuse_names=rng.random() < 0.35)
            if c is None:
                continue
            # a history on ONE resolver object, beyond the three fresh ways
            c['calls'] = [rng.choice(['CResolve', 'CResolve', 'CIter', 'CAll']) for _ in range(rng.randint(1, 5))]
            out.append(c)
        return out

    def describe(self, case):
        return {k: case[k] for k in ('layered', 'flat', 'coarse_last', 'calls') if k in case}

    def run_impl(self, case):
        from cgsmiles.resolve import MoleculeResolver
        laa = not case['coarse_last']
        res = {'laa': laa}

        def fresh():
            r = MoleculeResolver.from_string(case['layered'], last_all_atom=laa)
            log = []
            instrument(r, log)
            return r, log
        try:
            r0, _ = fresh()
            n = r0.resolutions
            res['n'] = n
            # (1) manual stepping
            r, log = fresh()
            manual = []
            steps = []
            for _ in range(n):
                before = len(log)
                meta, mol = r.resolve()
                manual.append(log[before:])
                steps.append((dump(meta, keys=('fragname',)), dump(mol, keys=('atomname',)), dump(mol)))
                if 'step_bad' not in res:
                    bad = step_guarantees(meta, mol)
                    if bad:
                        res['step_bad'] = 'step %d: %s' % (len(steps) - 1, bad)
            res['manual'] = manual
            final_manual = dump(r.molecule)
            chain_ok = True
            for i in range(1, n):
                # coarse graph of step i = fine graph of step i-1 (names moved from atomname to fragname)
                cn, ce = steps[i][0]
                fn, fe = steps[i - 1][1]
                if [x[0] for x in cn] != [x[0] for x in fn] or ce != fe:
                    chain_ok = False
                names_c = [dict(a).get('fragname') for _, a in cn]
                names_f = [dict(a).get('atomname') for _, a in fn]
                if names_c != names_f:
                    chain_ok = False
            res['chain_ok'] = chain_ok
            # (2) iterating
            r, log = fresh()
            outs = list(r.resolve_iter())
            res['iter'] = list(log)
            final_iter = dump(outs[-1][1]) if outs else None
            # (3) last level directly
            r, log = fresh()
            meta, mol = r.resolve_all()
            res['all'] = list(log)
            final_all = dump(mol)
            res['same3'] = (final_manual == final_iter == final_all)
            # composition
            if case['coarse_last']:
                if case.get('expect_cg'):
                    e = nx.Graph()
                    for i, nm in case['expect_cg']['nodes']:
                        e.add_node(i, name=nm)
                    for a, b, o in case['expect_cg']['edges']:
                        e.add_edge(a, b, order=o)
                    res['layered_ok'] = bool(nx.is_isomorphic(
                        mol, e, node_match=lambda x, y: x.get('atomname') == y['name'],
                        edge_match=lambda x, y: x.get('order') == y['order']))
                    fl = MoleculeResolver.from_string(case['flat'] + '.{#X=C}').molecule   # base graph only
                    res['flat_ok'] = True
                else:
                    res['layered_ok'] = res['flat_ok'] = True
            else:
                _, fmol = MoleculeResolver.from_string(case['flat']).resolve_all()
                hl, hf = molgen.heavy_graph_of_result(mol), molgen.heavy_graph_of_result(fmol)
                if case.get('mol'):
                    exp = molgen.expected_graph(case['mol'])
                    res['layered_ok'] = bool(molgen.same_molecule(hl, exp))
                    res['flat_ok'] = bool(molgen.same_molecule(hf, exp))
                    # names too: the last step of both strings resolves the same coarse graph (the parts),
                    # so element, atom name and fragment name must agree through one isomorphism
                    if res['layered_ok'] and res['flat_ok']:
                        nm = lambda x, y: (x.get('element'), x.get('atomname'), x.get('fragname')) == \
                            (y.get('element'), y.get('atomname'), y.get('fragname'))
                        em = lambda x, y: float(x.get('order', 1)) == float(y.get('order', 1))
                        res['layered_ok'] = bool(nx.is_isomorphic(mol, fmol, node_match=nm, edge_match=em))
                else:
                    res['layered_ok'] = bool(molgen.same_molecule(hl, hf))
                    res['flat_ok'] = True
            # (4) an arbitrary history on one object, exceptions included
            r, log = fresh()
            hist = []
            for c in case.get('calls', []):
                before = len(log)
                exc = None
                try:
                    if c == 'CResolve':
                        r.resolve()
                    elif c == 'CIter':
                        list(r.resolve_iter())
                    else:
                        r.resolve_all()
                except (IndexError, ValueError) as e:
                    exc = type(e).__name__
                hist.append([list(x) for x in log[before:]] + ([None] if exc else []))
            res['hist'] = hist
        except Exception as exc:
            res['exc'] = '%s: %s' % (type(exc).__name__, str(exc)[:100])
        return res

    def extra_fail(self, case, impl):
        if 'exc' in impl:
            return 105
        if not impl['flat_ok']:
            return 104
        if not impl['layered_ok']:
            return 101
        if not impl['same3']:
            return 102
        if not impl['chain_ok']:
            return 103
        if impl.get('step_bad'):
            return 106
        return 0

    def case_class(self, case, impl):
        return 'levels=%s %s%s' % (case.get('levels'), 'coarse-last' if case['coarse_last'] else 'atomistic-last',
                                   (' shared-node' if case.get('squash') else '') + (' reused-names' if case.get('reuse_names') else '') + (' block|n' if case.get('block') else ''))

    def nontrivial(self, case, impl):
        return case.get('nparts', 2) >= 2

    def coq_case(self, case, impl):
        def ou(x):
            return 'None' if x is None else '(Some (%s, %s))' % (lit.nat(x[0]), lit.b(x[1]))

        def ous(l):
            return lit.lst([ou(x) for x in l])
        if 'exc' in impl:
            return ('{| k_hist := {| c_len := 0%nat; c_laa := false; c_calls := []; c_obs := [] |}; '
                    'k_fresh := {| f_len := 0%nat; f_laa := false; f_manual := []; f_iter := []; f_all := [] |} |}')
        n, laa = impl['n'], impl['laa']
        hist = ('{| c_len := %s; c_laa := %s; c_calls := %s; c_obs := %s |}'
                % (lit.nat(n), lit.b(laa), lit.lst(case.get('calls', [])), lit.lst([ous(h) for h in impl['hist']])))
        fresh = ('{| f_len := %s; f_laa := %s; f_manual := %s; f_iter := %s; f_all := %s |}'
                 % (lit.nat(n), lit.b(laa), lit.lst([ous(m) for m in impl['manual']]), ous(impl['iter']), ous(impl['all'])))
        return '{| k_hist := %s; k_fresh := %s |}' % (hist, fresh)


PROP = C06()
