"""C11 - virtual nodes and zero-order edges are inert.
Metamorphic: a resolvable string and the same string with fragment-less nodes (attached only by
order-0 edges: as new first node, as a leaf at any child position, inside a zero-order chain edge, with
an additional zero-order ring bond) and extra zero-order ring bonds between real nodes.  The fine
molecule must be the same up to the monotone renaming of coarse keys in `fragid`, every real coarse
node must keep exactly its own atoms, virtual nodes must stay empty; a fragment-less node with an edge
of order >= 1 must raise SyntaxError.  Both runs are also compared segment by segment with the model.
Object-reuse history: the coarse graph object of the modified string is first resolved through from_graph with a library in
which the later-virtual nodes have fragments, then - the same object - with the library proper."""
import copy

import common
import gens
import lit
from props import _resolver as RS


def preorder(root, children):
    out = []

    def visit(u):
        out.append(u)
        for c in children.get(u, []):
            visit(c)
    visit(root)
    return out


def canon(root, children, orders, rings, names):
    """renumber by DFS preorder (= the keys the reader assigns)"""
    order = preorder(root, children)
    new = {u: i for i, u in enumerate(order)}
    ch = {new[u]: [new[c] for c in children.get(u, [])] for u in order}
    od = {(new[p], new[c]): o for (p, c), o in orders.items()}
    rg = [(new[u], new[v], o) for u, v, o in rings]
    nm = [names[u] for u in order]
    return new, ch, od, rg, nm


def intended_edges(children, orders, rings):
    e = {}
    for p, cs in children.items():
        for c in cs:
            e[frozenset((p, c))] = orders[(p, c)]
    for u, v, o in rings:
        e[frozenset((u, v))] = o
    return e


def rand_pair(rng, reject=False):
    n = rng.randint(1, 5)
    children = gens.rand_tree(rng, n)
    pool = rng.sample(['A', 'B', 'C', 'D'], rng.randint(1, 3))
    names = {i: rng.choice(pool) for i in range(n)}
    orders = {}
    for p, cs in children.items():
        for c in cs:
            r = rng.random()
            orders[(p, c)] = 0 if r < 0.2 else (1 if r < 0.85 else 2)
    rings = []
    adjacent = {frozenset(k) for k in orders}
    if n >= 3 and rng.random() < 0.3:
        u, v = sorted(rng.sample(range(n), 2))
        if frozenset((u, v)) not in adjacent:
            rings.append((u, v, 1))
            adjacent.add(frozenset((u, v)))
    root = 0
    # ---- modified copy
    m_children = {k: list(v) for k, v in children.items()}
    m_orders = dict(orders)
    m_rings = list(rings)
    m_names = dict(names)
    m_root = root
    m_adj = set(adjacent)
    real = list(range(n))
    nxt = n
    ops = []
    nops = 1 if reject else rng.randint(1, 3)
    for _ in range(nops):
        kind = rng.choice(['root', 'leaf', 'leaf', 'chain', 'ringleaf', 'zeroring', 'zerofirst', 'zerofirst', 'ringleaf_first'])
        if reject:
            kind = rng.choice(['root', 'leaf', 'chainbad', 'chainbad', 'ringbad', 'ringbad'])
        v = nxt
        bad_order = rng.choice([1, 1, 2]) if reject else 0
        if kind == 'root' and 'root' not in ops:
            m_children[v] = [m_root]
            m_orders[(v, m_root)] = bad_order
            m_root = v
        elif kind == 'leaf':
            p = rng.choice(real)
            pos = rng.randint(0, len(m_children[p]))
            m_children[p].insert(pos, v)
            m_children[v] = []
            m_orders[(p, v)] = bad_order
        elif kind == 'chainbad' and m_orders:
            # virtual node inside a tree edge: one side order 0, the other side order >= 1 (either side first)
            p, c = rng.choice(sorted(m_orders))
            first_bad = rng.random() < 0.5
            m_children[p][m_children[p].index(c)] = v
            m_children[v] = [c]
            del m_orders[(p, c)]
            m_orders[(p, v)] = bad_order if first_bad else 0
            m_orders[(v, c)] = 0 if first_bad else bad_order
        elif kind == 'ringbad' and len(real) >= 2:
            # virtual leaf on a zero-order edge with an additional ring bond of order >= 1
            p, r2 = rng.sample(real, 2)
            m_children[p].append(v)
            m_children[v] = []
            m_orders[(p, v)] = 0
            m_rings.append((r2, v, bad_order))
        elif kind == 'chain':
            cands = [(p, c) for (p, c), o in m_orders.items() if o == 0 and p in real and c in real]
            if not cands:
                continue
            p, c = rng.choice(cands)
            m_children[p][m_children[p].index(c)] = v
            m_children[v] = [c]
            del m_orders[(p, c)]
            m_adj.discard(frozenset((p, c)))
            m_orders[(p, v)] = 0
            m_orders[(v, c)] = 0
        elif kind == 'ringleaf' and len(real) >= 2:
            p, r2 = rng.sample(real, 2)
            m_children[p].append(v)
            m_children[v] = []
            m_orders[(p, v)] = 0
            m_rings.append((r2, v, 0))
        elif kind in ('zerofirst', 'ringleaf_first'):
            # a zero-order ring bond whose marker is written BEFORE an ordinary ring marker on the same node:
            # `[#A].12…` (the '.' must not leak to marker 2); between real nodes, or to a new virtual leaf
            order = preorder(m_root, m_children)
            pos = {u: i for i, u in enumerate(order)}
            ordinary = [(u, w) for u, w, o in m_rings if o >= 1 and u in real and w in real]
            if not ordinary:
                # make an ordinary ring first (in BOTH strings) when the tree allows it
                cands = [(u, w) for u in real for w in real if pos[u] + 1 < pos[w] and frozenset((u, w)) not in m_adj]
                if not cands:
                    continue
                u, w = rng.choice(cands)
                rings.append((u, w, 1))
                m_rings.append((u, w, 1))
                adjacent.add(frozenset((u, w)))
                m_adj.add(frozenset((u, w)))
                ordinary = [(u, w)]
            u, w = rng.choice(ordinary)
            a = u if pos[u] < pos[w] else w          # the node that opens the ordinary ring
            if kind == 'zerofirst':
                cands = [c for c in real if pos[c] > pos[a] and frozenset((a, c)) not in m_adj]
                if not cands:
                    continue
                c = rng.choice(cands)
                m_rings.insert(0, (a, c, 0))
                m_adj.add(frozenset((a, c)))
                ops.append(kind)
                continue
            later = [p for p in real if pos[p] >= pos[a]]
            p = rng.choice(later)                    # the virtual leaf hangs below a, so a opens its ring bond
            m_children[p].append(v)
            m_children[v] = []
            m_orders[(p, v)] = 0
            if p != a:
                m_rings.insert(0, (a, v, 0))
        elif kind == 'zeroring' and len(real) >= 3:
            a, b = rng.sample(real, 2)
            if frozenset((a, b)) in m_adj:
                continue
            m_rings.append((a, b, 0))
            m_adj.add(frozenset((a, b)))
            ops.append(kind)
            continue
        else:
            continue
        m_names[v] = 'V%d' % (v - n + 1)
        nxt += 1
        ops.append(kind)
    if not ops:
        return None
    o_new, o_ch, o_od, o_rg, o_nm = canon(root, children, orders, rings, names)
    m_new, m_ch, m_od, m_rg, m_nm = canon(m_root, m_children, m_orders, m_rings, m_names)
    try:
        o_text = '{' + gens.render_base(rng, o_nm, o_ch, o_od, o_rg) + '}'
        m_text = '{' + gens.render_base(rng, m_nm, m_ch, m_od, m_rg) + '}'
    except (IndexError, KeyError):
        return None
    if rng.random() < 0.25:
        o_text, m_text = pct_markers(o_text), pct_markers(m_text)
    rho = sorted([o_new[x], m_new[x]] for x in real)
    aa = rng.random() < 0.55
    levels = 1
    if not reject and rng.random() < 0.4:
        # two or three fragment layers: the virtual nodes sit in the coarsest graph, the finer levels must not notice
        import re as _re
        levels = rng.choice([2, 2, 3])
        block = ''
        cur = pool
        for lv in range(levels):
            last = lv == levels - 1
            defs = RS.rand_frag_block(rng, cur, aa and last, squash=False)
            block += '.{' + ','.join(defs) + '}'
            if not last:
                cur = sorted(set(_re.findall(r'\[#([A-Za-z0-9]+)', ','.join(d.split('=', 1)[1] for d in defs)))) or ['X']
    else:
        defs = RS.rand_frag_block(rng, pool, aa, squash=False)
        block = '.{' + ','.join(defs) + '}'
    return {'kind': 1 if reject else 0, 'orig': o_text + block, 'modf': m_text + block, 'rho': rho, 'aa': aa, 'levels': levels,
            'legacy': rng.random() < 0.6, 'ops': ops,
            'want_o': [o_nm, sorted([sorted(k), o] for k, o in intended_edges(o_ch, o_od, o_rg).items())],
            'want_m': [m_nm, sorted([sorted(k), o] for k, o in intended_edges(m_ch, m_od, m_rg).items())]}


def rand_reuse_pair(rng):
    """ring INDEX re-use (seed C11-8): a zero-order ring bond - between two real nodes, from a new virtual first node, or to a
    new virtual leaf - whose ring is closed before an ordinary ring of the base string opens; render_base hands out the lowest
    free index, so the ordinary ring gets the index the zero-order ring bond just gave back (digit and %nn spellings)"""
    n = rng.randint(6, 8)
    children = {i: [i + 1] for i in range(n - 1)}
    children[n - 1] = []
    names = {i: 'M' for i in range(n)}
    if rng.random() < 0.5:
        names[0] = 'T'
    orders = {(i, i + 1): 1 for i in range(n - 1)}
    u = rng.randint(3, n - 3)
    w = rng.randint(u + 2, n - 1)
    rings = [(u, w, 1)]
    if rng.random() < 0.3 and w + 2 <= n - 1:
        rings.append((w, rng.randint(w + 2, n - 1), 1))      # a third use of the index
    real = list(range(n))
    m_children = {k: list(v) for k, v in children.items()}
    m_orders, m_rings, m_names, m_root = dict(orders), list(rings), dict(names), 0
    v = n
    variant = rng.choice(['real', 'vroot', 'vleaf'])
    if variant == 'real':
        m_rings.insert(0, (0, rng.randint(2, u - 1), 0))
    elif variant == 'vroot':
        m_children[v] = [0]
        m_orders[(v, 0)] = 0
        m_root = v
        m_rings.insert(0, (v, rng.randint(1, u - 1), 0))
        m_names[v] = 'V1'
    else:
        p = rng.randint(1, u - 2) if u >= 3 else 1
        m_children[p].insert(0, v)
        m_children[v] = []
        m_orders[(p, v)] = 0
        m_rings.insert(0, (rng.randint(0, p - 1), v, 0))
        m_names[v] = 'V1'
    o_new, o_ch, o_od, o_rg, o_nm = canon(0, children, orders, rings, names)
    m_new, m_ch, m_od, m_rg, m_nm = canon(m_root, m_children, m_orders, m_rings, m_names)
    try:
        o_text = '{' + gens.render_base(rng, o_nm, o_ch, o_od, o_rg) + '}'
        m_text = '{' + gens.render_base(rng, m_nm, m_ch, m_od, m_rg) + '}'
    except (IndexError, KeyError):
        return None
    if rng.random() < 0.35:
        o_text, m_text = pct_markers(o_text), pct_markers(m_text)
    aa = rng.random() < 0.6
    block = '.{#M=[$]C([$])[$],#T=[$]O}' if aa else '.{#M=[$][#X]([$])[#Y][$],#T=[$][#P]}'
    return {'kind': 0, 'orig': o_text + block, 'modf': m_text + block, 'rho': sorted([o_new[x], m_new[x]] for x in real), 'aa': aa,
            'levels': 1, 'legacy': rng.random() < 0.6, 'ops': ['ring-index-reused:' + variant],
            'want_o': [o_nm, sorted([sorted(k), o] for k, o in intended_edges(o_ch, o_od, o_rg).items())],
            'want_m': [m_nm, sorted([sorted(k), o] for k, o in intended_edges(m_ch, m_od, m_rg).items())]}


def later_virtual(rng, c):
    """seed C11-11: the virtual nodes of the modified base graph get names that are fragment names of a LATER fragment
    list (never of the first one, where they would be real): at their own level they are still fragment-less"""
    import re as _re
    elements = _re.findall(r"\{[^\}]+\}", c['modf'])
    if len(elements) < 3:
        return c
    first = set(_re.findall(r'#([A-Za-z0-9]+)=', elements[1]))
    later = sorted(set(_re.findall(r'#([A-Za-z0-9]+)=', ''.join(elements[2:]))) - first)
    virt = sorted(set(_re.findall(r'\[#(V[0-9]+)\]', elements[0])))
    if not later or not virt:
        return c
    ren = {v: rng.choice(later) for v in virt}
    base = elements[0]
    for v, w in ren.items():
        base = base.replace('[#%s]' % v, '[#%s]' % w)
    c = dict(c, modf=base + c['modf'][len(elements[0]):], later_virtual=True)
    if 'want_m' in c:
        c['want_m'] = [[ren.get(x, x) for x in c['want_m'][0]], c['want_m'][1]]
    return c


def pct_markers(text):
    """write every one-digit ring marker d as the two-digit marker %1d"""
    out, depth = '', 0
    for ch in text:
        if ch == '[':
            depth += 1
        elif ch == ']':
            depth -= 1
        if depth == 0 and ch.isdigit():
            out += '%1' + ch
        else:
            out += ch
    return out


def nodes_as_intended(resolver, want):
    g = resolver.molecule
    return sorted(g.nodes) == list(range(len(want[0]))) and [g.nodes[k].get('fragname') for k in sorted(g.nodes)] == want[0]


def base_as_intended(resolver, want):
    g = resolver.molecule
    names = [g.nodes[k].get('fragname') for k in sorted(g.nodes)]
    edges = sorted([sorted((u, v)), o] for u, v, o in g.edges(data='order'))
    return sorted(g.nodes) == list(range(len(want[0]))) and names == want[0] and edges == want[1]


class C11(RS.StepProp):
    id = 'C11'
    level = 'proof'
    technique = ('Coq proofs on the instantiation / bonding models (a virtual node adds nothing, an order-0 edge makes '
                 'no bond, a fragment-less node with an edge of order >= 1 is rejected) + metamorphic oracle evaluated in '
                 'Coq on the outputs of the implementation for a string and the same string with virtual nodes / zero-order '
                 'edges inserted + per-run correspondence of both runs with the model')
    vo_deps = ['theories/Resolve/C11Check.vo']
    prop_file = 'theories/Properties/C11.v'
    header = RS.HEADER.replace('Resolve.StepCheck.', 'Resolve.StepCheck Resolve.MapDefs Resolve.C11Check.')
    case_type = 'C11Check.case'
    corr_fn = 'C11Check.corr_ok'
    fail_fn = 'C11Check.prop_fail'
    shard = 8
    quick_cases = 110
    thorough_cases = 700
    extended_cases = 500
    fail_text = {1: 'the fine molecule (nodes, attributes other than fragid, edges) changed when virtual nodes / zero-order edges were inserted',
                 2: 'fragid of a fine node is not the renamed coarse key of its coarse node',
                 3: 'a real coarse node does not carry exactly its own atoms any more',
                 4: 'a virtual node carries fine nodes',
                 8: 'a fragment-less node with an edge of order >= 1 was not rejected with SyntaxError',
                 9: 'inserting virtual nodes / zero-order edges made a resolvable string fail'}

    def corpus(self, ctx):
        self.begin_round()
        fr = '.{#A=[$]CC[$],#B=[$]OC}'
        cg = '.{#A=[$][#X][#Y][$],#B=[$][#P]}'
        ml = '.{#P=[$][#A][#B][$],#Q=[$][#B][#A][$]}.{#A=[$]CC[$],#B=[$]O[$]}'
        mt = '.{#M=[$]C([$])[$],#T=[$]O}'
        lv2 = '.{#R1=[#M][#N][>],#R2=[<][#N][#M]}.{#M=[$]CC[$],#N=[$]O[$]}'
        lv3 = '.{#P=[$][#A][#B][$],#Q=[$][#B][#A][$]}.{#A=[$][#C][#C][$],#B=[$][#C][$]}.{#C=[$]C[$]}'
        r4 = '.{#A=[$]CO[$],#B=[$]CC[$],#C=[$]CN[$],#D=[$]CS[$]}'
        return [
            {'kind': 0, 'orig': '{[#A][#B]}' + fr, 'modf': '{[#V].[#A][#B]}' + fr, 'rho': [[0, 1], [1, 2]], 'aa': True, 'legacy': True},
            {'kind': 0, 'orig': '{[#A][#B]}' + fr, 'modf': '{[#A][#B].[#V]}' + fr, 'rho': [[0, 0], [1, 1]], 'aa': True, 'legacy': True},
            {'kind': 0, 'orig': '{[#A][#B]}' + fr, 'modf': '{[#A].([#V])[#B]}' + fr, 'rho': [[0, 0], [1, 2]], 'aa': True, 'legacy': True},
            {'kind': 0, 'orig': '{[#A].[#B]}' + cg, 'modf': '{[#A].[#V].[#B]}' + cg, 'rho': [[0, 0], [1, 2]], 'aa': False, 'legacy': True},
            {'kind': 0, 'orig': '{[#A][#B][#A]}' + cg, 'modf': '{[#A].1[#B][#A]1}' + cg, 'rho': [[0, 0], [1, 1], [2, 2]], 'aa': False, 'legacy': True},
            {'kind': 0, 'orig': '{[#A][#B]}' + cg, 'modf': '{[#A].1[#B].[#V]1}' + cg, 'rho': [[0, 0], [1, 1]], 'aa': False, 'legacy': True},
            {'kind': 0, 'orig': '{[#P][#Q][#P]}' + ml, 'modf': '{[#P][#Q][#P].[#V]}' + ml, 'rho': [[0, 0], [1, 1], [2, 2]], 'aa': True, 'legacy': True, 'level': 0},
            {'kind': 0, 'orig': '{[#P][#Q][#P]}' + ml, 'modf': '{[#P][#Q][#P].[#V]}' + ml, 'rho': [[0, 0], [1, 1], [2, 2]], 'aa': True, 'legacy': True, 'level': 1},
            {'kind': 0, 'orig': '{[#P][#Q]}' + ml, 'modf': '{[#P].([#V])[#Q]}' + ml, 'rho': [[0, 0], [1, 2]], 'aa': True, 'legacy': True, 'level': 1},
            {'kind': 0, 'orig': '{[#A]1[#B][#A][#B]1}' + cg, 'modf': '{[#A].21[#B][#A]2[#B]1}' + cg, 'rho': [[0, 0], [1, 1], [2, 2], [3, 3]], 'aa': False, 'legacy': True},
            {'kind': 0, 'orig': '{[#A]%11[#B][#A][#B]%11}' + cg, 'modf': '{[#A].%12%11[#B][#A]%12[#B]%11}' + cg, 'rho': [[0, 0], [1, 1], [2, 2], [3, 3]], 'aa': False, 'legacy': True},
            {'kind': 0, 'orig': '{[#A]1[#B][#A]1}' + fr, 'modf': '{[#A].21[#B][#A]1.[#V]2}' + fr, 'rho': [[0, 0], [1, 1], [2, 2]], 'aa': True, 'legacy': True},
            {'kind': 0, 'orig': '{[#A][#B]}' + fr, 'modf': '{[#A][#B].[#V]}' + fr, 'rho': [[0, 0], [1, 1]], 'aa': True, 'legacy': True, 'ctor': 'graph'},
            {'kind': 0, 'orig': '{[#A][#B][#A]}' + cg, 'modf': '{[#A].1[#B][#A]1}' + cg, 'rho': [[0, 0], [1, 1], [2, 2]], 'aa': False, 'legacy': True, 'ctor': 'graph'},
            {'kind': 0, 'orig': '{[#A][#B][#C]}.{#A=CC[$],#B=[$]O[$],#C=[$]CC}', 'modf': '{[#A]1.[#X].[#B]1[#C]}.{#A=CC[$],#B=[$]O[$],#C=[$]CC}',
             'rho': [[0, 0], [1, 2], [2, 3]], 'aa': True, 'legacy': True, 'ctor': 'graph_reused'},
            {'kind': 0, 'orig': '{[#A].[#B]}' + cg, 'modf': '{[#A].[#V].[#B]}' + cg, 'rho': [[0, 0], [1, 2]], 'aa': False, 'legacy': True, 'ctor': 'graph_reused'},
            {'kind': 0, 'orig': '{[#P][#Q]}' + ml, 'modf': '{[#P].([#V])[#Q]}' + ml, 'rho': [[0, 0], [1, 2]], 'aa': True, 'legacy': True, 'level': 0, 'ctor': 'graph_reused'},
            # one node closes TWO ring markers, the inert one written before / after the real one; virtual nodes attached by
            # ring bonds at the first, a middle and the last position (seed C11-9: the second closure of a node was lost)
            {'kind': 0, 'orig': '{[#A]1[#B][#C][#D]1}' + r4, 'modf': '{[#A]1[#B].2[#C][#D]12}' + r4,
             'rho': [[k, k] for k in range(4)], 'aa': True, 'legacy': True},
            {'kind': 0, 'orig': '{[#A]1[#B][#C][#D]1}' + r4, 'modf': '{[#A]1[#B].2[#C][#D]21}' + r4,
             'rho': [[k, k] for k in range(4)], 'aa': True, 'legacy': True},
            {'kind': 0, 'orig': '{[#A]1[#B][#C][#D]1}' + r4, 'modf': '{[#V].2.[#A]1[#B][#C][#D]21}' + r4,
             'rho': [[k, k + 1] for k in range(4)], 'aa': True, 'legacy': True},
            {'kind': 0, 'orig': '{[#A]1[#B][#C][#D]1}' + r4, 'modf': '{[#A]1[#B][#C].([#V].2)[#D]21}' + r4,
             'rho': [[0, 0], [1, 1], [2, 2], [3, 4]], 'aa': True, 'legacy': True},
            {'kind': 0, 'orig': '{[#A]1[#B][#C][#D]1}' + r4, 'modf': '{[#V].3.[#A]1.4[#B].5[#C][#D]31.[#W]45}' + r4,
             'rho': [[k, k + 1] for k in range(4)], 'aa': True, 'legacy': True},
            {'kind': 0, 'orig': '{[#A]1[#B][#C][#D]1}' + r4, 'modf': '{[#A]1.2[#B].3[#C][#D]1.[#V]23}' + r4,
             'rho': [[k, k] for k in range(4)], 'aa': True, 'legacy': True},
            # a ring index used by a zero-order ring bond is used again by a later ordinary ring (seed C11-8)
            {'kind': 0, 'orig': '{[#T][#M][#M][#M]1[#M][#M]1}' + mt, 'modf': '{[#T].1[#M][#M]1[#M]1[#M][#M]1}' + mt,
             'rho': [[k, k] for k in range(6)], 'aa': True, 'legacy': True},
            {'kind': 0, 'orig': '{[#T][#M][#M][#M]1[#M][#M]1}' + mt, 'modf': '{[#V].1.[#T][#M]1[#M][#M]1[#M][#M]1}' + mt,
             'rho': [[k, k + 1] for k in range(6)], 'aa': True, 'legacy': True},
            {'kind': 0, 'orig': '{[#T][#M][#M][#M]%10[#M][#M]%10}' + mt, 'modf': '{[#T].%10[#M][#M]%10[#M]%10[#M][#M]%10}' + mt,
             'rho': [[k, k] for k in range(6)], 'aa': True, 'legacy': True},
            # a virtual node whose name is defined as a fragment in a LATER fragment list (seed C11-11): still virtual at its level
            {'kind': 0, 'orig': '{[#R1][#R2]}' + lv2, 'modf': '{[#R1].([#M])[#R2]}' + lv2, 'rho': [[0, 0], [1, 2]], 'aa': True, 'legacy': True, 'level': 0},
            {'kind': 0, 'orig': '{[#R1][#R2]}' + lv2, 'modf': '{[#R1].([#M])[#R2]}' + lv2, 'rho': [[0, 0], [1, 2]], 'aa': True, 'legacy': True, 'level': 1},
            {'kind': 0, 'orig': '{[#R1][#R2]}' + lv2, 'modf': '{[#N].[#R1][#R2].[#M]}' + lv2, 'rho': [[0, 1], [1, 2]], 'aa': True, 'legacy': True, 'level': 0},
            {'kind': 0, 'orig': '{[#P][#Q]}' + lv3, 'modf': '{[#P].1[#Q].[#C]1}' + lv3, 'rho': [[0, 0], [1, 1]], 'aa': True, 'legacy': True, 'level': 0},
            {'kind': 0, 'orig': '{[#P][#Q]}' + lv3, 'modf': '{[#A].[#P][#Q]}' + lv3, 'rho': [[0, 1], [1, 2]], 'aa': True, 'legacy': True, 'level': 0},
            {'kind': 0, 'orig': '{[#P][#Q]}' + lv3, 'modf': '{[#A].[#P][#Q]}' + lv3, 'rho': [[0, 1], [1, 2]], 'aa': True, 'legacy': True, 'level': 2},
            {'kind': 1, 'orig': '{[#R1][#R2]}' + lv2, 'modf': '{[#R1]([#M])[#R2]}' + lv2, 'rho': [[0, 0], [1, 2]], 'aa': True, 'legacy': True},
            {'kind': 1, 'orig': '{[#P][#Q]}' + lv3, 'modf': '{[#C][#P][#Q]}' + lv3, 'rho': [[0, 1], [1, 2]], 'aa': True, 'legacy': True},
            {'kind': 1, 'orig': '{[#A][#B]}' + fr, 'modf': '{[#V][#A][#B]}' + fr, 'rho': [[0, 1], [1, 2]], 'aa': True, 'legacy': True},
            {'kind': 1, 'orig': '{[#A][#B]}' + cg, 'modf': '{[#A][#B]=[#V]}' + cg, 'rho': [[0, 0], [1, 1]], 'aa': False, 'legacy': True},
            {'kind': 1, 'orig': '{[#A][#B]}' + cg, 'modf': '{[#A].[#V][#B]}' + cg, 'rho': [[0, 0], [1, 2]], 'aa': False, 'legacy': True},
            {'kind': 1, 'orig': '{[#A][#B]}' + fr, 'modf': '{[#A][#V].[#B]}' + fr, 'rho': [[0, 0], [1, 2]], 'aa': True, 'legacy': True},
        ]

    def generate(self, ctx, n):
        if ctx.coverage['evaluations'] > 0:
            self.begin_round()
        rng = ctx.rng
        out = []
        while len(out) < n:
            c = rand_reuse_pair(rng) if rng.random() < 0.15 else rand_pair(rng, reject=rng.random() < 0.12)
            if c is not None:
                if c.get('levels', 1) > 1 and rng.random() < 0.6:
                    c = later_virtual(rng, c)
                r = rng.random()
                if r < 0.25:
                    c['ctor'] = 'graph'
                elif r < 0.4:
                    c['ctor'] = 'dicts'
                elif r < 0.58 and c['kind'] == 0:
                    c['ctor'] = 'graph_reused'
                for lv in range(c.get('levels', 1)):
                    out.append(dict(c, level=lv))
        return out

    def run_impl(self, case):
        from cgsmiles.resolve import MoleculeResolver

        level = case.get('level', 0)

        def one(text, want):
            key = (text, case['aa'], case['legacy'], case.get('ctor'))
            if key not in self._reccache:
                if len(self._reccache) > 64:
                    self._reccache.clear()
                try:
                    if case.get('ctor') == 'graph_reused' and text == case['modf'] and case['kind'] == 0:
                        # object-reuse history (seed C11-7): ONE coarse graph object goes through from_graph twice; the
                        # first fragment library also defines the nodes that are virtual in the second one (they are
                        # real, merely unbonded pieces there), so the first call leaves its annotations on the object
                        import re
                        from cgsmiles.read_cgsmiles import read_cgsmiles
                        elements = re.findall(r"\{[^\}]+\}", text)
                        G = read_cgsmiles(elements[0])
                        defined = set(re.findall(r'#([A-Za-z0-9]+)=', elements[1]))
                        virt = sorted({d.get('fragname') for _, d in G.nodes(data=True)} - defined)
                        first_aa = case['aa'] and len(elements) == 2
                        lib1 = elements[1][:-1] + ''.join(',#%s=%s' % (v, 'CC' if first_aa else '[#X]') for v in virt) + '}'
                        try:
                            MoleculeResolver.from_graph(lib1, G, last_all_atom=first_aa, legacy=case['legacy']).resolve()
                        except Exception:         # noqa: BLE001 - the first call only prepares the object
                            pass
                        r = MoleculeResolver.from_graph(''.join(elements[1:]), G, last_all_atom=case['aa'], legacy=case['legacy'])
                    elif case.get('ctor') in ('graph', 'graph_reused'):
                        # the same input through the second constructor: base graph as networkx graph
                        import re
                        from cgsmiles.read_cgsmiles import read_cgsmiles
                        elements = re.findall(r"\{[^\}]+\}", text)
                        r = MoleculeResolver.from_graph(''.join(elements[1:]), read_cgsmiles(elements[0]),
                                                        last_all_atom=case['aa'], legacy=case['legacy'])
                    elif case.get('ctor') == 'dicts':
                        # ... and through the third one: base string + fragment graphs
                        import re
                        elements = re.findall(r"\{[^\}]+\}", text)
                        dicts = MoleculeResolver.read_fragment_strings(elements[1:], last_all_atom=case['aa'])
                        r = MoleculeResolver.from_fragment_dicts(elements[0], dicts, last_all_atom=case['aa'], legacy=case['legacy'])
                    else:
                        r = MoleculeResolver.from_string(text, last_all_atom=case['aa'], legacy=case['legacy'])
                except Exception as exc:          # noqa: BLE001
                    self._reccache[key] = [{'skip': 'constructor: ' + type(exc).__name__}]
                else:
                    if want is not None and not (base_as_intended(r, want) if text == case['orig'] else nodes_as_intended(r, want)):
                        self._reccache[key] = [{'skip': 'the reader did not produce the intended base graph'}]
                    else:
                        self._reccache[key] = RS.record_all(r)
            recs = self._reccache[key]
            if 'skip' in recs[0]:
                return recs[0]
            if level >= len(recs):
                return {'skip': 'level not reached'} if text == case['orig'] else \
                       {'legacy': recs[-1]['legacy'], 'aa': recs[-1]['aa'], 'prev': [], 'fd': [], 'stage': 1,
                        'exc': 'level not reached: ' + str(recs[-1].get('exc'))}
            return recs[level]
        ro = one(case['orig'], case.get('want_o'))
        rm = one(case['modf'], case.get('want_m'))
        if level > 0 and 'skip' not in ro:
            # below the first level the coarse graph of both runs is the previous fine graph: same keys
            case = dict(case, rho=[[k, k] for k, _, _ in ro['prev']])
        if 'skip' in ro or 'skip' in rm:
            why = ro.get('skip') or rm.get('skip')
            return {'skip': why, '_k': self.put_term([], '{| c_kind := 0%%nat; c_orig := %s; c_modf := %s; c_rho := [] |}'
                                                     % (RS.TRIVIAL_STEP, RS.TRIVIAL_STEP))}
        t1, t2 = self.new_tab(), self.new_tab()
        tm = RS.lit_stepcase(rm, t2)
        to = tm if case['kind'] == 1 else RS.lit_stepcase(ro, t1)
        rho = lit.lst([lit.pair(lit.z(a), lit.z(b)) for a, b in case['rho']])
        term = '{| c_kind := %s; c_orig := %s; c_modf := %s; c_rho := %s |}' % (lit.nat(case['kind']), to, tm, rho)
        impl = {'orig': RS.rec_summary(ro), 'modf': RS.rec_summary(rm), 'class': RS.py_virtual_not_last(rm)}
        impl['_k'] = self.put_term([t1, t2], term)
        return impl

    def known_class(self, case, impl, code):
        # class virtual_not_last was repaired in /repo fa307dd (fragid := the coarse key): nothing is excused
        return None

    def describe(self, case):
        return {k: v for k, v in case.items() if k not in ('want_o', 'want_m')} | \
               ({'want_o': case['want_o'], 'want_m': case['want_m']} if 'want_o' in case else {})

    def nontrivial(self, case, impl):
        return 'skip' not in impl

    def case_class(self, case, impl):
        if 'skip' in impl:
            return 'skipped:' + impl['skip'][:40]
        if case['kind'] == 1:
            return 'reject:' + str(impl['modf'].get('exc'))
        tag = 'all-atom' if case['aa'] else 'coarse'
        if impl['orig'].get('exc'):
            return tag + ':original-not-resolvable'
        tag += {'graph': ':from_graph', 'dicts': ':from_fragment_dicts', 'graph_reused': ':from_graph:object-resolved-before'}.get(case.get('ctor'), '')
        return '%s:%s%s%s' % (tag, 'level%d:' % case['level'] if case.get('level') else '', '+'.join(sorted(set(case.get('ops', ['corpus'])))),
                            ':virtual-before-real' if impl['class'] else '')


PROP = C11()
