"""C16 — sampled polymers are well-formed molecules built from the given fragments.

Tie: `find_complementary_bonding_descriptor`, `_set_bond_order_defaults`, the weight look-up and the
loop guard are regenerated from the source on every run (tools/gen_sampler.py -> Gen/SamplerGen.v)
and the theorems are re-checked against them; __init__/add_fragment/sample/merge_graphs/
find_open_bonds/sort_nodes_by_attr/set_atom_names_atomistic are hand-modelled (Sample/SampleImpl.v)
and compared with the implementation on every run.  Randomness is explicit: the harness wraps
random.choice / random.choices (module `random` as used by sample.py), records the INDEX picked at
every call and feeds the recorded indices to the model.  The finalisation is modelled on the networkx
graph itself (node and adjacency orders): rebuild_h_atoms by the Hydro model (only pysmiles'
correct_aromatic_rings is a recorded transcript with a checked contract), sort_nodes_by_attr and
the naming by the Resolve models.

This module also holds the harness shared with C17 (tools/props/c17.py imports it)."""
import copy
import math
import random as pyrandom
import re

import networkx as nx

import common
import gens
import lit

SKIP_NODE = ('_atom_str', '_pos')
SKIP_EDGE = ('_bond_str', '_pos')
AA_SKELETONS = [s for s in gens.AA_SKELETONS if not re.search(r'[cnos]', s.replace('Cl', ''))]
EXPLICIT_H_SKELETONS = ['C([H])C', '[H]C', 'C([H])([H])', 'OC([H])', 'C[H;w=0.5]', '[H]', '[H]', 'N([H])C', 'C(=O)[O-]', '[NH3+]',
                        'C[NH2+]C', '[Na+]', 'CC(=O)[O-]', '[H]OC']
DESC_RE = re.compile(r'([=#]?)\[([$<>!][A-Za-z0-9]*)\]')
SYM_ORDER = {'': 1, '=': 2, '#': 3}


# ------------------------------------------------------------------------------- recording
class PickRecorder:
    """wraps random.choice / random.choices for the duration of a run; the replacement consumes the
    generator exactly like the original (the original is called on range(n)) and records the index"""

    def __init__(self):
        self.picks = []          # flat list of (n, index, weights or None)
        self.unrecorded = 0

    def __enter__(self):
        self.oc, self.ocs = pyrandom.choice, pyrandom.choices
        rec = self

        def choice(seq):
            n = len(seq)
            if n == 0:
                return rec.oc(seq)
            i = rec.oc(range(n))
            rec.picks.append((n, i, None))
            return seq[i]

        def choices(population, weights=None, *, cum_weights=None, k=1):
            if cum_weights is not None or k != 1 or weights is None:
                rec.unrecorded += 1
                return rec.ocs(population, weights=weights, cum_weights=cum_weights, k=k)
            n = len(population)
            i = rec.ocs(range(n), weights=weights)[0]
            rec.picks.append((n, i, [float(w) for w in weights]))
            return [population[i]]
        pyrandom.choice, pyrandom.choices = choice, choices
        return self

    def __exit__(self, *a):
        pyrandom.choice, pyrandom.choices = self.oc, self.ocs


def graph_obs(g):
    return {'nodes': [[n, {k: v for k, v in d.items() if k not in SKIP_NODE}] for n, d in g.nodes(data=True)],
            'edges': [[u, v, {k: w for k, w in d.items() if k not in SKIP_EDGE}] for u, v, d in g.edges(data=True)]}


def graph_nx(g):
    """networkx state with node order and adjacency order: [[key, attrs, [[nbr, edge attrs], ...]], ...]"""
    return [[n, {k: v for k, v in d.items() if k not in SKIP_NODE},
             [[w, {k: x for k, x in ed.items() if k not in SKIP_EDGE}] for w, ed in g._adj[n].items()]]
            for n, d in g._node.items()]


def build_fragments(case):
    from cgsmiles.read_fragments import read_fragments
    return read_fragments(case['frags'], all_atom=case['aa'])


def user_objects(case):
    """the caller-owned objects of one history: fragment dict and tables (handed to every constructor call)"""
    fd = build_fragments(case)
    kwargs = dict(polymer_reactivities=copy.deepcopy(case['poly']),
                  fragment_reactivities=copy.deepcopy(case['fragreact']),
                  terminal_bonds=list(case['term']))
    if case.get('masses') is not None:
        kwargs['fragment_masses'] = dict(case['masses'])
    return fd, kwargs


def run_sampler(case, objects=None):
    """drive the implementation on one case; returns the observation dict.  `objects` = the
    caller-owned fragment dict and tables to reuse (histories); fresh ones otherwise"""
    import cgsmiles.sample as smod
    out = {}
    try:
        fd, kwargs = objects if objects is not None else user_objects(case)
    except Exception as exc:
        return {'skip': 'read_fragments:' + type(exc).__name__}
    out['templates'] = {nm: graph_obs(g) for nm, g in fd.items()}
    # how the caller constructs the sampler: all_atom given explicitly, or left to its DOCUMENTED default
    # (True; only for all-atom cases), through the plain constructor or through from_fragment_string
    ctor = case.get('ctor', 'explicit')
    kwargs = dict(kwargs, seed=case['seed'])
    if ctor in ('explicit', 'fromstr_explicit') or not case['aa']:
        kwargs['all_atom'] = case['aa']
    # compute_mass (constructor, PTE masses) completes a copy of every fragment: record the elements of the completed
    # copy in node order (compute_mass looks rebuild_h_atoms up in pysmiles_utils; sample() has its own binding)
    import cgsmiles.pysmiles_utils as pu
    completed = []
    orig_pu_h = pu.rebuild_h_atoms

    def ctor_rebuild(mol, *a, **kw):
        r = orig_pu_h(mol, *a, **kw)
        completed.append([str(d.get('element', '')) for _, d in mol.nodes(data=True)])
        return r
    pu.rebuild_h_atoms = ctor_rebuild
    try:
        if ctor.startswith('fromstr'):
            sampler = smod.MoleculeSampler.from_fragment_string(case['frags'], **kwargs)
            out['templates'] = {nm: graph_obs(g) for nm, g in sampler.fragment_dict.items()}
        else:
            sampler = smod.MoleculeSampler(fd, **kwargs)
    except Exception as exc:
        out['exc'] = (type(exc).__name__, 0)
        return out
    finally:
        pu.rebuild_h_atoms = orig_pu_h
    out['completed'] = completed
    out['init'] = {'poly': dict(sampler.polymer_reactivities),
                   'fragreact': {k: dict(v) for k, v in sampler.fragment_reactivities.items()},
                   'term': list(sampler.terminal_bonds),
                   'masses': dict(sampler.fragment_masses),
                   'byb': {k: [list(x) for x in v] for k, v in sampler.fragments_by_bonding.items()}}
    calls = []                   # per add_fragment call: [open_bonds, first pick index, returned name]
    snaps = {}
    orig_add = sampler.add_fragment
    orig_h, orig_sort = smod.rebuild_h_atoms, smod.sort_nodes_by_attr
    rec = PickRecorder()

    def add_fragment(molecule, open_bonds, *a, **kw):
        calls.append([{k: list(v) for k, v in open_bonds.items()}, len(rec.picks), None])
        res = orig_add(molecule, open_bonds, *a, **kw)
        calls[-1][2] = res[1]
        return res

    import pysmiles.smiles_helper as psh
    orig_car = psh.correct_aromatic_rings

    def car_wrapper(mol, *a, **kw):
        r = orig_car(mol, *a, **kw)
        if snaps.get('in_h') and 'car' not in snaps:
            snaps['car'] = graph_nx(mol)
        return r

    def rebuild_h(mol, *a, **kw):
        snaps['pre'] = graph_nx(mol)
        snaps['stage'] = 2
        snaps['in_h'] = True
        try:
            return orig_h(mol, *a, **kw)
        finally:
            snaps['in_h'] = False

    def sort_nodes(graph, *a, **kw):
        if 'pre' not in snaps:
            snaps['pre'] = graph_nx(graph)
        snaps['stage'] = 2
        return orig_sort(graph, *a, **kw)

    sampler.add_fragment = add_fragment
    smod.rebuild_h_atoms, smod.sort_nodes_by_attr = rebuild_h, sort_nodes
    psh.correct_aromatic_rings = car_wrapper
    try:
        with rec:
            try:
                mol = sampler.sample(case['target'], start_fragment=case.get('start'))
                out['final'] = graph_obs(mol)
                out['final_nx'] = graph_nx(mol)
            except Exception as exc:
                out['exc'] = (type(exc).__name__, snaps.get('stage', 1))
    finally:
        smod.rebuild_h_atoms, smod.sort_nodes_by_attr = orig_h, orig_sort
        psh.correct_aromatic_rings = orig_car
        del sampler.add_fragment
    first = calls[0][1] if calls else len(rec.picks)
    out['picks0'] = [i for _, i, _ in rec.picks[:first]]
    bounds = [c[1] for c in calls] + [len(rec.picks)]
    out['steps'] = [[i for _, i, _ in rec.picks[a:b]] for a, b in zip(bounds, bounds[1:])]
    out['obs'] = [c[0] for c in calls]
    out['added'] = [c[2] for c in calls if c[2] is not None]
    out['unrecorded'] = rec.unrecorded
    # the stop rule in exact rational arithmetic on the recorded (binary64 / int) masses
    try:
        from fractions import Fraction
        ms = [Fraction(out['init']['masses'][nm]) for nm in out['added']]
        tgt = Fraction(case['target'])
        out['exact'] = [sum(ms, Fraction(0)) >= tgt, (not ms) or sum(ms[:-1], Fraction(0)) < tgt]
    except (KeyError, TypeError, ValueError):
        out['exact'] = []
    out['pre'] = snaps.get('pre')
    out['car'] = snaps.get('car')
    return out


# ------------------------------------------------------------------------------- literals
def fl(x):
    x = float(x)
    if math.isnan(x) or math.isinf(x):
        raise ValueError('non-finite float in a case')
    return '(%s)%%float' % x.hex()


def attrs_lit(d, edge=False):
    items = []
    for k, v in d.items():
        if edge and k == 'bonding' and isinstance(v, (tuple, list)):
            v = tuple(v)
        items.append(lit.pair(lit.s(str(k)), lit.pyval(v)))
    return lit.lst(items)


def nx_lit(g):
    recs = []
    for n, d, adj in g:
        recs.append('{| nk := %s; na := %s; nadj := %s |}'
                    % (lit.z(n), attrs_lit(d), lit.lst([lit.pair(lit.z(w), attrs_lit(ed, edge=True)) for w, ed in adj])))
    return lit.lst(recs)


def template_lit(g):
    nodes = []
    for n, d in g['nodes']:
        rest = {k: v for k, v in d.items() if k not in ('bonding', 'fragid')}
        b = 'None' if 'bonding' not in d else '(Some %s)' % lit.lst([lit.s(x) for x in d['bonding']])
        nodes.append('{| t_key := %s; t_fragid := %s; t_bonding := %s; t_attrs := %s |}'
                     % (lit.z(n), lit.z(d.get('fragid', 0)), b, attrs_lit(rest)))
    edges = ['(%s, %s, %s)' % (lit.z(u), lit.z(v), attrs_lit(d)) for u, v, d in g['edges']]
    return '{| f_nodes := %s; f_edges := %s |}' % (lit.lst(nodes), lit.lst(edges))


def fdict_lit(d):
    return lit.lst([lit.pair(lit.s(k), fl(v)) for k, v in d.items()])


def fr_lit(d):
    return lit.lst([lit.pair(lit.s(k), fdict_lit(v)) for k, v in d.items()])


TRIVIAL = ('{| k_aa := false; k_frags := []; k_poly := []; k_fragreact := []; k_term := []; k_user_masses := None; '
           'k_target := (0x0p+0)%float; k_start := None; k_init := None; k_picks0 := []; k_steps := []; k_obs := []; '
           'k_added := []; k_det := []; k_completed := []; k_hist := []; k_exact := []; k_out := OExc (S "OSError") 0 |}')   # consistent: model and oracle agree


def case_lit(case, impl, det=(), hist=()):
    if 'skip' in impl or impl.get('unrecorded'):
        return None
    frags = lit.lst([lit.pair(lit.s(nm), template_lit(g)) for nm, g in impl['templates'].items()])
    if 'init' in impl:
        i = impl['init']
        init = '(Some (%s, %s, %s, %s, %s))' % (
            fdict_lit(i['poly']), fr_lit(i['fragreact']), lit.lst([lit.s(x) for x in i['term']]), fdict_lit(i['masses']),
            lit.lst([lit.pair(lit.s(k), lit.lst([lit.pair(lit.s(a), lit.z(b_)) for a, b_ in v])) for k, v in i['byb'].items()]))
    else:
        init = 'None'
    if 'exc' in impl:
        outc = '(OExc %s %s)' % (lit.s(impl['exc'][0]), lit.nat(impl['exc'][1]))
    else:
        # a sample() that returned without reaching the finalisation stages (no rebuild_h_atoms / sort call was seen):
        # what WAS returned is recorded and judged; the missing snapshot is the empty graph (never equal to the model's)
        pre = impl.get('pre')
        outc = '(ODone %s %s %s)' % (nx_lit(pre if pre is not None else []), lit.opt(impl.get('car'), nx_lit),
                                     nx_lit(impl['final_nx']))
    obs = lit.lst([lit.lst([lit.pair(lit.s(k), lit.lst([lit.z(x) for x in v])) for k, v in ob.items()])
                   for ob in impl.get('obs', [])])
    masses = case.get('masses')
    return ('{| k_aa := %s; k_frags := %s; k_poly := %s; k_fragreact := %s; k_term := %s; k_user_masses := %s; '
            'k_target := %s; k_start := %s; k_init := %s; k_picks0 := %s; k_steps := %s; k_obs := %s; k_added := %s; '
            'k_det := %s; k_completed := %s; k_hist := %s; k_exact := %s; k_out := %s |}'
            % (lit.b(case['aa']), frags, fdict_lit(case['poly']), fr_lit(case['fragreact']),
               lit.lst([lit.s(x) for x in case['term']]),
               'None' if masses is None else '(Some %s)' % fdict_lit(masses),
               fl(case['target']), lit.opt(case.get('start'), lit.s), init,
               lit.lst([lit.nat(i) for i in impl.get('picks0', [])]),
               lit.lst([lit.lst([lit.nat(i) for i in st]) for st in impl.get('steps', [])]),
               obs, lit.lst([lit.s(x) for x in impl.get('added', [])]),
               lit.lst([lit.b(x) for x in det]),
               lit.lst([lit.lst([lit.s(e) for e in els]) for els in impl.get('completed', [])]),
               lit.lst([lit.b(x) for x in hist]), lit.lst([lit.b(x) for x in impl.get('exact', [])]), outc))


# ------------------------------------------------------------------------------- generator
def descriptors_of(text):
    """descriptors as the fragment graphs carry them (with the order digit), per fragment definition"""
    out = []
    for sym, d in DESC_RE.findall(text):
        out.append(d + str(SYM_ORDER[sym]))
    return out


def user_key(rng, d):
    """how a user may write descriptor d in a table: the order suffix 1 may be left out"""
    if d.endswith('1') and not d[-2:-1].isdigit() and rng.random() < 0.5:
        return d[:-1]
    return d


def rand_weight(rng, pzero):
    if rng.random() < pzero:
        return rng.choice([0, 0.0])
    return rng.choice([1, 2, 0.1, 0.25, 0.5, 0.8, 1.0, 3])


def capped_case(rng):
    """all-atom sets whose trajectories end with every chain end capped: a dimer of two one-descriptor fragments
    (target below the second fragment's mass: the run succeeds with no descriptor left), initiator / monomer /
    terminator (capped when a terminator is drawn: success if the target was reached, IndexError = outside the
    domain otherwise), a star core whose arms are all capped by the time the target is reached"""
    kind = rng.randrange(4)
    caps = ['OC', 'O', 'N', 'CC', 'C(F)C', 'Cl', 'C(=O)OC', 'CO']
    if kind == 0:
        a, b = rng.sample(caps, 2)
        d1, d2 = rng.choice([('>', '<'), ('<', '>'), ('$', '$'), ('$A', '$B')])
        frags = '{#ET=[%s]%s,#OME=[%s]%s}' % (d1, a, d2, b)
        target, start = rng.choice([1, 5, 10, 14]), rng.choice([None, 'ET', 'OME'])
    elif kind == 1:
        frags = '{#I=%s[>],#M=[<]%s[>],#T=[<]%s}' % (rng.choice(['CC', 'C', 'OC']), rng.choice(['CC', 'CC(C)', 'CO']),
                                                      rng.choice(caps))
        target, start = rng.choice([20, 40, 60, 90]), 'I'
    elif kind == 2:
        n = rng.choice([2, 3, 4])
        core = {2: 'C([>])[>]', 3: 'C([>])([>])[>]', 4: 'C([>])([>])([>])[>]'}[n]
        frags = '{#X=%s,#CAP=[<]%s}' % (core, rng.choice(['OC', 'CC', 'CO']))
        # the caps weigh about 29..31: the target falls between n-1 and n caps (success, all arms capped) or above
        target, start = rng.choice([29 * (n - 1) + 10, 29 * (n - 1) + 10, 31 * n + 20]), 'X'
    else:
        frags = '{#A=[$]CC[$],#E=[$]%s}' % rng.choice(caps)
        target, start = rng.choice([20, 50, 80]), rng.choice([None, 'A', 'E'])
    names = re.findall(r'#(\w+)=', frags)
    masses = None if rng.random() < 0.7 else {nm: rng.choice([15, 29, 31, 44.5]) for nm in names}
    return {'frags': frags, 'aa': True, 'poly': {}, 'fragreact': {}, 'term': [], 'masses': masses,
            'seed': rng.randint(0, 10 ** 6), 'target': target, 'start': start,
            'ctor': rng.choice(['explicit', 'default', 'fromstr'])}


def rand_case(rng, mode=None):
    if mode is None and rng.random() < 0.07:
        return capped_case(rng)
    aa = rng.random() < 0.55
    nfr = rng.choice([1, 2, 2, 3, 3, 4])
    names = rng.sample(['A', 'B', 'PEO', 'D', 'OH', 'X'], nfr)
    kinds = rng.choice(['$', '$$><', '><', '$$$><', '$><' if rng.random() < 0.9 else '$><!'])
    # labels may end in digits ([$A1], [>B2], BigSMILES-style [$1], [<12]): the reader appends the order digit,
    # so '$A11' is label A1 with order 1 and the bond order is the LAST character only
    labels = rng.choice([('',), ('', 'A'), ('', '', 'A', 'B'), ('A', 'B', 'C'),
                         ('A1', 'B2', '1', '12'), ('', 'A1', '1'), ('A', 'A1', 'A2'), ('1', '2')])
    syms = rng.choice([('',), ('', '', '', '='), ('', '', '=', '#')])
    pool = AA_SKELETONS if aa else gens.CG_SKELETONS
    aromatic = aa and rng.random() < 0.08      # aromatic rings: the mass model does not cover them -> user masses
    defs = []
    for nm in names:
        sk = rng.choice(pool)
        if aromatic and rng.random() < 0.6:
            sk = rng.choice(['c1ccccc1', 'Cc1ccccc1', 'c1ccncc1'])
        elif aa and rng.random() < 0.15:
            # bracket atoms (stored hydrogen count / charge / other element), possibly at a descriptor site
            sk = rng.choice(['[CH2]C', '[Si](C)(C)O', '[N+](C)(C)C', '[O-]', 'C[NH]C', '[CH3]', 'O[Si](C)(C)'])
        elif aa and rng.random() < 0.14:
            # explicit hydrogens (the reader keeps them as atoms), annotated hydrogens, single-hydrogen fragments
            # (end caps), charged atoms; a descriptor may land on the hydrogen itself
            sk = rng.choice(EXPLICIT_H_SKELETONS)
        nd = rng.choice([1, 1, 2, 2, 3, 4]) if rng.random() < 0.95 else 0
        defs.append('#%s=%s' % (nm, gens.decorate(rng, sk, nd, kinds=kinds, labels=labels, syms=syms)))
    # make growth possible most of the time: a '>'/'<' descriptor usually gets its complement somewhere
    for _ in range(3):
        present = set(descriptors_of(','.join(defs)))
        missing = []
        for d in sorted(present):
            if d[0] in '<>':
                c = ('>' if d[0] == '<' else '<') + d[1:]
                if c not in present and c not in missing:
                    missing.append(c)
        if not missing or rng.random() < 0.15:
            break
        c = rng.choice(missing)
        k = rng.randrange(len(defs))
        head, body = defs[k].split('=', 1)
        if len(DESC_RE.findall(body)) >= 4:
            continue
        ends = gens.split_atoms(body)
        e = rng.choice(ends)
        sym = {'1': '', '2': '=', '3': '#'}[c[-1]]
        defs[k] = head + '=' + body[:e] + sym + '[' + c[:-1] + ']' + body[e:]
    frags = '{' + ','.join(defs) + '}'
    small_start = None
    if aa and len(names) >= 2 and rng.random() < 0.15:
        # size-mixed set with a small start: a one-atom fragment first, a five/six-atom fragment attached to it
        o = rng.choice(['', '', '='])
        defs[0] = '#%s=%s[$]%s%s[$]' % (names[0], o, rng.choice(['O', 'N', 'C', 'S']) if not o else 'C', o)
        defs[1] = '#%s=%s[$]%s%s[$]' % (names[1], o, rng.choice(['CC(C)(C)C', 'CC(C)CC', 'C(C)(C)CO']), o)
        frags = '{' + ','.join(defs) + '}'
        small_start = names[0]
    descs = []
    for d in descriptors_of(frags):
        if d not in descs:
            descs.append(d)
    r = rng.random()
    pz = rng.choice([0.0, 0.0, 0.15, 0.3])
    if r < 0.25 or not descs:
        poly = {}
    elif r < 0.9:
        poly = {user_key(rng, d): rand_weight(rng, pz) for d in rng.sample(descs, len(descs))}
    else:
        poly = {user_key(rng, d): rand_weight(rng, pz) for d in rng.sample(descs, rng.randint(1, len(descs)))}
    fragreact = {}
    if descs and rng.random() < 0.5:
        for d in rng.sample(descs, rng.randint(1, len(descs))):
            partners = [p for p in descs if p[0] == {'$': '$', '>': '<', '<': '>', '!': '!'}[d[0]]] or descs
            if rng.random() < 0.2:
                partners = descs
            sub = rng.sample(partners, rng.randint(0 if rng.random() < 0.1 else 1, len(partners)))
            fragreact[user_key(rng, d)] = {user_key(rng, p): rand_weight(rng, pz) for p in sub}
    term = []
    if descs and rng.random() < 0.4:
        term = [user_key(rng, d) for d in rng.sample(descs, rng.randint(1, min(2, len(descs))))]
    if aa and not aromatic and rng.random() < 0.65:
        masses = None
    elif not aa and rng.random() < 0.04:
        masses = None
    else:
        masses = {nm: rng.choice([rng.randint(5, 90), round(rng.uniform(5, 90), 2)]) for nm in names}
    target = rng.choice([0, -5, 20, 45, 60.5, 100, 100, 150, 150, 220, 220, 300, 300, 400])
    start = rng.choice(names) if rng.random() < 0.3 else None
    if small_start:
        start = small_start
    # targets in near-coincidence with a reachable sum: all fragments get the same user mass m and the target
    # is N*m moved by a relative 5e-6 / an absolute tiny amount, a rounded multiple (33.3333 x 3 vs 100), a
    # huge mass with the target one unit above a multiple, or a tiny positive target
    if rng.random() < 0.22:
        m = rng.choice([33.3333, 100000, 250000, 1, 12.5, 0.1, 7])
        masses = {nm: m for nm in names}
        n = rng.randint(1, 5)
        kind = rng.randrange(7)
        if kind == 0:
            target = n * m * (1 + 5e-6)
        elif kind == 1:
            target = n * m * (1 - 5e-6)
        elif kind == 2:
            target = n * m
        elif kind == 3:
            target = n * m + (1 if m >= 1e5 else 1e-9)
        elif kind == 4:
            target = round(n * m + 0.4999 * 10 ** -rng.choice([0, 1, 2, 3]), rng.choice([0, 1, 2, 3]))
        elif kind == 5:
            target = rng.choice([1e-9, 5e-9, 1e-12, 9.9e-9])
        else:
            target = sum([m] * n) + rng.choice([0.0, 1e-12 * m, -1e-12 * m])
        if target > 8 * m:               # keep the molecule small
            target = n * m
    # how the sampler is constructed (see run_sampler)
    if aa:
        ctor = rng.choice(['explicit', 'explicit', 'default', 'default', 'fromstr', 'fromstr_explicit'])
    else:
        ctor = rng.choice(['explicit', 'explicit', 'explicit', 'fromstr_explicit'])
    return {'frags': frags, 'aa': aa, 'poly': poly, 'fragreact': fragreact, 'term': term, 'masses': masses,
            # the valid seed 0 (falsy!) and other small seeds are part of the domain
            'seed': rng.choice([0, 0, 0, 1, 2, 3, 7]) if rng.random() < 0.25 else rng.randint(0, 10 ** 6),
            'target': target, 'start': start, 'ctor': ctor}


CORPUS = [
    # every chain end capped when the target is reached (the run succeeds with no descriptor left)
    {'frags': '{#ET=[>]CC,#OME=[<]OC}', 'aa': True, 'poly': {}, 'fragreact': {}, 'term': [], 'masses': None,
     'seed': 1, 'target': 10, 'start': 'ET', 'ctor': 'explicit'},
    {'frags': '{#X=C([>])([>])[>],#CAP=[<]OC}', 'aa': True, 'poly': {}, 'fragreact': {}, 'term': [], 'masses': None,
     'seed': 2, 'target': 70, 'start': 'X', 'ctor': 'explicit'},
    {'frags': '{#I=CC[>],#M=[<]CC[>],#T=[<]O}', 'aa': True, 'poly': {}, 'fragreact': {}, 'term': [], 'masses': None,
     'seed': 3, 'target': 40, 'start': 'I', 'ctor': 'explicit'},
    # a larger fragment attached while the molecule is still smaller (one-atom start)
    {'frags': '{#A=[$]O[$],#B=[$]CC(C)(C)C[$]}', 'aa': True, 'poly': {}, 'fragreact': {}, 'term': [], 'masses': None,
     'seed': 1, 'target': 150, 'start': 'A', 'ctor': 'explicit'},
    {'frags': '{#A=[>]N[<],#B=[<]CC(C)CC[>]}', 'aa': True, 'poly': {}, 'fragreact': {}, 'term': [], 'masses': {'A': 15, 'B': 70},
     'seed': 2, 'target': 140, 'start': 'A', 'ctor': 'default'},
    # bracket atoms at bonding sites, masses left to be computed (DMS: target in the n x 1.008 window)
    {'frags': '{#DMS=[<][Si](C)(C)O[>]}', 'aa': True, 'poly': {}, 'fragreact': {}, 'term': [], 'masses': None,
     'seed': 1, 'target': 760, 'start': None, 'ctor': 'explicit'},
    {'frags': '{#A=[$][N+](C)(C)C[$],#B=[$][O-],#D=[$][CH2]C}', 'aa': True, 'poly': {}, 'fragreact': {}, 'term': [], 'masses': None,
     'seed': 3, 'target': 200, 'start': 'A', 'ctor': 'explicit'},
    # seed 0 is a valid seed: two constructions with it must give the same molecule
    {'frags': '{#A=[$]CC[$],#B=[$]CO[$],#D=[$]N[$]}', 'aa': True, 'poly': {}, 'fragreact': {}, 'term': [], 'masses': None,
     'seed': 0, 'target': 250, 'start': None, 'ctor': 'explicit'},
    {'frags': '{#A=[>][#X][<],#B=[>][#Y][$][<],#D=[$][#Z][$]}', 'aa': False, 'poly': {'>': 1, '<': 2, '$': 1}, 'fragreact': {},
     'term': [], 'masses': {'A': 10, 'B': 12, 'D': 7}, 'seed': 0, 'target': 80, 'start': None, 'ctor': 'explicit'},
    # '$' descriptors of two bond orders, two distinct wrong-order strings consecutive in the descriptor index
    {'frags': '{#A=[$]CC[$],#B=[$a]=CC=[$b]}', 'aa': True, 'poly': {}, 'fragreact': {}, 'term': [], 'masses': None,
     'seed': 3, 'target': 160, 'start': 'A', 'ctor': 'explicit'},
    {'frags': '{#A=[$x]=[#P]=[$y],#B=[$][#Q][$],#D=[$z]=[#R]}', 'aa': False, 'poly': {}, 'fragreact': {}, 'term': [],
     'masses': {'A': 10, 'B': 10, 'D': 10}, 'seed': 4, 'target': 60, 'start': 'B', 'ctor': 'explicit'},
    # all_atom left to its documented default (True) while fragment_masses are supplied
    {'frags': '{#A=[$]CC[$],#B=[$]CO}', 'aa': True, 'poly': {}, 'fragreact': {}, 'term': [], 'masses': {'A': 28, 'B': 31},
     'seed': 5, 'target': 100, 'start': 'A', 'ctor': 'default'},
    {'frags': '{#A=[>]CC[<],#B=[<]N[>]}', 'aa': True, 'poly': {}, 'fragreact': {}, 'term': [], 'masses': {'A': 28.05, 'B': 15},
     'seed': 6, 'target': 90, 'start': None, 'ctor': 'fromstr'},
    # targets in near-coincidence with a reachable sum
    {'frags': '{#A=[$][#X][$]}', 'aa': False, 'poly': {}, 'fragreact': {}, 'term': [], 'masses': {'A': 33.3333},
     'seed': 1, 'target': 100, 'start': None, 'ctor': 'explicit'},
    {'frags': '{#A=[$][#X][$]}', 'aa': False, 'poly': {}, 'fragreact': {}, 'term': [], 'masses': {'A': 100000},
     'seed': 1, 'target': 300001, 'start': None, 'ctor': 'explicit'},
    {'frags': '{#A=[$]CC[$]}', 'aa': True, 'poly': {}, 'fragreact': {}, 'term': [], 'masses': None,
     'seed': 1, 'target': 1e-9, 'start': None, 'ctor': 'explicit'},
    {'frags': '{#A=[$A1]CC[$A2],#B=[$A1]=C[$A2]=C}', 'aa': True, 'poly': {'$A11': 1, '$A21': 1, '$A12': 1, '$A22': 1},
     'fragreact': {}, 'term': [], 'masses': None, 'seed': 2, 'target': 150, 'start': 'A'},
    {'frags': '{#A=[>B2][#X][<B2],#B=[<B2][#Y][>B2][$1]}', 'aa': False, 'poly': {}, 'fragreact': {}, 'term': ['$11'],
     'masses': {'A': 10, 'B': 20}, 'seed': 4, 'target': 90, 'start': None},
    {'frags': '{#A=[<12]CC[>12],#B=[$1]O[$1]}', 'aa': True, 'poly': {}, 'fragreact': {}, 'term': [], 'masses': None,
     'seed': 9, 'target': 120, 'start': None},
    {'frags': '{#PMA=[>]CC[<]C(=O)OC[>A],#PEG=[<A]COC[>A][$A],#OH=[$B]O}', 'aa': True,
     'poly': {'<': 0.1, '>': 0.1, '>A': 0.8, '<A': 0.8, '$A': 0.3, '$B': 0.0},
     'fragreact': {'$A': {'$A': 0, '$B': 1.0}}, 'term': ['$A', '$B'], 'masses': None, 'seed': 3, 'target': 300,
     'start': None},
    {'frags': '{#GLC=[$A][#A]1[#B][$B][#C]1[$C]}', 'aa': False,
     'poly': {'$A': 0.8, '$C': 0.1, '$B': 0.1},
     'fragreact': {'$A': {'$A': 0.0, '$C': 1.0, '$B': 0.0}, '$B': {'$A': 1.0, '$C': 0.0, '$B': 0.0},
                   '$C': {'$A': 1.0, '$C': 0.0, '$B': 0.0}},
     'term': [], 'masses': {'GLC': 165}, 'seed': 11, 'target': 1200, 'start': None},
    {'frags': '{#PMMA=[$A]C(C)C[$B]C(=O)OC,#PS=[$C]CC[$D]C1CCCC1}', 'aa': True,
     'poly': {'$A': 0.5, '$B': 0, '$C': 0.5, '$D': 0.0},
     'fragreact': {'$A': {'$A': 0., '$C': 0., '$B': 0.7, '$D': 0.3}, '$B': {'$A': 0.7, '$C': 0.3, '$B': 0.0, '$D': 0.0},
                   '$C': {'$A': 0., '$C': 0., '$B': 0.3, '$D': 0.7}, '$D': {'$A': 0.3, '$C': 0.7, '$B': 0.0, '$D': 0.0}},
     'term': [], 'masses': None, 'seed': 5, 'target': 500, 'start': 'PS'},
    {'frags': '{#A=[$]=CC[$],#B=[$]=C[$][$]}', 'aa': True, 'poly': {}, 'fragreact': {}, 'term': [], 'masses': None,
     'seed': 1, 'target': 120, 'start': None},
    {'frags': '{#A=[>][#X][<],#B=[<][#Y][>]=[>]}', 'aa': False, 'poly': {'>': 1, '<': 1}, 'fragreact': {}, 'term': [],
     'masses': {'A': 10, 'B': 20}, 'seed': 7, 'target': 100, 'start': 'A'},
]

FAIL_TEXT16 = {
    1: 'the returned molecule is not connected',
    2: 'not a tree of fragment copies: #inter-fragment bonds != #copies - 1, or an added copy is not attached by exactly one bond',
    3: 'an inter-fragment bond does not join complementary descriptors of equal order (or its order differs)',
    4: 'a descriptor was used more often than the template wrote it on that atom',
    5: 'a fragment copy is not isomorphic to its template through the merge correspondence',
    6: ('node keys are not 0..n-1 sorted by fragid / fragment membership not canonical / inside a copy: template atoms '
        'first, then the hydrogens in the order of their parents, atom name = element + rank of the key in the copy'),
    7: 'all-atom sample violates valence completeness (statement of C09)',
    9: 'the implementation raised an exception although the tables allow growth at that step',
}


class SamplerProp(common.Prop):
    """shared by C16 and C17"""
    level = 'proof'
    vo_deps = ['theories/Sample/SampleCheck.vo']
    case_requires = ('From Coq Require Import String.\nFrom Coq Require Import List Ascii ZArith Bool.\n'
                     'From Coq Require Import Floats.PrimFloat.\n'
                     'From CGV Require Import Base.PyBase Base.PyVal Base.NxGraph Sample.SampleImpl Sample.SampleCheck.')
    corr_fn = 'corr_ok'
    shard = 12      # small shards: a case file stays below ~0.5 GB resident (the shared machine kills the largest coqc when memory runs out)
    quick_cases = 400
    thorough_cases = 2500
    extended_cases = 400

    def corpus(self, ctx):
        cs = [dict(c) for c in CORPUS]
        # minimised past failures / past false alarms of the oracle (corpus/C16/*.json)
        import glob, json, os
        for f in sorted(glob.glob(os.path.join(common.VERIF, 'corpus', 'C16', '*.json'))):
            try:
                cs.append(json.load(open(f))['input'])
            except (OSError, ValueError, KeyError):
                pass
        return cs

    def generate(self, ctx, n):
        return [rand_case(ctx.rng) for _ in range(n)]

    def run_impl(self, case):
        return run_sampler(case)

    def coq_case(self, case, impl):
        return case_lit(case, impl, impl.get('det', ()), impl.get('hist', ())) or TRIVIAL

    def nontrivial(self, case, impl):
        return 'final' in impl and len(impl.get('added', [])) >= 1

    def python_oracle(self, case, impl):
        """Python mirror used only when the Coq side cannot judge a case (case file does not evaluate, observation
        not printable): judges the RETURNED molecule conservatively (connected; keys 0..n-1; all-atom: the integer
        bond orders of a heavy atom within its largest usual valence add up to one of its usual valences)"""
        if 'final' not in impl or '!' in case['frags']:
            return 0
        g = impl['final']
        nodes = {n: d for n, d in g['nodes']}
        gr = nx.Graph()
        gr.add_nodes_from(nodes)
        gr.add_edges_from((u, v) for u, v, _ in g['edges'])
        if len(gr) and not nx.is_connected(gr):
            return 1
        if sorted(nodes) != list(range(len(nodes))):
            return 6
        if case['aa'] and self.id == 'C16':
            from pysmiles.smiles_helper import valence
            for n, d in nodes.items():
                if d.get('element') in (None, 'H', '*'):
                    continue
                orders = [ed.get('order', 1) for u, v, ed in g['edges'] if n in (u, v)]
                if any(not isinstance(o, int) or isinstance(o, bool) for o in orders):
                    continue
                try:
                    vals = valence({'element': d['element'], 'charge': d.get('charge', 0)})
                except Exception:
                    continue
                if vals and sum(orders) <= max(vals) and sum(orders) not in vals:
                    return 7
        return 0

    def case_class(self, case, impl):
        if 'skip' in impl:
            return 'skipped:' + impl['skip']
        if impl.get('unrecorded'):
            return 'skipped:unrecorded-random-call'
        mode = 'all-atom' if case['aa'] else 'coarse'
        if 'exc' in impl:
            return '%s:outside-domain-or-exception:%s@%d' % (mode, impl['exc'][0], impl['exc'][1])
        n = len(impl.get('added', []))
        dig = ':digit-label' if re.search(r'\[[$<>][A-Za-z0-9]*[0-9]\]', case['frags']) else ''
        ctor = case.get('ctor', 'explicit')
        return '%s:%s%s%s' % (mode, 'no-growth' if n == 0 else ('1-3 steps' if n <= 3 else '4+ steps'), dig,
                              '' if ctor == 'explicit' else ':' + ctor)

    def describe(self, case):
        return case


class C16(SamplerProp):
    id = 'C16'
    technique = ('Coq proofs by induction over the growth loop for every sequence of random picks (tree of copies, '
                 'complementary descriptors from the generated complement look-up, multiset accounting of descriptors) '
                 '+ per-run correspondence of the hand-written sampler model with the implementation under recorded '
                 'random picks + the same clauses evaluated in Coq on the implementation\'s returned molecule')
    prop_file = 'theories/Properties/C16.v'
    fail_fn = 'prop_fail16'
    fail_text = FAIL_TEXT16


PROP = C16()
