"""Child process of the C12 check: prints the digests of the canonical dumps of every resolution level of
the given inputs (JSON list on stdin: [[string, last_all_atom, legacy], …]).  Run under different
PYTHONHASHSEED values by tools/props/c12.py."""
import contextlib
import io
import json
import os
import sys

HERE = os.path.dirname(os.path.abspath(__file__))
sys.path.insert(0, os.path.dirname(HERE))
import common  # noqa: E402

common.setup_repo_import()
from props import _resolver as RS  # noqa: E402


def main():
    inputs = json.load(sys.stdin)
    out = []
    for s, laa, legacy in inputs:
        with contextlib.redirect_stdout(io.StringIO()):
            out.append(RS.digest(json.dumps(RS.dump_all_from_string(s, laa, legacy))))
    sys.stdout.write(json.dumps(out))


if __name__ == '__main__':
    main()
