"""Child process of the C12 check: prints the digests of the canonical dumps of every resolution level of
the given inputs (JSON list on stdin: [[string, last_all_atom, legacy], …]).  Run under different
PYTHONHASHSEED values by tools/props/c12.py."""
import contextlib
import io
import json
import os
import sys

HERE = os.path.dirname(os.path.abspath(__file__))
sys.path.insert(0, os.path.dirname(HERE))
import common  # noqa: E402

common.setup_repo_import()
from props import _resolver as RS  # noqa: E402


def record_mode():
    """one HISTORY in a fresh interpreter: the prelude, then the wrapped resolve of every level; prints the records"""
    job = json.load(sys.stdin)
    from props import c02
    from cgsmiles.resolve import MoleculeResolver
    with contextlib.redirect_stdout(io.StringIO()):
        c02.run_prelude(job['prelude'])
        try:
            resolver = MoleculeResolver.from_string(job['s'], last_all_atom=job['laa'], legacy=job['legacy'])
            out = {'recs': RS.record_all(resolver)}
        except Exception as exc:            # noqa: BLE001
            out = {'ctor_exc': type(exc).__name__}
    sys.stdout.write('\n@@JSON@@' + json.dumps(out))


def main():
    if len(sys.argv) > 1 and sys.argv[1] == 'record':
        return record_mode()
    inputs = json.load(sys.stdin)
    out = []
    for s, laa, legacy in inputs:
        with contextlib.redirect_stdout(io.StringIO()):
            out.append(RS.digest(json.dumps(RS.dump_all_from_string(s, laa, legacy))))
    sys.stdout.write(json.dumps(out))


if __name__ == '__main__':
    main()
