"""C12 - output numbering is canonical and results depend on the input alone.
Step cases: every level of generated strings; the numbering / naming clauses are evaluated in Coq on the
implementation's returned graphs and the models of sort_nodes_by_attr / annotate_fragments /
set_atom_names_atomistic are compared with the wrapped real resolve().
Determinism cases (decided on the implementation, in Python, the verdict handed to Coq as a flag):
histories of 2-6 constructor/resolve calls in one process sharing fragment dicts and base graphs with deep
snapshots of the libraries; the same inputs in child processes under PYTHONHASHSEED 0,1,2,3,random;
permutations of the definitions inside fragment blocks; the three constructors.
Block cases: the constructors' re.findall against the model's find_blocks."""
import copy
import json
import os
import random
import re
import subprocess
import sys

import common
import lit
from props import _resolver as RS

HASHSEEDS = ['0', '1', '2', '3', 'random']
EXPS = {'history': 0, 'libs': 1, 'hashseed': 2, 'perm': 3, 'ctors': 4, 'handlib': 5}
BLOCK_RE = r"\{[^\}]+\}"


def child_digests(inputs, seed):
    env = dict(os.environ)
    env['PYTHONHASHSEED'] = seed
    env['PBR_VERSION'] = '0.0.0'
    env['CGV_REPO'] = common.REPO
    p = subprocess.run([sys.executable, '-W', 'ignore', os.path.join(os.path.dirname(os.path.abspath(__file__)), '_resolver_sub.py')],
                       input=json.dumps(inputs), env=env, stdout=subprocess.PIPE, stderr=subprocess.PIPE, text=True, timeout=900)
    txt = p.stdout
    i = txt.find('[')
    return json.loads(txt[i:]) if i >= 0 else None


def two_owners(fgs):
    """mirror of MapDefs.two_owners on the encoded coarse graphs [[key, graph]…]"""
    first = {}
    for k, g in fgs:
        for n, _, _ in g:
            first.setdefault(n, k)
    for k, g in fgs:
        owners = {first[n] for n, _, _ in g if first[n] != k}
        if len(owners) > 1:
            return True
    return False


class C12(RS.StepProp):
    id = 'C12'
    level = 'proof'
    technique = ('Coq proofs about the model of sort_nodes_by_attr (keys 0..n-1, sorted, permutation, contiguous blocks, '
                 'uniqueness of the sorted list) and of the fragment lookup / constructors + numbering and naming clauses '
                 "evaluated in Coq on the implementation's graphs + in-process histories with library snapshots, child "
                 'processes under five PYTHONHASHSEED values, definition permutations and constructor agreement on the '
                 'implementation')
    vo_deps = ['theories/Resolve/C12Check.vo']
    prop_file = 'theories/Properties/C12.v'
    header = RS.HEADER.replace('Resolve.StepCheck.', 'Resolve.StepCheck Resolve.MapDefs Resolve.C12Check.')
    case_type = 'C12Check.case'
    corr_fn = 'C12Check.corr_ok'
    fail_fn = 'C12Check.prop_fail'
    quick_cases = 260
    thorough_cases = 1200
    extended_cases = 500
    fail_text = {1: 'node keys of the fine graph are not 0..n-1',
                 2: 'node keys are not ascending in coarse membership (fragid)',
                 3: 'the atoms of a coarse node do not form one contiguous block in base-graph (coarse key) order',
                 4: 'an atom name is not element + decimal index, or not element + position in a coarse node without shared atom',
                 5: 'atom names are not unique within a coarse node',
                 10: 'repeated constructor/resolve calls in one process gave different graphs for the same input',
                 11: 'a fragment library passed in was modified',
                 12: 'different graphs under different PYTHONHASHSEED values',
                 13: 'permuting the definitions inside a fragment block changed the result',
                 14: 'the three constructors disagree (whole string / base graph + fragment string / base string + fragment graphs / '
                     'two calls: the molecule of the first levels handed to from_graph with the remaining blocks)',
                 15: 'a HAND-BUILT fragment library (networkx graphs with optional node / edge attributes missing, e.g. edges without '
                     "'order') handed to from_fragment_dicts at coarse levels was modified by resolving (node attribute dicts, edge "
                     'attribute dicts, keys, adjacency), is aliased by the returned graphs, or repeated calls on it differ'}

    def __init__(self):
        super().__init__()
        self._hash = {}
        self._hist = {}

    # ------------------------------------------------------------------------------------------ inputs
    def corpus(self, ctx):
        self.begin_round()
        out = []
        for s, laa in [('{[#A][#B]}.{#A=CC[!],#B=[!]CC}', True),
                       ('{[#A]1.[#B][#K]1}.{#A=CC[!],#B=CC[!],#K=[!]CC[!]}', True),
                       ('{[#V].[#A][#B]}.{#A=[$]CC,#B=[$]OC}', True),
                       ('{[#A][#B][#C]}.{#A=CC[!],#B=[!]C[!],#C=[!]CO}', True),
                       ('{[#A][#B]}.{#A=[$]CC[$],#B=[$]OC}', True),
                       ('{[#A]|3}.{#A=[$]CC[$]}', True),
                       ('{[#B1][#B2][#B1]}.{#B1=[#PEO]|4,#B2=[#PE]|2}.{#PEO=[>]COC[<],#PE=[>]CC[<]}', True),
                       ('{[#A]([#B])[#A]}.{#A=[$][#X]1[#Y][#Z]1[$],#B=[$][#P]=[#Q]}', False)]:
            for lv in range(s.count('.{')):
                out.append({'kind': 'step', 's': s, 'laa': laa, 'legacy': True, 'level': lv})
        base, blocks = '{[#A][#B][#C]}', [['#A=[$][#X][#Y]', '#B=[$][#X][$]', '#C=[$][#Y]'], ['#X=[$]CC[$]', '#Y=[$]O[$]']]
        out.append({'kind': 'step', 's': '{[#A][#B][#C]}.{#A=[$]CC[$],#B=[$]O[$],#C=[$]CN}', 'laa': True, 'legacy': True, 'level': 0, 'rekey': True})
        out.append({'kind': 'step', 's': '{[#A][#B]}.{#A=[$][#X][#Y],#B=[$][#P]=[#Q]}', 'laa': False, 'legacy': True, 'level': 0, 'rekey': True})
        for exp in EXPS:
            out.append({'kind': 'det', 'exp': exp, 'base': base, 'blocks': blocks, 'laa': True, 'legacy': True, 'hseed': 1})
        # two-call route (seed C12-7): block copolymer with names of its own per level / names used again on the next level
        for b2, bl2 in [('{[#B1][#B2][#B1]}', [['#B1=[<][#PEO][#PEO][>]', '#B2=[<][#PE][#PE][>]'], ['#PEO=[>]COC[<]', '#PE=[>]CC[<]']]),
                        ('{[#A][#B]}', [['#A=[#B][#A][>]', '#B=[<][#A][#B]'], ['#A=[$]CO[$]', '#B=[$]CC[$]']])]:
            out.append({'kind': 'det', 'exp': 'ctors', 'base': b2, 'blocks': bl2, 'laa': True, 'legacy': True, 'hseed': 1})
        # hand-built libraries through from_fragment_dicts, coarse last level (seed C12-9: edges without 'order')
        for b3, bl3 in [('{[#A][#A][#B]}', [['#A=[<][#A1][#A2][#A3][>]', '#B=[>][#B1][#B2]']]),
                        ('{[#A]([#B])[#A]}', [['#A=[$][#X]1[#Y][#Z]1[$]', '#B=[$][#P]=[#Q]']]),
                        ('{[#A][#B]}', [['#A=[$][#X][#Y]', '#B=[$][#X][#X]'], ['#X=[$][#P][#Q][$]', '#Y=[$][#R]']])]:
            out.append({'kind': 'det', 'exp': 'handlib', 'base': b3, 'blocks': bl3, 'laa': False, 'legacy': True, 'hseed': 1})
        for s in ['{a}{b}', '{}{x}', '{{a}}', 'a{b', '{a}.{#A=[$]C}', '}{', '{a\n}']:
            out.append({'kind': 'blocks', 's': s})
        return out

    def generate(self, ctx, n):
        if ctx.coverage['evaluations'] > 0:
            self.begin_round()
        rng = ctx.rng
        out = []
        n_det = max(5, n // 15)          # inputs, each with 5 experiments
        n_blocks = max(5, n // 8)
        n_steps = max(1, n - 5 * n_det - n_blocks)
        while len(out) < n_steps:
            levels = rng.choice([1, 1, 1, 2, 2, 3])
            laa = rng.random() < 0.7
            base, blocks = RS.rand_multilevel(rng, levels, laa, squash=rng.random() < 0.3, coarse_squash=True)
            s = RS.join_blocks(base, blocks)
            legacy = rng.random() < 0.6
            rekey = rng.random() < 0.15      # through from_graph, coarse keys 3k+2 inserted in REVERSE key order
            for lv in range(levels):
                c = {'kind': 'step', 's': s, 'laa': laa, 'legacy': legacy, 'level': lv}
                if rekey:
                    c['rekey'] = True
                out.append(c)
        dets = []
        for _ in range(n_det):
            levels = rng.choice([1, 1, 2, 2, 3])
            laa = rng.random() < 0.7
            base, blocks = RS.rand_multilevel(rng, levels, laa, squash=rng.random() < 0.2)
            if rng.random() < 0.2:
                base = RS.add_virtual_tail(rng, base)
            if levels > 1 and rng.random() < 0.4:
                blocks = RS.reuse_names(blocks)      # the bead names of every level are A, B, C, ... again
            d = {'kind': 'det', 'base': base, 'blocks': blocks, 'laa': laa, 'legacy': rng.random() < 0.6,
                 'hseed': rng.randint(0, 10 ** 6)}
            dets.append(d)
            for exp in EXPS:
                out.append(dict(d, exp=exp))
        self.prefetch_hash(dets)
        for _ in range(max(6, n // 20)):     # hand-built libraries: coarse last level, 1-3 layers
            base, blocks = RS.rand_multilevel(rng, rng.choice([1, 1, 2, 3]), False, squash=rng.random() < 0.2, coarse_squash=True)
            out.append({'kind': 'det', 'exp': 'handlib', 'base': base, 'blocks': blocks, 'laa': False,
                        'legacy': rng.random() < 0.6, 'hseed': rng.randint(0, 10 ** 6)})
        for _ in range(max(4, n // 12)):
            out.append(self.rand_sort_case(rng))
        alphabet = '{}{}{}ab#=[$],.\n'
        for _ in range(n_blocks):
            out.append({'kind': 'blocks', 's': ''.join(rng.choice(alphabet) for _ in range(rng.randint(0, 14)))})
        return out

    @staticmethod
    def rand_sort_case(rng):
        """a graph for a direct call of sort_nodes_by_attr: shuffled keys, one- or two-element fragids,
        node references in 'ez_isomer_atoms' (tuple / list / single key / dangling key)"""
        import networkx as nx
        n = rng.randint(1, 7)
        keys = rng.sample(range(0, 20), n)
        G = nx.Graph()
        for k in keys:
            fid = [rng.randint(0, 3)] + ([rng.randint(0, 3)] if rng.random() < 0.2 else [])
            G.add_node(k, fragid=fid, element=rng.choice('CHO'))
        for _ in range(rng.randint(0, 2 * n)):
            u, v = rng.choice(keys), rng.choice(keys)
            if u != v:
                G.add_edge(u, v, order=rng.choice([1, 2]))
        for k in keys:
            r = rng.random()
            if r < 0.25:
                G.nodes[k]['ez_isomer_atoms'] = (rng.choice(keys), rng.choice(keys))
            elif r < 0.32:
                G.nodes[k]['ez_isomer_atoms'] = [rng.choice(keys)]
            elif r < 0.38:
                G.nodes[k]['ez_isomer_atoms'] = rng.choice(keys)
            elif r < 0.41:
                G.nodes[k]['ez_isomer_atoms'] = (rng.choice(keys), 99)
        return {'kind': 'sort', 'g': RS.enc_graph(G, skip=())}

    # ------------------------------------------------------------------------------------------ experiments
    def prefetch_hash(self, dets):
        inputs = [[RS.join_blocks(d['base'], d['blocks']), d['laa'], d['legacy']] for d in dets]
        todo = [i for i in inputs if tuple(i) not in self._hash]
        if not todo:
            return
        from concurrent.futures import ThreadPoolExecutor
        with ThreadPoolExecutor(max_workers=len(HASHSEEDS)) as ex:
            res = list(ex.map(lambda sd: child_digests(todo, sd), HASHSEEDS))
        for k, inp in enumerate(todo):
            self._hash[tuple(inp)] = [r[k] if r is not None and len(r) == len(todo) else None for r in res]

    def history(self, case):
        from cgsmiles.resolve import MoleculeResolver
        from cgsmiles.read_cgsmiles import read_cgsmiles
        s = RS.join_blocks(case['base'], case['blocks'])
        key = (s, case['laa'], case['legacy'], case['hseed'])
        if key in self._hist:
            return self._hist[key]
        laa, legacy = case['laa'], case['legacy']
        rng = random.Random(case['hseed'])
        # process state first disturbed by resolving the same text under the OTHER descriptor convention
        RS.dump_all_from_string(s, laa, not legacy)
        ref = RS.dump_all_from_string(s, laa, legacy)
        res = {'ref_ok': not any(x.startswith(('EXC:', 'CTOR:')) for x in ref), 'calls': []}
        if res['ref_ok']:
            # the reference itself must be what a fresh interpreter computes
            if (s, laa, legacy) not in self._hash:
                self.prefetch_hash([case])
            fresh = self._hash[(s, laa, legacy)][0]
            res['fresh'] = fresh is not None and RS.digest(json.dumps(ref)) == fresh
            elements = re.findall(BLOCK_RE, s)
            dicts = MoleculeResolver.read_fragment_strings(elements[1:], last_all_atom=laa)
            base = read_cgsmiles(elements[0])
            base0 = copy.deepcopy(base)
            snap = RS.canon_dicts(dicts)
            same, libs = True, True
            for _ in range(rng.randint(2, 6)):
                kind = rng.choice(['string', 'dicts', 'dicts', 'graph', 'graph_shared'])
                if kind == 'string':
                    r = MoleculeResolver.from_string(s, last_all_atom=laa, legacy=legacy)
                elif kind == 'dicts':
                    r = MoleculeResolver.from_fragment_dicts(elements[0], dicts, last_all_atom=laa, legacy=legacy)
                elif kind == 'graph':
                    r = MoleculeResolver.from_graph('.'.join(elements[1:]), copy.deepcopy(base0), last_all_atom=laa, legacy=legacy)
                else:
                    r = MoleculeResolver.from_graph('.'.join(elements[1:]), base, last_all_atom=laa, legacy=legacy)
                how = rng.choice(['iter', 'all', 'steps'])
                if how == 'iter':
                    got = RS.dump_iter(r)
                    ok = got == ref
                elif how == 'all':
                    try:
                        got = [RS.canon_result(*r.resolve_all())]
                    except Exception as exc:      # noqa: BLE001
                        got = ['EXC:' + type(exc).__name__]
                    ok = got == ref[-1:]
                else:
                    got = []
                    try:
                        for _k in range(len(ref)):
                            got.append(RS.canon_result(*r.resolve()))
                    except Exception as exc:      # noqa: BLE001
                        got.append('EXC:' + type(exc).__name__)
                    ok = got == ref
                res['calls'].append([kind, how, ok])
                same = same and ok
                libs = libs and RS.canon_dicts(dicts) == snap
            res['same'], res['libs'] = same and res['fresh'], libs
        self._hist[key] = res
        return res

    @staticmethod
    def hand_library(dicts, rng, mode):
        """the library rebuilt BY HAND as plain networkx graphs ("fragments from elsewhere"): same keys, same adjacency, deep
        copies of the attributes, with optional attributes left out - mode 0: no edge carries 'order' (or any attribute);
        mode 1: each edge 'order' / node 'fragid' / other optional node attribute dropped with probability 1/2"""
        import networkx as nx
        keep = ('fragname', 'atomname', 'bonding')
        out = []
        for d in dicts:
            nd = {}
            for name, g in d.items():
                h = nx.Graph()
                for n, a in g.nodes(data=True):
                    a = copy.deepcopy(a)
                    if mode == 1:
                        for k in list(a):
                            if k not in keep and rng.random() < 0.5:
                                del a[k]
                    h.add_node(n, **a)
                for u, v, a in g.edges(data=True):
                    a = copy.deepcopy(a)
                    if mode == 0:
                        a = {}
                    elif rng.random() < 0.5:
                        a.pop('order', None)
                    h.add_edge(u, v, **a)
                nd[name] = h
            out.append(nd)
        return out

    def run_handlib(self, case):
        """from_fragment_dicts on a hand-built library, coarse levels only: the library (node attribute dicts, edge attribute
        dicts, keys, adjacency order) must be what it was before any resolver saw it, after every call; every call must
        return what the first call on a private deep copy returned; the returned graphs must not alias the library"""
        from cgsmiles.resolve import MoleculeResolver
        blocks = case['blocks'] if not case['laa'] else case['blocks'][:-1]
        if not blocks:
            return {'skip': 'no coarse level'}
        legacy = case['legacy']
        rng = random.Random(case['hseed'] + 7)
        base = case['base']
        try:
            dicts = MoleculeResolver.read_fragment_strings(['{' + ','.join(b) + '}' for b in blocks], last_all_atom=False)
        except Exception as exc:      # noqa: BLE001
            return {'skip': 'fragment strings: ' + type(exc).__name__}
        res = {'modes': []}
        ok = True
        for mode in (0, 1):
            hand = self.hand_library(dicts, rng, mode)
            pristine = copy.deepcopy(hand)
            snap = RS.canon_dicts(hand)
            try:
                ref = RS.dump_iter(MoleculeResolver.from_fragment_dicts(base, copy.deepcopy(pristine), last_all_atom=False, legacy=legacy))
            except Exception as exc:      # noqa: BLE001
                ref = ['CTOR:' + type(exc).__name__]
            if any(x.startswith(('EXC:', 'CTOR:')) for x in ref):
                res['modes'].append([mode, 'reference run raised'])
                continue
            same, libs, alias = True, True, True
            for _ in range(rng.randint(2, 3)):
                r = MoleculeResolver.from_fragment_dicts(base, hand, last_all_atom=False, legacy=legacy)
                graphs = []
                got = []
                try:
                    for meta, mol in r.resolve_iter():
                        got.append(RS.canon_result(meta, mol))
                        graphs.append(mol)
                        graphs.extend(meta.nodes[k]['graph'] for k in meta.nodes if 'graph' in meta.nodes[k])
                except Exception as exc:      # noqa: BLE001
                    got.append('EXC:' + type(exc).__name__)
                same = same and got == ref
                libs = libs and RS.canon_dicts(hand) == snap
                # the returned graphs own their dicts: writing into them must not show in the library
                for g in graphs:
                    for n in g.nodes:
                        g.nodes[n]['_cgv_probe'] = 1
                    for u, v in g.edges:
                        g.edges[u, v]['_cgv_probe'] = 1
                alias = alias and RS.canon_dicts(hand) == snap
            untouched = RS.canon_dicts(pristine) == snap
            res['modes'].append([mode, same, libs, alias, untouched])
            ok = ok and same and libs and alias and untouched
        if all(m[1] == 'reference run raised' for m in res['modes']):
            return {'skip': 'reference run raised'}
        res['ok'] = ok
        return res

    def run_det(self, case):
        from cgsmiles.resolve import MoleculeResolver
        s = RS.join_blocks(case['base'], case['blocks'])
        laa, legacy = case['laa'], case['legacy']
        exp = case['exp']
        if exp == 'handlib':
            return self.run_handlib(case)
        if exp in ('history', 'libs'):
            h = self.history(case)
            if not h['ref_ok']:
                return {'skip': 'reference run raised'}
            return {'ok': h['same'] if exp == 'history' else h['libs'], 'calls': h['calls'], 'fresh': h.get('fresh')}
        if exp == 'hashseed':
            key = (s, laa, legacy)
            if key not in self._hash:
                self.prefetch_hash([case])
            ds = self._hash[key]
            here = RS.digest(json.dumps(RS.dump_all_from_string(s, laa, legacy)))
            return {'ok': all(d is not None and d == here for d in ds), 'digests': ds, 'here': here}
        ref = RS.dump_all_from_string(s, laa, legacy)
        if any(x.startswith(('EXC:', 'CTOR:')) for x in ref):
            return {'skip': 'reference run raised'}
        if exp == 'perm':
            rng = random.Random(case['hseed'] + 1)
            oks = []
            for _ in range(3):
                blocks = [rng.sample(b, len(b)) for b in case['blocks']]
                oks.append(RS.dump_all_from_string(RS.join_blocks(case['base'], blocks), laa, legacy) == ref)
            return {'ok': all(oks)}
        if exp == 'ctors':
            from cgsmiles.read_cgsmiles import read_cgsmiles
            elements = re.findall(BLOCK_RE, s)
            dicts = MoleculeResolver.read_fragment_strings(elements[1:], last_all_atom=laa)
            a = RS.dump_iter(MoleculeResolver.from_fragment_dicts(elements[0], dicts, last_all_atom=laa, legacy=legacy))
            b = RS.dump_iter(MoleculeResolver.from_graph(''.join(elements[1:]), read_cgsmiles(elements[0]),
                                                         last_all_atom=laa, legacy=legacy))
            # the TWO-CALL route: the first k levels are resolved by one resolver (last_all_atom=False), the molecule it
            # returns is the base graph of from_graph with the remaining fragment blocks; levels k+1.. must be those of
            # from_string on the whole text
            two = []
            for k in range(1, len(elements) - 1):
                try:
                    _, middle = MoleculeResolver.from_string(''.join(e + '.' for e in elements[:k + 1])[:-1],
                                                             last_all_atom=False, legacy=legacy).resolve_all()
                    got = RS.dump_iter(MoleculeResolver.from_graph(''.join(elements[k + 1:]), middle,
                                                                   last_all_atom=laa, legacy=legacy))
                except Exception as exc:      # noqa: BLE001
                    got = ['CTOR:' + type(exc).__name__]
                two.append(got == ref[k:])
            return {'ok': a == ref and b == ref and all(two), 'dicts': a == ref, 'graph': b == ref, 'two_call': two}
        raise ValueError(exp)

    # ------------------------------------------------------------------------------------------ flow
    def run_impl(self, case):
        if case['kind'] == 'blocks':
            got = re.findall(BLOCK_RE, case['s'])
            term = 'C12Check.CBlocks %s %s' % (lit.s(case['s']), lit.lst([lit.s(x) for x in got]))
            return {'blocks': got, '_k': self.put_term([], term)}
        if case['kind'] == 'sort':
            from cgsmiles.graph_utils import sort_nodes_by_attr
            tab = self.new_tab()
            G = RS.dec_graph(case['g'])
            try:
                H = sort_nodes_by_attr(G, sort_attr="fragid")
                impl = {'sorted': RS.enc_graph(H, skip=())}
                term = 'C12Check.CSort %s (Some %s)' % (tab.graph(case['g']), tab.graph(impl['sorted']))
            except Exception as exc:       # noqa: BLE001
                impl = {'exc': type(exc).__name__}
                term = 'C12Check.CSort %s None' % tab.graph(case['g'])
            impl['_k'] = self.put_term([tab], term)
            return impl
        if case['kind'] == 'det':
            impl = self.run_det(case)
            ok = impl.get('ok', True)
            impl['_k'] = self.put_term([], 'C12Check.CDet %s %s' % (lit.nat(EXPS[case['exp']]), lit.b(ok)))
            return impl
        from cgsmiles.resolve import MoleculeResolver
        key = (case['s'], case['laa'], case['legacy'], bool(case.get('rekey')))

        def make():
            if not case.get('rekey'):
                return MoleculeResolver.from_string(case['s'], last_all_atom=case['laa'], legacy=case['legacy'])
            import networkx as nx
            from cgsmiles.read_cgsmiles import read_cgsmiles
            elements = re.findall(BLOCK_RE, case['s'])
            base = read_cgsmiles(elements[0])
            G = nx.Graph()
            for k in reversed(list(base.nodes)):
                G.add_node(3 * k + 2, **base.nodes[k])
            for a, b, d in base.edges(data=True):
                G.add_edge(3 * a + 2, 3 * b + 2, **d)
            return MoleculeResolver.from_graph(''.join(elements[1:]), G, last_all_atom=case['laa'], legacy=case['legacy'])
        got = self.records_for(key, make)
        if 'ctor_exc' in got or case['level'] >= len(got['recs']) or 'skip' in got['recs'][case['level']]:
            why = got.get('ctor_exc') or ('level not reached' if case['level'] >= len(got.get('recs', [])) else
                                          got['recs'][case['level']]['skip'])
            return {'skip': why, '_k': self.put_term([], 'C12Check.CStep ' + RS.TRIVIAL_STEP)}
        rec = got['recs'][case['level']]
        tab = self.new_tab()
        impl = RS.rec_summary(rec)
        impl['shared'] = bool(rec.get('mol')) and any(len(RS.dec_val(dict(a).get('fragid')) or []) > 1 for _, a, _ in rec['mol'])
        impl['two_owners'] = bool(rec.get('fgs')) and two_owners(rec['fgs'])
        impl['names'] = [[n, dict(a).get('atomname')] for n, a, _ in (rec.get('mol') or [])][:40] if rec['aa'] else None
        impl['_k'] = self.put_term([tab], 'C12Check.CStep ' + RS.lit_stepcase(rec, tab))
        return impl

    def python_oracle(self, case, impl):
        """the determinism experiments are decided in Python: usable when the Coq side cannot be built"""
        if case['kind'] == 'det' and impl.get('ok') is False:
            return 10 + EXPS[case['exp']]
        return None

    def known_class(self, case, impl, code):
        # shared_atom_names (/repo 8dbd471) and shared_from_two_owners (/repo e15e5bd) are repaired: nothing is excused
        return None

    def nontrivial(self, case, impl):
        return 'skip' not in impl

    def case_class(self, case, impl):
        if case['kind'] == 'blocks':
            return 'findall:%d' % len(impl['blocks'])
        if case['kind'] == 'sort':
            return 'sort-direct:' + ('raised:' + impl['exc'] if 'exc' in impl else 'ok')
        if 'skip' in impl:
            return 'skipped:' + str(impl['skip'])[:30]
        if case['kind'] == 'det':
            return 'det:%s:%dlevels' % (case['exp'], len(case['blocks']))
        if impl.get('exc'):
            return 'raised:%s@%s' % (impl['exc'], RS.STAGES.get(impl['stage']))
        return '%s:level%d%s%s' % ('all-atom' if impl['aa'] else 'coarse', case['level'], ':shared-atoms' if impl.get('shared') else '',
                                   ':rekeyed-reversed' if case.get('rekey') else '')


PROP = C12()
