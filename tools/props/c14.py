"""C14 — annotations mean the same however written and reach the graphs unchanged.
Tie: the dialect tables are regenerated from dialects.py (Gen/DialectGen.v) and the theorems are
re-checked against them; _parse_dialect_string (+ Signature.bind, check_and_cast_types) is
hand-modelled (Dialect/DialectImpl.v) and compared with the implementation on every run; float()
is an oracle recorded per run.  The property's clauses are evaluated inside Coq
(Dialect/DialectCheck.v) on what the IMPLEMENTATION returned, against the DOCUMENTED tables
(Dialect/DialectDefs.v)."""
import contextlib
import io
import itertools
import re

import common
import lit

RESERVED = {0: ['fragname', 'q', 'w'], 1: ['w', 'x']}
FLOATP = {0: {'q', 'w'}, 1: {'w'}}
LONG = {0: ['charge', 'weight'], 1: ['weight', 'chiral']}
NUMS = ['1', '0', '+1', '-0.25', '1e-1', '.5', '1_0', 'inf', 'nan', '-inf', '1.', '0.5', '2', ' 1 ', '1E3', '-0',
        '1e-05', '007', '1_000.5', 'Infinity', '+.5e+2', '-nan', '3.14159', '1e400', '1e-400', '0.1', '100']
NUMS_PLAIN = ['1', '0', '+1', '-0.25', '1e-1', '.5', '1_0', '0.5', '2', '1.', '1E3', '-0', '3.14159', '100']
BADNUMS = ['abc', '', '1,5', '0x10', '1_', '--1', '1e', 'one', '1 2', 'R', '.', '+', 'in', '1__0', '_1']
NAMES = ['A', 'B', 'PEO', 'X1', 'a_b', 'P3HT']
STRV = ['R', 'S', '', 'RS', 'r', '1']
FREEK = ['foo', 'mass', 'label', 'k1', 'm', 'name', 'Q', 'W', 'k 1', '', 'kwargs', 'self', ' q', 'q ', 'fragnam', 'ww',
         '_ref', '_', '_pos', '2k', '007', 'foobar', 'fo', 'MASS', 'weights',
         'we', 'weigh', 'c', 'ch', 'cha', 'charg', 'chi', 'chira', 'chiral', 'charge']
FREEV = ['bar', '72', '1.0', '', 'a b', 'R', 'C1', '#', '+1', 'x', 'None', '0', '[', '(', '|2', '.']
# inside complete strings keys/values must stay clear of the characters the readers scan for
# free keys for the propagation cases: plain, upper case, digits (also leading), a leading underscore (also the names
# pysmiles uses privately: the user's value must win and travel), keys that are prefixes / extensions of each other and
# of the reserved names, attribute names of the atom readers that no step writes
SAFEK = ['foo', 'mass', 'label', 'k1', 'm', 'name', 'Q', 'W', 'k_1', 'ww',
         '_ref', '_bead', '_', '__', '_pos', '_atom_str', 'Ref', 'MASS', 'K', 'k2', '2k', '007', 'foobar', 'fo', 'w2', 'q2',
         'xx', 'weights', 'charges', 'chirality', 'fragnames', 'class', 'isotope',
         # beginnings of the verbose names weight / charge / chiral (free keys like any other) and, where the dialect does
         # not reserve it, the verbose name of the OTHER dialect (rand_annot drops the reserved ones per dialect);
         # `charge` is not used on atoms: a text charge breaks the hydrogen arithmetic (outside the domain)
         'we', 'wei', 'weig', 'weigh', 'c', 'ch', 'cha', 'char', 'charg', 'chi', 'chir', 'chira', 'chiral']
SAFEV = ['bar', '72', '1.0', 'a b', 'R', 'C1', '+1', 'None', '0', 'a.b', '-1']
EXC = {'TypeError': 'EType', 'KeyError': 'EKey', 'IndexError': 'EIndex', 'ValueError': 'EValue',
       'UnboundLocalError': 'EUnbound', 'LookupError': 'ELookup', 'NameError': 'EName', 'AttributeError': 'EAttr',
       'AssertionError': 'EAssert', 'StopIteration': 'EStopIter', 'ZeroDivisionError': 'EZeroDiv'}


# ----------------------------------------------------------------------------- helpers
def render_ent(e):
    return e[1] if e[0] == 'P' else e[1] + '=' + e[2]


def render_ents(es):
    return ';'.join(render_ent(e) for e in es)


def float_table(texts):
    """the float() oracle of this run, for every text that could be asked"""
    tbl = {}
    for t in texts:
        if t in tbl:
            continue
        try:
            tbl[t] = lit.float_repr(float(t))
        except (TypeError, ValueError):
            tbl[t] = None
    return tbl


def candidates(text):
    out = set()
    for e in text.split(';'):
        out.add(e)
        for part in e.split('='):
            out.add(part)
    return out


def exc_desc(exc):
    name = type(exc).__name__
    if isinstance(exc, SyntaxError):
        msg = str(exc)
        if 'contains too many' in msg:
            return 'SyntaxError:toomany_eq'
        if 'You have too many positional arguments' in msg:
            return 'SyntaxError:bind'
        if 'dangling ring' in msg:
            return 'SyntaxError:dangling'
        if 'two edges between' in msg:
            return 'SyntaxError:double'
        if 'no corresponding fragment' in msg:
            return 'SyntaxError:no_fragment'
        return 'SyntaxError:other'
    return name


def coq_err(desc):
    if desc.startswith('SyntaxError:'):
        return '(ESyntax %s)' % lit.s(desc.split(':', 1)[1])
    return EXC.get(desc, 'EIO')


def simple_attrs(d):
    return {str(k): v for k, v in d.items() if isinstance(v, (str, int, float, bool)) and isinstance(k, str)}


def coq_res_attrs(r):
    if 'ok' in r:
        return '(Ok %s)' % lit.attrs(r['ok'])
    return '(Err %s)' % coq_err(r['err'])


def coq_entries(l):
    return lit.lst([lit.pair(lit.s(k), lit.s(v)) for k, v in l])


def coq_ents(es):
    return lit.lst(['(EPos %s)' % lit.s(e[1]) if e[0] == 'P' else '(EKw %s %s)' % (lit.s(e[1]), lit.s(e[2])) for e in es])


def coq_table(tbl):
    return lit.lst([lit.pair(lit.s(k), lit.opt(v, lit.s)) for k, v in tbl.items()])


def coq_annot(a):
    return '{| a_assign := %s; a_free := %s; a_ents := %s |}' % (coq_entries(a['assign']), coq_entries(a['free']),
                                                                coq_ents(a['ents']))


def run_parser(d, text):
    from cgsmiles.dialects import parse_graph_base_node, _fragment_node_parser
    f = parse_graph_base_node if d == 0 else _fragment_node_parser
    try:
        with contextlib.redirect_stdout(io.StringIO()):
            out = f(text)
        if not all(isinstance(v, (str, float)) for v in out.values()):
            return {'err': 'unexpected value type'}
        return {'ok': dict(out)}
    except Exception as exc:
        return {'err': exc_desc(exc)}


# ----------------------------------------------------------------------------- generators
def writings(d, assign, free, rng=None, limit=None):
    """all (or a random sample of) writings of an abstract annotation: k leading parameters
    positional, the rest as keywords in some order, positionals optionally interleaved"""
    names = RESERVED[d]
    amap = dict(assign)
    kmax = 0
    while kmax < len(names) and names[kmax] in amap:
        kmax += 1
    out = []
    for k in range(kmax + 1):
        pos = [['P', amap[n]] for n in names[:k]]
        kws = [['K', a, b] for a, b in assign if a not in names[:k]] + [['K', a, b] for a, b in free]
        perms = list(itertools.permutations(kws)) if len(kws) <= 4 else None
        if perms is None:
            perms = []
            for _ in range(6):
                p = list(kws)
                rng.shuffle(p)
                perms.append(tuple(p))
        for p in perms:
            es = pos + list(p)
            if es == [['P', '']]:
                continue
            out.append(es)
            if rng is not None and pos and p and rng.random() < 0.5:
                # interleave: positional entries keep their relative order
                slots = sorted(rng.sample(range(len(es)), len(pos)))
                mixed, pi, ki = [], 0, 0
                for i in range(len(es)):
                    if pi < len(pos) and i == slots[pi]:
                        mixed.append(pos[pi]); pi += 1
                    else:
                        mixed.append(list(p[ki])); ki += 1
                out.append(mixed)
    if limit and len(out) > limit:
        out = rng.sample(out, limit)
    return out


def rand_annot(rng, d, fragname=None, nums=NUMS, freek=FREEK, freev=FREEV, strv=STRV, pfree=0.5, bad=0.0):
    """abstract annotation for dialect d"""
    assign = []
    for n in RESERVED[d]:
        if n == 'fragname':
            if fragname is not None:
                assign.append([n, fragname])
            elif rng.random() < 0.8:
                assign.append([n, rng.choice(NAMES)])
        elif rng.random() < 0.55:
            if n in FLOATP[d]:
                assign.append([n, rng.choice(BADNUMS) if rng.random() < bad else rng.choice(nums)])
            else:
                assign.append([n, rng.choice(strv)])
    rng.shuffle(assign)
    free = []
    if rng.random() < pfree:
        forbidden = set(RESERVED[d]) | set(LONG[d])
        ks = [k for k in rng.sample(freek, rng.randint(1, 3)) if k not in forbidden]
        free = [[k, rng.choice(freev)] for k in ks]
    return assign, free


def one_writing(rng, d, assign, free, fragname_first=False):
    ws = writings(d, assign, free, rng=rng)
    if fragname_first:
        ws = [w for w in ws if w and w[0][0] == 'P']
    return rng.choice(ws)


def fuzz_text(rng, d):
    pool = (NUMS + BADNUMS + NAMES + ['q=1', 'w=2', 'x=S', 'q=abc', 'w=', 'a=b=c', 'q=1=2', '==', '=', '=5', 'foo=bar',
                                     'fragname=A', 'q=2', 'w=0.5', 'charge=3', 'weight=4', 'chiral=R', 'kwargs=1',
                                     ' q=1', 'q =1', 'q= 1', 'x=', 'foo=', 'mass=72', 'q=+1', 'w=1e-1', 'q=1_0',
                                     'self=1', 'args=2', 'w=nan', 'q=inf', 'x=R=S', 'a=b=c=d', 'W=1', 'Q=2'])
    n = rng.choice([0, 1, 1, 2, 2, 3, 3, 4, 5, 6])
    return ';'.join(rng.choice(pool) for _ in range(n))


AA_TEMPLATES = [
    ['[$]', ('C',), '[$]'],
    ['[$]C', ('C',), '(F)[$]'],
    ['[$]', ('N',), 'C[$]O'],
    ['[$]', ('c',), '1ccccc1[$]'],
    ['[$]', ('O',), '[$]'],
    ['[$]', ('C',), ('C',), '[$]'],
    ['[$]C(', ('H',), ')[$]'],
    ['[$]CC(', ('Cl',), ')[$]'],
    ['[$]', ('C',), '(=O)[$]'],
    ['[$]C', ('S',), 'C[$]'],
    # an unbracketed upper-case atom directly followed by an aromatic atom (S+c reads like the element symbol Sc)
    # BEFORE the annotated atom: the annotation must sit on the atom it was written on, identified by its
    # position in the parse of the clean SMILES
    ['[$]CSc1ccccc1', ('CH2',), '[$]'],
    ['[$]CSc1ccncc1', ('CH2',), '[$]'],
    ['[$]CSc1ccccc1C', ('C',), '(F)[$]'],
    ['[$]OCSc1ccccc1', ('N',), '[$]'],
    ['[$]C(Sc1ccccc1)', ('CH2',), ('CH2',), '[$]'],
    ['[$]', ('CH2',), 'Sc1ccccc1', ('CH2',), '[$]'],
]
CG_TEMPLATES = [
    ['[$]', ('#X',), '[$]'],
    ['[$]', ('#X',), ('#Y',), '[$]'],
    ['[$]', ('#X',), '(', ('#Y',), ')[$]'],
    ['[$]', ('#X',), '[#Z][$]'],
    ['[$][#Z]', ('#Y',), '[$]'],
    ['[$]', ('#X',), '1[#Z]', ('#Y',), '1[$]'],
    # no descriptor after the last node: the fragment text ends with the node (and whatever is injected after it)
    ['[$]', ('#X',), '[$]', ('#Y',)],
    ['[$][$]', ('#X',), '[#Z]', ('#Y',)],
]


def rand_prop_case(rng, force_class=None):
    aa = rng.random() < 0.5
    nfr = rng.randint(1, 3)
    fnames = rng.sample(['A', 'B', 'PEO', 'X1', 'P3HT', 'a_b'], nfr)
    safe = dict(nums=NUMS_PLAIN + [' 1 ', 'inf', '1e-05'], freek=SAFEK, freev=SAFEV)
    frags = []
    for fn in fnames:
        tmpl = rng.choice(AA_TEMPLATES if aa else CG_TEMPLATES)
        toks = []
        for t in tmpl:
            if isinstance(t, tuple):
                if aa:
                    assign, free = rand_annot(rng, 1, strv=['R', 'S'], **safe)
                    es = one_writing(rng, 1, assign, free)
                    toks.append({'atom': t[0], 'annot': {'assign': assign, 'free': free, 'ents': es}})
                else:
                    mode = force_class if force_class is not None else (rng.random() < 0.15)
                    assign, free = rand_annot(rng, 0, fragname=t[0][1:], **safe)
                    if not mode:
                        # outside the known defect class: reserved q absent, everything by keyword
                        assign = [a for a in assign if a[0] != 'q']
                        free = [f for f in free if f[0] not in ('x',)]
                        ws = [w for w in writings(0, assign, free, rng=rng)
                              if w and w[0][0] == 'P' and sum(1 for e in w if e[0] == 'P') == 1]
                        es = rng.choice(ws)
                    else:
                        es = one_writing(rng, 0, assign, free, fragname_first=True)
                    toks.append({'atom': t[0], 'annot': {'assign': assign, 'free': free, 'ents': es}})
            else:
                toks.append(t)
        frags.append({'name': fn, 'tokens': toks})
    # base graph: a chain of units, every fragment used 1..5 times in total
    counts = {fn: rng.randint(1, 5) for fn in fnames}
    seq = [fn for fn in fnames for _ in range(counts[fn])]
    rng.shuffle(seq)
    units = []
    i = 0
    while i < len(seq):
        fn = seq[i]
        run = 1
        while i + run < len(seq) and seq[i + run] == fn:
            run += 1
        mult = rng.randint(1, run) if rng.random() < 0.5 else 1
        assign, free = rand_annot(rng, 0, fragname=fn, **safe)
        es = one_writing(rng, 0, assign, free, fragname_first=True)
        units.append({'annot': {'assign': assign, 'free': free, 'ents': es}, 'mult': mult})
        i += mult
    return {'kind': 'prop', 'aa': aa, 'units': units, 'frags': frags}


def rand_bmult_case(rng):
    """base graphs with BRANCH multipliers `anchor(branch)|n` (n = 2, 3) at top level: annotated anchors in every
    positional / keyword form with free keys, annotated nodes inside the multiplied branch, annotated multiplied
    nodes `[#A;q=1]|3` inside and outside; expected = the unit written out.  Kept outside the reader's remaining
    defect classes: one branch per anchor (no sibling before the multiplier), no ring bond and no nested branch
    inside a unit, no node that closes two branches."""
    aa = rng.random() < 0.5
    safe = dict(nums=NUMS_PLAIN + [' 1 ', 'inf', '1e-05'], freek=SAFEK, freev=SAFEV)
    fnames = rng.sample(['A', 'B', 'PEO', 'X1'], rng.randint(1, 3))

    def node(p_annot=0.8, p_mult=0.25):
        fn = rng.choice(fnames)
        if rng.random() < p_annot:
            assign, free = rand_annot(rng, 0, fragname=fn, **safe)
        else:
            assign, free = [['fragname', fn]], []
        es = one_writing(rng, 0, assign, free, fragname_first=True)
        return {'annot': {'assign': assign, 'free': free, 'ents': es},
                'mult': rng.choice([2, 3]) if rng.random() < p_mult else 1}
    units = []
    nunits = rng.randint(1, 3)
    have_unit = False
    for k in range(nunits):
        if rng.random() < 0.7 or (k == nunits - 1 and not have_unit):
            u = node(p_annot=0.9, p_mult=0.0)
            u['branch'] = {'nodes': [node() for _ in range(rng.randint(1, 2))], 'n': rng.choice([2, 3])}
            have_unit = True
        else:
            u = node()
        units.append(u)
    frags = []
    for fn in fnames:
        tmpl = [t if not isinstance(t, tuple) else ('[' + t[0] + ']' if aa else '[' + t[0] + ']')
                for t in rng.choice((AA_TEMPLATES[:3] + AA_TEMPLATES[4:6]) if aa else CG_TEMPLATES[:3])]
        frags.append({'name': fn, 'tokens': [''.join(tmpl)]})
    return {'kind': 'prop', 'aa': aa, 'units': units, 'frags': frags}


CMULT_SHAPES = [('[$]', '[$]'), ('[$]', '[#Y][$]'), ('[$][#Z]', '[$]'), ('[$][#Z]', '[#Y][$]'), ('[$][#Z]([#Y])', '[$]'),
                ('[$]', '([#Y])[$]')]


def rand_cmult_case(rng, n=None, shape=None):
    """a coarse node WITH A MULTIPLIER and an annotation inside a fragment definition, `#A=[$][#X;w=2;foo=bar]|3[#Y][$]`,
    coarse step.  By the syntax `[#X;..]|n` stands for n consecutive nodes with the same annotations (as in the base
    graph); every copy must carry the annotation.  The annotation is kept outside the atom-dialect class (name
    positional, no q / x) and no annotated token follows the multiplier in the same definition."""
    safe = dict(nums=NUMS_PLAIN + [' 1 ', 'inf', '1e-05'], freek=SAFEK, freev=SAFEV)
    fn = rng.choice(['A', 'B', 'PEO'])
    while True:
        assign, free = rand_annot(rng, 0, fragname='X', pfree=0.8, **safe)
        assign = [a for a in assign if a[0] != 'q']
        free = [f for f in free if f[0] != 'x']
        if len(assign) > 1 or free:
            break
    ws = [w for w in writings(0, assign, free, rng=rng) if w and w[0][0] == 'P' and sum(1 for e in w if e[0] == 'P') == 1]
    pre, post = shape if shape is not None else rng.choice(CMULT_SHAPES)
    uses = rng.randint(1, 3)
    units = []
    for _ in range(uses if rng.random() < 0.6 else 1):
        a2, f2 = rand_annot(rng, 0, fragname=fn, **safe)
        units.append({'annot': {'assign': a2, 'free': f2, 'ents': one_writing(rng, 0, a2, f2, fragname_first=True)}, 'mult': 1})
    if len(units) == 1:
        units[0]['mult'] = uses
    return {'kind': 'cmult', 'units': units, 'fname': fn, 'pre': pre, 'post': post, 'n': n if n is not None else rng.choice([1, 2, 2, 3, 4]),
            'annot': {'assign': assign, 'free': free, 'ents': rng.choice(ws)}}


def render_cmult(case):
    base = ''.join(render_node(u) for u in case['units'])
    tok = '[#' + render_ents(case['annot']['ents']) + ']' + ('|%d' % case['n'] if case['n'] > 1 else '')
    return '{' + base + '}.{#' + case['fname'] + '=' + case['pre'] + tok + case['post'] + '}'


def expand_units(units):
    """the annotation of every node of the base graph in key order, with all multipliers written out:
    a node `[#A;..]|m` gives m nodes; a unit `[#A;..]([#B;..]..)|n` gives n times (anchor, branch nodes)"""
    out = []
    for u in units:
        br = u.get('branch')
        if not br:
            out += [u['annot']] * u['mult']
        else:
            one = [u['annot']]
            for b in br['nodes']:
                one += [b['annot']] * b['mult']
            out += one * br['n']
    return out


def unit_annots(units):
    """every annotation written in the base graph (once each)"""
    out = []
    for u in units:
        out.append(u['annot'])
        for b in (u.get('branch') or {'nodes': []})['nodes']:
            out.append(b['annot'])
    return out


def render_node(u):
    return '[#' + render_ents(u['annot']['ents']) + ']' + ('|%d' % u['mult'] if u['mult'] > 1 else '')


def render_prop(case):
    base = ''
    for u in case['units']:
        base += render_node(u)
        br = u.get('branch')
        if br:
            base += '(' + ''.join(render_node(b) for b in br['nodes']) + ')' + '|%d' % br['n']
    defs = []
    for f in case['frags']:
        t = ''
        for tok in f['tokens']:
            if isinstance(tok, dict):
                if case['aa']:
                    t += '[' + tok['atom'] + ';' + render_ents(tok['annot']['ents']) + ']'
                else:
                    t += '[#' + render_ents(tok['annot']['ents']) + ']'
            else:
                t += tok
        defs.append('#%s=%s' % (f['name'], t))
    return '{' + base + '}.{' + ','.join(defs) + '}'


def count_atoms_before(tokens, upto):
    """index (as counted by the fragment readers) of the annotated atom tokens[upto]"""
    import gens
    text = ''
    for tok in tokens[:upto]:
        text += ('[C]' if isinstance(tok, dict) else tok.replace('[$]', ''))
    return len(gens.split_atoms(text))


class C14(common.Prop):
    id = 'C14'
    level = 'proof'
    technique = ('Coq proof (positional = keyword, keyword permutation, defaults, numeric/verbatim values; for every '
                 'float oracle and every dialect of the generated shape, instantiated at the tables regenerated from '
                 'dialects.py) + per-run correspondence of the binding model with the implementation + the clauses '
                 'evaluated in Coq on the implementation\'s attribute maps (parser level and after resolve())')
    vo_deps = ['theories/Dialect/DialectCheck.vo']
    prop_file = 'theories/Properties/C14.v'
    case_requires = ('From Coq Require Import String.\nFrom Coq Require Import List Ascii ZArith Bool.\n'
                     'From CGV Require Import Base.PyBase Base.PyVal Dialect.DialectImpl Dialect.DialectDefs '
                     'Dialect.DialectCheck.')
    shard = 60
    quick_cases = 470
    thorough_cases = 6000
    extended_cases = 1500
    fail_text = {1: 'two writings of the same annotation (positional/keyword, keyword order) give different attributes',
                 2: 'an omitted reserved key does not have its documented default (charge 0.0, weight 1.0; fragname/chiral absent)',
                 3: 'a given reserved key has the wrong value (numeric keys must be floats of the written number)',
                 4: 'a free key is not kept verbatim as text',
                 5: 'the attribute map has a key that was never written',
                 6: 'a well-formed annotation was rejected',
                 7: 'an annotation of a base-graph node is not on that node of the returned coarse graph',
                 8: 'an annotation of a fragment atom is missing or altered on a copy of that atom in the fine graph',
                 9: 'a string with well-formed annotations was rejected by from_string/resolve',
                 10: 'an annotation of a coarse node inside a fragment definition is missing or altered on a copy in the finer graph',
                 11: 'the fine graph does not have one copy of the annotated atom per use of the fragment',
                 90: 'internal: the check generated an ill-formed case (bug in tools/props/c14.py)',
                 110: 'coarse node inside a fragment definition: reserved q / positional values are read with the atom dialect',
                 111: 'multiplied coarse node `[#X;..]|n` inside a fragment definition: only the first of the n copies carries the annotation'}

    # -- cases ---------------------------------------------------------------------------------
    def corpus(self, ctx):
        import random
        rng = random.Random(14)
        out = []
        # every subset of the reserved keys x every positional prefix x every keyword order
        for d in (0, 1):
            vals = {'fragname': 'A', 'q': '+1', 'w': '1e-1', 'x': 'S'}
            for r in range(len(RESERVED[d]) + 1):
                for sub in itertools.combinations(RESERVED[d], r):
                    for free in ([], [['mass', '72']], [['foo', 'bar'], ['m', '']]):
                        assign = [[n, vals[n]] for n in sub]
                        out.append({'kind': 'forms', 'd': d, 'assign': assign, 'free': free,
                                    'variants': writings(d, assign, free, rng=rng)})
        # numeric spellings, one by one, positional and keyword
        for v in NUMS:
            out.append({'kind': 'forms', 'd': 0, 'assign': [['fragname', 'A'], ['q', v], ['w', v]], 'free': [],
                        'variants': writings(0, [['fragname', 'A'], ['q', v], ['w', v]], [], rng=rng)})
            out.append({'kind': 'forms', 'd': 1, 'assign': [['w', v]], 'free': [], 'variants': writings(1, [['w', v]], [], rng=rng)})
        # fixed raw texts: faults, duplicates, empties
        for d in (0, 1):
            for t in ['', ';', ';;', 'A;;', 'A;1;2;3', 'A;q=1;q=2', 'A;1;q=2', 'A;a=b=c', 'A;1;2;3;a=b=c', 'A;q=abc',
                      'A;q=abc;w=def', 'A;x=1;q=abc;1;2;3', 'A;charge=3', 'A;weight=5;w=2', 'A;fragname=B', 'q=1;A',
                      'A;=5;=6', 'A;q', 'A;foo=1;foo=2', 'A;q=1;1', '1;2;3', 'S', 'chiral=R;x=S', 'w=q', '0.5;R', '1;R;x=S',
                      'w=1;1', 'x=R;0.5', 'A;kwargs=1', 'a=1;2', '=', '==', 'A;w=2;foo=3;q=1;bar=4',
                      'A;c=foo', 'A;ch=1;we=2', 'A;charg=x;weigh=y;q=1', 'A;chiral=R;chi=S', 'c=1;cha=2;charge=3', 'we=a;w=2;chira=b;x=S']:
                out.append({'kind': 'parse', 'd': d, 'text': t})
        # the known finding's witness and a clean coarse case
        out.append({'kind': 'prop', 'aa': False,
                    'units': [{'annot': {'assign': [['fragname', 'A']], 'free': [], 'ents': [['P', 'A']]}, 'mult': 2}],
                    'frags': [{'name': 'A', 'tokens': ['[$]', {'atom': '#X', 'annot': {
                        'assign': [['fragname', 'X'], ['q', '1']], 'free': [], 'ents': [['P', 'X'], ['K', 'q', '1']]}}, '[$]']}]})
        out.append({'kind': 'prop', 'aa': False,
                    'units': [{'annot': {'assign': [['fragname', 'A'], ['q', '1']], 'free': [['foo', 'bar']],
                                         'ents': [['P', 'A'], ['K', 'foo', 'bar'], ['K', 'q', '1']]}, 'mult': 3}],
                    'frags': [{'name': 'A', 'tokens': ['[$]', {'atom': '#X', 'annot': {
                        'assign': [['fragname', 'X'], ['w', '0.5']], 'free': [['m', '3']],
                        'ents': [['P', 'X'], ['K', 'm', '3'], ['K', 'w', '0.5']]}}, '[$]']}]})
        out.append({'kind': 'prop', 'aa': True,
                    'units': [{'annot': {'assign': [['fragname', 'A'], ['q', '1']], 'free': [['foo', 'bar']],
                                         'ents': [['P', 'A'], ['P', '1'], ['K', 'foo', 'bar']]}, 'mult': 1},
                              {'annot': {'assign': [['fragname', 'A']], 'free': [], 'ents': [['P', 'A']]}, 'mult': 2}],
                    'frags': [{'name': 'A', 'tokens': ['[$]C', {'atom': 'C', 'annot': {
                        'assign': [['x', 'R'], ['w', '0.5']], 'free': [['k', 'v']],
                        'ents': [['K', 'x', 'R'], ['P', '0.5'], ['K', 'k', 'v']]}}, '(F)[$]']}]})
        # free keys with a leading underscore / digits / upper case / prefixes of each other, on fragment atoms and beads
        out.append({'kind': 'prop', 'aa': True,
                    'units': [{'annot': {'assign': [['fragname', 'A']], 'free': [['_grp', 'g']], 'ents': [['P', 'A'], ['K', '_grp', 'g']]}, 'mult': 2}],
                    'frags': [{'name': 'A', 'tokens': ['[$]C', {'atom': 'N', 'annot': {
                        'assign': [['w', '0.25'], ['x', 'R']], 'free': [['_ref', 'a1'], ['_pos', 'p'], ['2k', 'v'], ['foo', '1'], ['foobar', '2'], ['MASS', '3']],
                        'ents': [['P', '0.25'], ['P', 'R'], ['K', '_ref', 'a1'], ['K', '_pos', 'p'], ['K', '2k', 'v'], ['K', 'foo', '1'],
                                 ['K', 'foobar', '2'], ['K', 'MASS', '3']]}}, '[$]']}]})
        out.append({'kind': 'prop', 'aa': False,
                    'units': [{'annot': {'assign': [['fragname', 'A']], 'free': [], 'ents': [['P', 'A']]}, 'mult': 3}],
                    'frags': [{'name': 'A', 'tokens': ['[$]', {'atom': '#P', 'annot': {
                        'assign': [['fragname', 'P'], ['w', '0.5']], 'free': [['_bead', 'p1'], ['_', 'u'], ['007', 'b'], ['fo', '1'], ['foo', '2']],
                        'ents': [['P', 'P'], ['K', 'w', '0.5'], ['K', '_bead', 'p1'], ['K', '_', 'u'], ['K', '007', 'b'], ['K', 'fo', '1'],
                                 ['K', 'foo', '2']]}}, '[#Q][$]']}]})
        out.append({'kind': 'prop', 'aa': True,
                    'units': [{'annot': {'assign': [['fragname', 'A'], ['q', '1']], 'free': [['c', 'u'], ['weigh', 'v'], ['chiral', 'R']],
                                         'ents': [['P', 'A'], ['K', 'c', 'u'], ['K', 'q', '1'], ['K', 'weigh', 'v'], ['K', 'chiral', 'R']]}, 'mult': 2}],
                    'frags': [{'name': 'A', 'tokens': ['[$]C', {'atom': 'N', 'annot': {
                        'assign': [['w', '0.25']], 'free': [['ch', 'a'], ['chira', 'b'], ['we', 'c'], ['charg', 'd']],
                        'ents': [['K', 'ch', 'a'], ['K', 'w', '0.25'], ['K', 'chira', 'b'], ['K', 'we', 'c'], ['K', 'charg', 'd']]}}, '[$]']}]})
        # branch multipliers: annotated anchor / annotated node inside the unit / annotated multiplied node
        def an(name, assign=(), free=(), ents=None):
            assign = [['fragname', name]] + [list(x) for x in assign]
            return {'assign': assign, 'free': [list(x) for x in free],
                    'ents': ents if ents is not None else [['P', name]] + [['K', k, v] for k, v in assign[1:]] +
                    [['K', k, v] for k, v in free]}
        fr = [{'name': 'A', 'tokens': ['[$]C[$]']}, {'name': 'B', 'tokens': ['[$]CO[$]']}]
        for n in (2, 3):
            out.append({'kind': 'prop', 'aa': True, 'frags': fr, 'units': [
                {'annot': an('A', [('q', '1')]), 'mult': 1, 'branch': {'nodes': [{'annot': an('B'), 'mult': 1}], 'n': n}}]})
            out.append({'kind': 'prop', 'aa': True, 'frags': fr, 'units': [
                {'annot': an('A', [('q', '1'), ('w', '0.5')], [('foo', 'bar')], ents=[['P', 'A'], ['P', '1'], ['P', '0.5'], ['K', 'foo', 'bar']]),
                 'mult': 1, 'branch': {'nodes': [{'annot': an('B', [('w', '2')], [('m', '3')]), 'mult': 1},
                                                 {'annot': an('A', [('q', '-0.25')]), 'mult': 2}], 'n': n}},
                {'annot': an('B', [('q', '1')]), 'mult': 3}]})
            out.append({'kind': 'prop', 'aa': True, 'frags': fr, 'units': [
                {'annot': an('B'), 'mult': 1},
                {'annot': an('A', [('w', '2')], [('k1', 'v')], ents=[['P', 'A'], ['K', 'k1', 'v'], ['K', 'w', '2']]), 'mult': 1,
                 'branch': {'nodes': [{'annot': an('B', [('q', '+1')]), 'mult': 1}], 'n': n}},
                {'annot': an('A', [], [('mass', '72')]), 'mult': 1}]})
        # multiplied annotated coarse nodes inside fragment definitions (n = 1: no multiplier, must be clean)
        for n in (1, 2, 3):
            for shape in CMULT_SHAPES[:4]:
                out.append(rand_cmult_case(rng, n=n, shape=shape))
        out.append({'kind': 'cmult', 'fname': 'A', 'pre': '[$]', 'post': '[#Y][$]', 'n': 3,
                    'units': [{'annot': an('A'), 'mult': 2}],
                    'annot': {'assign': [['fragname', 'X'], ['w', '2']], 'free': [['foo', 'bar']],
                              'ents': [['P', 'X'], ['K', 'w', '2'], ['K', 'foo', 'bar']]}})
        return out

    def generate(self, ctx, n):
        rng = ctx.rng
        out = []
        for i in range(n):
            r = rng.random()
            if r < 0.35:
                d = rng.choice((0, 1))
                assign, free = rand_annot(rng, d, bad=0.03)
                out.append({'kind': 'forms', 'd': d, 'assign': assign, 'free': free,
                            'variants': writings(d, assign, free, rng=rng, limit=8)})
            elif r < 0.65:
                d = rng.choice((0, 1))
                out.append({'kind': 'parse', 'd': d, 'text': fuzz_text(rng, d)})
            elif r < 0.85:
                out.append(rand_prop_case(rng))
            elif r < 0.95:
                out.append(rand_bmult_case(rng))
            else:
                out.append(rand_cmult_case(rng))
        return out

    # -- implementation ------------------------------------------------------------------------
    def run_impl(self, case):
        kind = case['kind']
        if kind == 'parse':
            return {'res': run_parser(case['d'], case['text']), 'table': float_table(candidates(case['text']))}
        if kind == 'forms':
            texts = [render_ents(es) for es in case['variants']]
            tbl = float_table({v for _, v in case['assign']} | {c for t in texts for c in candidates(t)})
            return {'res': [run_parser(case['d'], t) for t in texts], 'table': tbl}
        from cgsmiles.resolve import MoleculeResolver
        if kind == 'cmult':
            s = render_cmult(case)
            texts = [render_ents(a['ents']) for a in unit_annots(case['units'])] + [render_ents(case['annot']['ents'])]
            tbl = float_table({c for t in texts for c in candidates(t)})
            try:
                with contextlib.redirect_stdout(io.StringIO()):
                    meta, mol = MoleculeResolver.from_string(s, last_all_atom=False).resolve()
            except Exception as exc:
                return {'s': s, 'exc': exc_desc(exc), 'table': tbl}
            ans = expand_units(case['units'])
            base = [simple_attrs(meta.nodes[k]) if k in meta.nodes else {} for k in range(len(ans))]
            j = len(re.findall(r'\[#', case['pre']))
            copies = []
            for i in range(len(ans)):
                keys = sorted(k for k in mol.nodes if mol.nodes[k].get('fragid') == [i])
                copies.append([simple_attrs(mol.nodes[k]) for k in keys[j:j + case['n']]])
            return {'s': s, 'base': base, 'copies': copies, 'table': tbl, 'extra_nodes': len(meta.nodes) - len(ans)}
        # propagation
        s = render_prop(case)
        texts = [render_ents(a['ents']) for a in unit_annots(case['units'])]
        for f in case['frags']:
            texts += [render_ents(t['annot']['ents']) for t in f['tokens'] if isinstance(t, dict)]
        tbl = float_table({c for t in texts for c in candidates(t)})
        try:
            with contextlib.redirect_stdout(io.StringIO()):
                meta, mol = MoleculeResolver.from_string(s, last_all_atom=case['aa']).resolve()
        except Exception as exc:
            return {'s': s, 'exc': exc_desc(exc), 'table': tbl}
        base = []
        for node, an in enumerate(expand_units(case['units'])):
            base.append({'name': dict(an['assign']).get('fragname'),
                         'obs': simple_attrs(meta.nodes[node]) if node in meta.nodes else {}})
        by_fragid = {}
        for k in sorted(mol.nodes):
            fid = mol.nodes[k].get('fragid')
            if isinstance(fid, list) and len(fid) == 1:
                by_fragid.setdefault(fid[0], []).append(k)
        atoms = []
        for f in case['frags']:
            for ti, tok in enumerate(f['tokens']):
                if not isinstance(tok, dict):
                    continue
                j = count_atoms_before(f['tokens'], ti)
                copies = []
                for i, b in enumerate(base):
                    if b['name'] == f['name']:
                        keys = by_fragid.get(i, [])
                        if j < len(keys):
                            copies.append(simple_attrs(mol.nodes[keys[j]]))
                atoms.append({'frag': f['name'], 'index': j, 'copies': copies})
        return {'s': s, 'base': [b['obs'] for b in base], 'atoms': atoms, 'table': tbl,
                'extra_nodes': len(meta.nodes) - len(base)}

    # -- Coq -----------------------------------------------------------------------------------
    def coq_case(self, case, impl):
        kind = case['kind']
        tbl = coq_table(impl['table'])
        if kind == 'parse':
            return '(CParse %s %s %s %s)' % (lit.nat(case['d']), tbl, lit.s(case['text']), coq_res_attrs(impl['res']))
        if kind == 'forms':
            vs = lit.lst(['(%s, %s, %s)' % (coq_ents(es), lit.s(render_ents(es)), coq_res_attrs(r))
                          for es, r in zip(case['variants'], impl['res'])])
            return '(CForms %s %s %s %s %s)' % (lit.nat(case['d']), tbl, coq_entries(case['assign']),
                                               coq_entries(case['free']), vs)
        if kind == 'cmult':
            if 'exc' in impl or impl.get('extra_nodes'):
                # a rejected string: stated as an ordinary propagation case without copies (code 9)
                return '(CProp %s false (Some %s) [] [])' % (tbl, coq_err(impl['exc']) if 'exc' in impl else 'EAssert')
            base = ['(%s, %s, %s)' % (coq_annot(an), lit.s(render_ents(an['ents'])), lit.attrs(impl['base'][k]))
                    for k, an in enumerate(expand_units(case['units']))]
            return '(CMult %s %s %s %s %s %s %s)' % (
                tbl, lit.lst(base), lit.s(case['fname']), coq_annot(case['annot']), lit.s(render_ents(case['annot']['ents'])),
                lit.nat(case['n']), lit.lst([lit.lst([lit.attrs(c) for c in cs]) for cs in impl['copies']]))
        if 'exc' in impl:
            nb = len(expand_units(case['units']))
            na = sum(1 for f in case['frags'] for t in f['tokens'] if isinstance(t, dict))
            impl = dict(impl, base=[{}] * nb, atoms=[{'copies': []}] * na)
        base = []
        for k, an in enumerate(expand_units(case['units'])):
            base.append('(%s, %s, %s)' % (coq_annot(an), lit.s(render_ents(an['ents'])), lit.attrs(impl['base'][k])))
        atoms = []
        k = 0
        for f in case['frags']:
            for tok in f['tokens']:
                if isinstance(tok, dict):
                    a = impl['atoms'][k]
                    k += 1
                    atoms.append('(%s, %s, %s, %s)' % (lit.s(f['name']), coq_annot(tok['annot']),
                                                       lit.s(render_ents(tok['annot']['ents'])),
                                                       lit.lst([lit.attrs(c) for c in a['copies']])))
        exc = ('(Some %s)' % coq_err(impl['exc']) if 'exc' in impl else
               'None' if impl.get('extra_nodes', 0) == 0 else '(Some EAssert)')
        return '(CProp %s %s %s %s %s)' % (tbl, lit.b(case['aa']), exc, lit.lst(base), lit.lst(atoms))

    # -- second oracle (Python; used when the Coq side cannot be built) -------------------------------
    def python_oracle(self, case, impl):
        if case['kind'] != 'prop':
            return None
        def in_class(ents):
            return sum(1 for e in ents if e[0] == 'P') > 1 or any(e[0] == 'K' and e[1] in ('q', 'x') for e in ents)
        if 'exc' in impl:
            if not case['aa'] and any(isinstance(t, dict) and in_class(t['annot']['ents'])
                                      for f in case['frags'] for t in f['tokens']):
                return 0                                  # possibly the known class: judged by the Coq predicate only
            return 9
        tbl = impl['table']

        def expected(an, d):
            amap = dict(an['assign'])
            exp = {k: v for k, v in an['free']}
            for short, long_, default in ((('q', 'charge', 0.0), ('w', 'weight', 1.0)) if d == 0 else (('w', 'weight', 1.0),)):
                if short in amap:
                    if tbl.get(amap[short]) is None:
                        return None                       # not a number: C20's domain
                    exp[long_] = tbl[amap[short]]
                else:
                    exp[long_] = lit.float_repr(default)
            if d == 0 and 'fragname' in amap:
                exp['fragname'] = amap['fragname']
            if d == 1 and 'x' in amap:
                exp['chiral'] = amap['x']
            return exp

        def carries(obs, exp, skip=()):
            for k, v in exp.items():
                if k in skip:
                    continue
                o = obs.get(k)
                if isinstance(o, float):
                    o = lit.float_repr(o)
                if o != v:
                    return False
            return True
        ans = expand_units(case['units'])
        for an, obs in zip(ans, impl['base']):
            exp = expected(an, 0)
            if exp is not None and not carries(obs, exp):
                return 7
        k = 0
        for f in case['frags']:
            for tok in f['tokens']:
                if not isinstance(tok, dict):
                    continue
                a = impl['atoms'][k]
                k += 1
                exp = expected(tok['annot'], 1 if case['aa'] else 0)
                if exp is None:
                    continue
                uses = sum(1 for an in ans if dict(an['assign']).get('fragname') == f['name'])
                if len(a['copies']) != uses or uses == 0:
                    return 11
                if not case['aa']:
                    if in_class(tok['annot']['ents']):
                        continue                          # the known class: judged by the Coq predicate only
                if not all(carries(c, exp, skip=('fragname',)) for c in a['copies']):
                    return 8 if case['aa'] else 10
        return 0

    # -- bookkeeping ---------------------------------------------------------------------------
    def known_class(self, case, impl, code):
        # the class predicate is evaluated in Coq (DialectCheck.coarse_fragment_dialect_class): code 110
        return {110: 'coarse_fragment_atom_dialect', 111: 'coarse_fragment_multiplier'}.get(code)

    def describe(self, case):
        if case['kind'] == 'prop':
            return {'kind': 'prop', 'aa': case['aa'], 's': render_prop(case), 'units': case['units'], 'frags': case['frags']}
        if case['kind'] == 'cmult':
            return dict(case, s=render_cmult(case), aa=False)
        return case

    def nontrivial(self, case, impl):
        if case['kind'] in ('prop', 'cmult'):
            return 'exc' not in impl
        if case['kind'] == 'forms':
            return len(case['variants']) > 1
        return True

    def case_class(self, case, impl):
        if case['kind'] == 'parse':
            r = impl['res']
            return 'parse:' + ('ok' if 'ok' in r else r['err'])
        if case['kind'] == 'forms':
            r = impl['res'][0] if impl['res'] else {'ok': {}}
            return 'forms:d%d:%s' % (case['d'], 'ok' if 'ok' in r else r['err'])
        if 'exc' in impl:
            return 'prop:exception:' + impl['exc']
        if case['kind'] == 'cmult':
            return 'prop:coarse-fragment-node-multiplier:n%d:uses%d' % (case['n'], len(impl['copies']))
        if any(u.get('branch') for u in case['units']):
            return 'prop:branch-multiplier:n%d:%s' % (max(u['branch']['n'] for u in case['units'] if u.get('branch')),
                                                      'atomistic' if case['aa'] else 'coarse')
        reuse = max([len(a['copies']) for a in impl['atoms']] + [0])
        return 'prop:%s:reuse%d' % ('atomistic' if case['aa'] else 'coarse', reuse)


PROP = C14()
