"""Shared harness code of the resolver-core properties (C02, C11, C12): JSON-able encodings of
networkx graphs, Gallina printers for them, the recorder that wraps every stage of a real
MoleculeResolver.resolve(), canonical dumps, input generators."""
import copy
import hashlib
import json

import networkx as nx

import gens
import lit

STAGES = {1: 'resolve_disconnected_molecule', 2: 'edges_from_bonding_descrpt', 3: 'squash_atoms',
          4: 'rebuild_h_atoms', 5: 'sort_nodes_by_attr', 6: 'annotate_ez_isomers_cgsmiles',
          7: 'annotate_fragments', 8: 'set_atom_names_atomistic'}


class Unencodable(Exception):
    pass


# ------------------------------------------------------------------------------- encoding
def enc_val(v):
    try:
        import numpy as np
        if isinstance(v, np.generic):
            v = v.item()
        elif isinstance(v, np.ndarray):
            v = v.tolist()
    except ImportError:
        pass
    if v is None or isinstance(v, (bool, str)):
        if isinstance(v, str):
            lit.s(v)      # printable-ASCII check
        return v
    if isinstance(v, int):
        return v
    if isinstance(v, float):
        return {'f': lit.float_repr(v)}
    if isinstance(v, list):
        return {'l': [enc_val(x) for x in v]}
    if isinstance(v, tuple):
        return {'t': [enc_val(x) for x in v]}
    if isinstance(v, dict):
        return {'d': [[enc_val(k), enc_val(x)] for k, x in v.items()]}
    raise Unencodable(type(v).__name__)


def enc_attrs(d, skip=()):
    out = []
    for k, v in d.items():
        if k in skip:
            continue
        if not isinstance(k, str):
            raise Unencodable('attribute key %r' % (k,))
        out.append([k, enc_val(v)])
    return out


def enc_graph(G, skip=('graph',)):
    """[[key, attrs, [[nbr, attrs]…]]…] in node / adjacency insertion order"""
    out = []
    for n, d in G._node.items():
        if not isinstance(n, int) or isinstance(n, bool):
            raise Unencodable('node key %r' % (n,))
        out.append([n, enc_attrs(d, skip), [[w, enc_attrs(ed)] for w, ed in G._adj[n].items()]])
    return out


def dec_val(e):
    if isinstance(e, dict):
        if 'f' in e:
            return float(e['f'])
        if 'l' in e:
            return [dec_val(x) for x in e['l']]
        if 't' in e:
            return tuple(dec_val(x) for x in e['t'])
        if 'd' in e:
            return {dec_val(k): dec_val(x) for k, x in e['d']}
    return e


def dec_graph(e):
    """rebuild a networkx graph with the same node and adjacency insertion order"""
    G = nx.Graph()
    for n, a, _ in e:
        G.add_node(n, **{k: dec_val(v) for k, v in a})
    shared = {}
    for n, _, adj in e:
        for w, ea in adj:
            key = (min(n, w), max(n, w))
            if key not in shared:
                shared[key] = {k: dec_val(v) for k, v in ea}
            G._adj[n][w] = shared[key]
    return G


def enc_fgs(meta):
    return [[k, enc_graph(meta.nodes[k]['graph'])] for k in meta.nodes if 'graph' in meta.nodes[k]]


def enc_fd(fd):
    return [[name, enc_graph(g)] for name, g in fd.items()]


# ------------------------------------------------------------------------------- Gallina
class Tab:
    """hash-consing table for case files: every distinct string / attribute dict becomes one
    `Definition`, the case terms only name them (string literals are what makes coqc slow)"""

    def __init__(self, prefix=''):
        self.strs = {}
        self.attr = {}
        self.order = []
        self.prefix = prefix

    def s(self, text):
        n = self.strs.get(text)
        if n is None:
            n = '%ss%d' % (self.prefix, len(self.strs))
            self.strs[text] = n
            self.order.append('Definition %s := %s.' % (n, lit.s(text)))
        return n

    def val(self, e):
        if e is None:
            return 'VNone'
        if isinstance(e, bool):
            return '(VBool %s)' % lit.b(e)
        if isinstance(e, int):
            return '(VInt %s)' % lit.z(e)
        if isinstance(e, str):
            return '(VStr %s)' % self.s(e)
        if 'f' in e:
            return '(VFlt %s)' % self.s(e['f'])
        if 'l' in e:
            return '(VList %s)' % lit.lst([self.val(x) for x in e['l']])
        if 't' in e:
            return '(VTup %s)' % lit.lst([self.val(x) for x in e['t']])
        if 'd' in e:
            return '(VDict %s)' % lit.lst([lit.pair(self.val(k), self.val(x)) for k, x in e['d']])
        raise TypeError(e)

    def attrs(self, a):
        if not a:
            return '[]'
        key = json.dumps(a)
        n = self.attr.get(key)
        if n is None:
            body = lit.lst([lit.pair(self.s(k), self.val(v)) for k, v in a])
            n = '%sa%d' % (self.prefix, len(self.attr))
            self.attr[key] = n
            self.order.append('Definition %s : attrs := %s.' % (n, body))
        return n

    def graph(self, e):
        return lit.lst(['{| nk := %s; na := %s; nadj := %s |}'
                        % (lit.z(n), self.attrs(a), lit.lst([lit.pair(lit.z(w), self.attrs(ea)) for w, ea in adj]))
                        for n, a, adj in e])

    def fgs(self, e):
        return lit.lst([lit.pair(lit.z(k), self.graph(g)) for k, g in e])

    def fd(self, e):
        return lit.lst([lit.pair(self.s(name), self.graph(g)) for name, g in e])

    def defs(self):
        return '\n'.join(self.order) + '\n'


def lit_opt(e, f):
    return 'None' if e is None else '(Some %s)' % f(e)


def lit_stepcase(rec, tab):
    """Gallina term of type Resolve.StepCheck.stepcase for one recorded resolve() call"""
    tr = ('{| tr_squash := %s; tr_hyd := %s; tr_ez := %s |}'
          % (lit_opt(rec.get('tr_squash'), tab.graph), lit_opt(rec.get('tr_hyd'), tab.graph),
             lit_opt(rec.get('tr_ez'), tab.graph)))
    out = 'None'
    if rec.get('mol') is not None:
        out = '(Some (%s, %s))' % (tab.fgs(rec['fgs']), tab.graph(rec['mol']))
    return ('{| sc_legacy := %s; sc_aa := %s; sc_prev := %s; sc_fd := %s; sc_tr := %s; sc_car := %s; sc_m2 := %s; sc_m5 := %s; '
            'sc_out := %s; sc_stage := %s; sc_exc := %s |}'
            % (lit.b(rec['legacy']), lit.b(rec['aa']), tab.graph(rec['prev']), tab.fd(rec['fd']), tr,
               lit_opt(rec.get('car'), tab.graph), lit_opt(rec.get('m2'), tab.graph), lit_opt(rec.get('m5'), tab.graph), out,
               lit.nat(rec['stage']), tab.s(rec.get('exc') or '')))


TRIVIAL_STEP = ('{| sc_legacy := true; sc_aa := false; sc_prev := []; sc_fd := []; sc_tr := no_transcript; sc_car := None; '
                'sc_m2 := Some []; sc_m5 := Some []; sc_out := Some ([], []); sc_stage := 0%nat; sc_exc := [] |}')

HEADER = ('From Coq Require Import String.\nFrom Coq Require Import List Ascii ZArith Bool.\n'
          'From CGV Require Import Base.PyBase Base.PyVal Base.NxGraph Resolve.Bonding Resolve.GraphOps '
          'Resolve.Pipeline Resolve.StepCheck.\nImport ListNotations.\nOpen Scope Z_scope.\n')


# ------------------------------------------------------------------------------- recorder
def has_squash(G):
    for _, _, b in G.edges(data='bonding'):
        if b is not None and len(b) > 0 and isinstance(b[0], str) and b[0].startswith('!'):
            return True
    return False


def record_resolve(resolver):
    """run resolver.resolve() once with every stage wrapped; returns (record, result or None).
    The record is JSON-able.  Nothing in /repo is modified: instance methods are shadowed on the
    instance and the module-level helpers are patched in cgsmiles.resolve for the duration of the call."""
    import cgsmiles.resolve as R
    rec = {'legacy': bool(resolver.legacy),
           'aa': bool(resolver.resolution_counter == resolver.resolutions - 1 and resolver.last_all_atom),
           'stage': 0, 'exc': None}
    try:
        rec['prev'] = enc_graph(resolver.molecule)
        rec['fd'] = enc_fd(resolver.fragment_dicts[resolver.resolution_counter])
    except (Unencodable, IndexError, ValueError) as exc:
        return {'skip': 'input: %s %s' % (type(exc).__name__, exc)}, None
    cur = {'stage': 0}
    saved_mod = {}
    inst_names = ['resolve_disconnected_molecule', 'edges_from_bonding_descrpt', 'squash_atoms']

    def enter(k):
        cur['stage'] = k

    o_disc, o_bond, o_squash = (resolver.resolve_disconnected_molecule, resolver.edges_from_bonding_descrpt,
                                resolver.squash_atoms)

    def w_disc(fragment_dict):
        enter(1)
        return o_disc(fragment_dict)

    def w_bond(all_atom=True):
        enter(2)
        return o_bond(all_atom=all_atom)

    def w_squash():
        enter(3)
        rec['m2'] = enc_graph(resolver.molecule)
        sq = has_squash(resolver.molecule)
        r = o_squash()
        if sq:
            rec['tr_squash'] = enc_graph(resolver.molecule)
        rec['_m3'] = resolver.molecule
        return r

    def w_hyd(mol, *a, **kw):
        enter(4)
        import pysmiles
        helper = pysmiles.smiles_helper
        orig_car = helper.correct_aromatic_rings

        def car(m, *aa, **kk):
            r = orig_car(m, *aa, **kk)          # a SyntaxError leaves rec['car'] unset (= None)
            rec['car'] = enc_graph(m)
            return r
        helper.correct_aromatic_rings = car
        try:
            r = saved_mod['rebuild_h_atoms'](mol, *a, **kw)
        finally:
            helper.correct_aromatic_rings = orig_car
        rec['tr_hyd'] = enc_graph(mol)
        return r

    def w_sort(graph, *a, **kw):
        enter(5)
        r = saved_mod['sort_nodes_by_attr'](graph, *a, **kw)
        rec['m5'] = enc_graph(r)
        return r

    def w_ez(mol):
        enter(6)
        had = bool(nx.get_node_attributes(mol, 'ez_isomer_class'))
        r = saved_mod['annotate_ez_isomers_cgsmiles'](mol)
        if had:
            rec['tr_ez'] = enc_graph(mol)
        return r

    def w_annot(meta, mol):
        enter(7)
        return saved_mod['annotate_fragments'](meta, mol)

    def w_names(mol, meta=None):
        enter(8)
        return saved_mod['set_atom_names_atomistic'](mol, meta)

    wrappers = {'rebuild_h_atoms': w_hyd, 'sort_nodes_by_attr': w_sort, 'annotate_ez_isomers_cgsmiles': w_ez,
                'annotate_fragments': w_annot, 'set_atom_names_atomistic': w_names}
    result = None
    try:
        for name, w in wrappers.items():
            saved_mod[name] = getattr(R, name)
            setattr(R, name, w)
        resolver.resolve_disconnected_molecule = w_disc
        resolver.edges_from_bonding_descrpt = w_bond
        resolver.squash_atoms = w_squash
        try:
            result = resolver.resolve()
        except Exception as exc:            # noqa: BLE001 - every exception class is an observable
            rec['exc'] = type(exc).__name__
            rec['stage'] = cur['stage'] or 1
    finally:
        for name, f in saved_mod.items():
            setattr(R, name, f)
        for name in inst_names:
            resolver.__dict__.pop(name, None)
    rec.pop('_m3', None)
    if result is not None:
        meta, mol = result
        try:
            rec['meta'] = enc_graph(meta)
            rec['fgs'] = enc_fgs(meta)
            rec['mol'] = enc_graph(mol)
        except Unencodable as exc:
            return {'skip': 'output: %s' % exc}, result
    return rec, result


def record_all(resolver):
    """all levels of one resolver: list of records (stops at the first exception)"""
    recs = []
    for _ in range(resolver.resolutions):
        rec, res = record_resolve(resolver)
        recs.append(rec)
        if 'skip' in rec or rec.get('exc'):
            break
    return recs


# ------------------------------------------------------------------------------- canonical dump
def canon_graph(G, skip=('graph',)):
    return json.dumps(enc_graph(G, skip), sort_keys=False)


def canon_result(meta, mol):
    """canonical text of a resolve() result: coarse graph, its fragment graphs, fine graph, with
    node / adjacency iteration order and attribute insertion order"""
    return json.dumps({'meta': enc_graph(meta), 'fgs': enc_fgs(meta), 'mol': enc_graph(mol)})


def digest(text):
    return hashlib.sha1(text.encode()).hexdigest()


# ------------------------------------------------------------------------------- generators
CG_FRAGS = ['[#X]', '[#X][#Y]', '[#X][#Y][#Z]', '[#X]([#Y])[#Z]', '[#X]1[#Y][#Z]1', '[#X]=[#Y]', '[#P][#Q]1[#R][#S]1',
            '[#X;q=1][#Y;w=2.5]']
AA_FRAGS = ['C', 'CC', 'COC', 'CC(C)C', 'C=C', 'CCO', 'N', 'O', 'CC(=O)O', 'C1CC1', 'CCN', 'CS', 'c1ccccc1', 'c1ccncc1',
            'C(F)C', 'CCl', 'C#C', 'C1=CC=CC=C1', '[NH3+]C', 'C[O-]', 'c1ccsc1', '[C;w=2.0]C', 'C[H]', 'OC(F)Cl', 'cc',
            # explicit hydrogens with a weight of their own that reads as "false" (0, 0.0) on parents of non-zero weight
            'C[H;w=0]', '[C;w=2.0][H;w=0]', 'C[H;0]', '[C;2.5]([H;w=0.0])C', 'N([H;w=0])[H;w=0.5]']


CG_FRAGS_SQ = ['[!][#X][#Y][!]', '[!][#Y][#X][!]', '[#X][#Y][!]', '[!][#Y][#Z]', '[!][#X][!]', '[!][#X][#Y][#Z][!]', '[$][#X][#Y][!]']
AA_FRAGS_SQ = ['[!]OC[!]', '[!]CC[!]', 'OC[!]', '[!]CN', '[!]C[!]', '[!]CCC[!]', '[!]C(C)C[!]', '[$]CC[!]']


def rand_frag_block(rng, names, all_atom, kinds='$$$><', max_desc=3, squash=False):
    pool = AA_FRAGS if all_atom else CG_FRAGS
    defs = []
    for nm in names:
        sk = rng.choice(pool)
        k = kinds + ('!!' if squash else '')
        defs.append('#%s=%s' % (nm, gens.decorate(rng, sk, rng.randint(0, max_desc), kinds=k,
                                                   labels=('', '', '', 'A'), syms=('', '', '', '', '='))))
    return defs


def rand_base(rng, names, nmax=6, p_zero=0.08, p_ring=0.3, max_order=2):
    text, d = gens.rand_base_graph(rng, names, nmax=nmax, max_order=max_order, p_ring=p_ring, p_zero=p_zero)
    return text


def with_multiplier(rng, text):
    """sometimes turn a base text into a multiplied unit `{[#A][#B]|3}` / `{[#A]|4[#B]}`"""
    r = rng.random()
    if r < 0.15 and text.count('[') >= 1 and '(' not in text and not any(c.isdigit() for c in text):
        inner = text[1:-1]
        first_end = inner.index(']') + 1
        return '{' + inner[:first_end] + '|%d' % rng.randint(2, 4) + inner[first_end:] + '}'
    return text


def rand_multilevel(rng, levels, last_all_atom, squash=False, coarse_squash=False, squash_chain=False):
    """a complete CGsmiles string with `levels` fragment blocks; names at level i+1 are the node
    names used by the fragments of level i"""
    names0 = rng.sample(['A', 'B', 'C', 'D'], rng.randint(1, 3))
    base = with_multiplier(rng, rand_base(rng, names0))
    blocks = []
    cur = names0
    for lv in range(levels):
        aa = last_all_atom and lv == levels - 1
        if squash_chain:
            # every fragment carries the squash operator on its first and last atom, on EVERY level, so that
            # neighbouring fragments share an atom level after level (stale per-level bookkeeping shows up here)
            pool = AA_FRAGS_SQ if aa else CG_FRAGS_SQ
            defs = ['#%s=%s' % (nm, rng.choice(pool)) for nm in cur]
        else:
            defs = rand_frag_block(rng, cur, aa, squash=squash and (aa or coarse_squash))
        blocks.append(defs)
        if not aa:
            import re
            nxt = sorted(set(re.findall(r'\[#([A-Za-z0-9]+)', ','.join(d.split('=', 1)[1] for d in defs))))
            cur = nxt or ['X']
    return base, blocks


def reuse_names(blocks):
    """rename the bead names every non-final block introduces to A, B, C, ... (in sorted order), so that the names of one
    level are used again on the next level; the definitions of the next block are renamed accordingly"""
    import re
    pool = ['A', 'B', 'C', 'D', 'E', 'F', 'G', 'H']
    out = [list(b) for b in blocks]
    for lv in range(len(out) - 1):
        used = sorted(set(re.findall(r'\[#([A-Za-z0-9]+)', ','.join(d.split('=', 1)[1] for d in out[lv]))))
        if not used or len(used) > len(pool):
            continue
        ren = dict(zip(used, pool))
        out[lv] = [d.split('=', 1)[0] + '=' + re.sub(r'\[#([A-Za-z0-9]+)', lambda m: '[#' + ren[m.group(1)], d.split('=', 1)[1]) for d in out[lv]]
        nxt = []
        for d in out[lv + 1]:
            nm, body = d.split('=', 1)
            nxt.append('#' + ren.get(nm[1:], nm[1:]) + '=' + body)
        out[lv + 1] = nxt
    return out


def join_blocks(base, blocks):
    return base + ''.join('.{' + ','.join(b) + '}' for b in blocks)


# ------------------------------------------------------------------------------- prop base class
import common  # noqa: E402


class StepProp(common.Prop):
    """Base of the resolver-core checks.  Case terms are large, so every case comes with its own
    hash-consing `Definition`s; the generic flow writes `case_requires` once per shard, in shard
    order, right before the shard's cases - the property below hands out the definitions of exactly
    the cases of that shard (run_impl is called for every case of a round before the round's shards
    are written, in the same order)."""
    shard = 10
    header = HEADER
    extra_requires = ''

    def __init__(self):
        self._round = []      # definitions per case of the current round, in run_impl order
        self._terms = []      # Gallina term per case of the current round
        self._shard_i = 0
        self._n = 0
        self._reccache = {}

    def begin_round(self):
        self._round, self._terms, self._shard_i = [], [], 0

    def new_tab(self):
        self._n += 1
        return Tab(prefix='c%d' % self._n)

    def put_term(self, tabs, term):
        """register the term of the case run_impl is working on; returns its index"""
        self._round.append([d for t in tabs for d in t.order])
        self._terms.append(term)
        return len(self._terms) - 1

    @property
    def case_requires(self):
        chunk = self._round[self._shard_i * self.shard:(self._shard_i + 1) * self.shard]
        self._shard_i += 1
        return self.header + self.extra_requires + '\n'.join(d for defs in chunk for d in defs)

    def coq_case(self, case, impl):
        return self._terms[impl['_k']]

    # ---- resolver runs shared by several cases of one input
    def records_for(self, key, make_resolver):
        if key not in self._reccache:
            if len(self._reccache) > 64:
                self._reccache.clear()
            try:
                resolver = make_resolver()
            except Exception as exc:          # noqa: BLE001
                self._reccache[key] = {'ctor_exc': type(exc).__name__}
            else:
                self._reccache[key] = {'recs': record_all(resolver)}
        return self._reccache[key]


def rec_summary(rec):
    """small JSON-able description of a record for evidence / replay files"""
    if 'skip' in rec:
        return {'skip': rec['skip']}
    out = {'aa': rec['aa'], 'stage': rec['stage'], 'exc': rec['exc']}
    if rec.get('mol') is not None:
        out['fine_nodes'] = len(rec['mol'])
        out['coarse'] = [[k, dict(a).get('fragname'), [n for n, _, _ in g]]
                         for (k, a, _), (_, g) in zip(rec['meta'], rec['fgs'])] if len(rec['meta']) == len(rec['fgs']) else None
        out['fragid'] = [[n, dec_val(dict(a).get('fragid'))] for n, a, _ in rec['mol']][:40]
        out['mapping'] = [[n, [list(m) for m in (dec_val(dict(a).get('mapping')) or [])]] for n, a, _ in rec['mol']
                          if dict(a).get('mapping') is not None][:40]
    return out


def py_virtual_not_last(rec):
    """mirror of MapDefs.virtual_not_last on a record"""
    names = {name for name, _ in rec['fd']}
    cnt = 0
    for k, a, _ in rec['prev']:
        d = dict(a)
        fn = d.get('atomname', d.get('fragname'))
        if not isinstance(fn, str) or fn not in names:
            continue
        if k != cnt:
            return True
        cnt += 1
    return False


def add_virtual_tail(rng, base):
    """append a fragment-less node by a zero-order edge at the END of the base text (the position the
    current implementation handles)"""
    if '|' in base:
        return base
    return base[:-1] + '.[#VV]}'


# ------------------------------------------------------------------------------- determinism experiments
def dump_iter(resolver):
    """canonical dump of every level, taken when resolve_iter yields it; an exception ends the list"""
    out = []
    try:
        for meta, mol in resolver.resolve_iter():
            out.append(canon_result(meta, mol))
    except Exception as exc:            # noqa: BLE001
        out.append('EXC:' + type(exc).__name__)
    return out


def dump_all_from_string(s, laa, legacy):
    from cgsmiles.resolve import MoleculeResolver
    try:
        r = MoleculeResolver.from_string(s, last_all_atom=laa, legacy=legacy)
    except Exception as exc:            # noqa: BLE001
        return ['CTOR:' + type(exc).__name__]
    return dump_iter(r)


def canon_dicts(dicts):
    return json.dumps([[[name, enc_graph(g)] for name, g in d.items()] for d in dicts])
