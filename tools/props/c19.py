"""C19 — 2D layout gives every node a finite position at the requested scale.

Two kinds of cases, driven against /repo and judged inside Coq (Geom/LayoutCheck.v):
  layout : vespr_layout(G, default_bond=b) for chains, stars, rings, fused rings, resolved molecules with hydrogens
           (incl. E/Z annotated ones), under relabelings (integer permutations, offsets, string labels, reversed
           iteration order), bond-length settings and numpy RNG seeds (fruchterman_reingold_layout draws from the global
           numpy RNG).  The harness records the positions returned by check_and_fix_cis_trans (pre-scale) and the
           results of np.linalg.norm in the rescale loop through proxies of the names `check_and_fix_cis_trans` / `np`
           inside cgsmiles.graph_layout (no global patch).  Model: Geom/Scale.v float instance, bit for bit.
           With `align` the call passes align_with: proxies of `rotate_to_axis` (inside cgsmiles.graph_layout) and
           `rotate` (inside cgsmiles.linalg_functions) record the rows that went in and came out and cos/sin of the
           angle; model Geom/Tail.v (generated step list and rotation row), alignment compared at 1e-12, the rescale
           that follows bit for bit from the recorded aligned rows.
  rot    : rotate_subgraph(G, anchor, reference, target, points, angle) on random graphs/points with the
           nx.connected_components transcript (proxy of `nx` inside cgsmiles.graph_layout_utils); contract of the
           transcript and "nodes outside the component do not move" checked, every bond length preserved.
Kamada-Kawai / Fruchterman-Reingold / numpy are third party: observed, never modelled.
"""
import copy
import random

import networkx as nx
import numpy as np

import common
import lit
from props import c18 as _c18

fhex = _c18.fhex

EZ = ['{[#A][#B]}.{#A=F/C=C/[$],#B=[$]/C=C/F}', '{[#A]}.{#A=F/C=C\\F}', '{[#A]}.{#A=F/C=C/F}',
      '{[#A][#B]}.{#A=C/C=C\\[$],#B=[$]CC}', '{[#A]}.{#A=C/C=C/C=C/C}']
# connected molecules with a zero-order ('.') bond inside a fragment (salts): the order-0 edge is an edge of the
# graph like any other, the property's mean is over ALL edges
SALTS = ['{[#A][#B]}.{#A=[$]CC,#B=[$]C(=O)[O-].[Na+]}', '{[#A]}.{#A=CC(=O)[O-].[Na+]}', '{[#A][#B]}.{#A=[$]C[NH3+].[Cl-],#B=[$]CO}',
         '{[#A]}.{#A=[Na+].[Cl-]}', '{[#A][#B][#A]}.{#A=[$]C(=O)[O-].[Na+],#B=[$]CC[$]}']
# edge `order` attributes: as produced by the source / none at all / some zero / mixed values
ORDERS = ['asis', 'asis', 'none', 'zeros', 'mixed']
BONDS = [1, 2, 0.5, 1.5, 2.37, 10, 1e-3, 100.0, 1.0]
# align_with vectors (vespr_layout rotates the layout so that its longest axis points along this vector)
ALIGNS = [[1, 0], [0, 1], [1, 1], [-1, 0], [0.3, -2.5], [1.0, 0.0], [0, -1]]


# small molecules for vespr_refined_layout (scipy L-BFGS on a numerical gradient: seconds per atom)
REFINED = ['{[#A]}.{#A=CC}', '{[#A]}.{#A=CO}', '{[#A]}.{#A=C=C}', '{[#A][#B]}.{#A=[$]C,#B=[$]O}', '{[#A]}.{#A=C#N}',
           '{[#A]}.{#A=F/C=C\\F}', '{[#A]}.{#A=F/C=C/F}', '{[#A]}.{#A=CCO}']


class Delegate:
    def __init__(self, real, **over):
        self.__dict__['_real'] = real
        self.__dict__.update(over)

    def __getattr__(self, name):
        return getattr(self._real, name)


def base_graph(rng, shape, n, thorough=False):
    if shape == 'chain':
        return nx.path_graph(n)
    if shape == 'star':
        return nx.star_graph(max(2, min(n, 6)))
    if shape == 'ring':
        return nx.cycle_graph(max(3, n))
    if shape == 'fused':
        a = max(3, min(n, 6))
        b = rng.randint(3, 6)
        G = nx.cycle_graph(a)
        prev = 0
        for i in range(b - 2):
            G.add_edge(prev, a + i)
            prev = a + i
        G.add_edge(prev, 1)
        return G
    if shape == 'tree':
        G = nx.Graph()
        G.add_node(0)
        for i in range(1, n):
            G.add_edge(rng.randrange(i), i)
        return G
    raise ValueError(shape)


def set_orders(G, mode, rng):
    """rewrite the `order` edge attributes (the layout must not depend on them)"""
    edges = list(G.edges)
    if mode == 'none':
        for e in edges:
            G.edges[e].pop('order', None)
    elif mode == 'zeros':
        k = max(1, len(edges) // 4)
        for e in rng.sample(edges, min(k, len(edges))):
            G.edges[e]['order'] = 0
    elif mode == 'mixed':
        for e in edges:
            G.edges[e]['order'] = rng.choice([0, 1, 1, 1.5, 2, 3])
    return G


def relabel(G, how, perm):
    """relabel nodes (and the node keys inside `ez_isomer` attributes)"""
    nodes = list(G.nodes)
    n = len(nodes)
    if how == 'identity':
        mp = {x: x for x in nodes}
    elif how == 'permute':
        srt = sorted(nodes)
        mp = {x: srt[perm[i]] for i, x in enumerate(srt)}
    elif how == 'offset':
        mp = {x: x + 1000 for x in nodes}
    elif how == 'strings':
        mp = {x: 'n%d' % x for x in nodes}
    elif how == 'strings_perm':
        mp = {x: 'a%03d' % perm[i] for i, x in enumerate(sorted(nodes))}
    elif how == 'reversed':
        mp = {x: x for x in nodes}
    else:
        raise ValueError(how)
    H = nx.Graph()
    order = list(reversed(nodes)) if how == 'reversed' else nodes
    for x in order:
        d = {k: v for k, v in G.nodes[x].items() if k in ('element', 'ez_isomer')}
        if 'ez_isomer' in d:
            d['ez_isomer'] = [tuple(mp[a] for a in item[:4]) + (item[4],) for item in d['ez_isomer']]
        H.add_node(mp[x], **d)
    edges = list(G.edges(data=True))
    if how == 'reversed':
        edges.reverse()
    for u, v, d in edges:
        H.add_edge(mp[u], mp[v], **({'order': d['order']} if 'order' in d else {}))
    return H


RELABEL = ['identity', 'permute', 'offset', 'strings', 'strings_perm', 'reversed']


def build_graph(case):
    rng = random.Random(case['gseed'])
    if case['shape'] == 'molecule':
        _, aa = _c18.resolve(case['s'])
        G = aa
    else:
        G = base_graph(rng, case['shape'], case['n'])
    n = len(G)
    perm = [x for x in case['perm'] if x < n]
    if len(perm) != n:
        perm = list(range(n))
    H = relabel(G, case['relabel'], perm)
    return set_orders(H, case.get('orders', 'asis'), rng)


def edit_graph(G, edit):
    """in-place edit of a graph between two layouts of the SAME object; returns a description or None
    (None = this edit is not possible on this graph; the history is then skipped)"""
    op, pick = edit['op'], int(edit['pick'])
    nodes = list(G.nodes)
    ints = all(isinstance(x, int) for x in nodes)
    if op == 'add_edge':
        pairs = [(u, v) for i, u in enumerate(nodes) for v in nodes[i + 1:] if not G.has_edge(u, v)]
        if not pairs:
            return None
        u, v = pairs[pick % len(pairs)]
        G.add_edge(u, v, order=1)
        return ['add_edge', str(u), str(v)]
    if op == 'remove_edge':
        bridges = set(frozenset(e) for e in nx.bridges(G))
        cand = [e for e in G.edges if frozenset(e) not in bridges]
        if not cand:
            return None
        u, v = cand[pick % len(cand)]
        G.remove_edge(u, v)
        return ['remove_edge', str(u), str(v)]
    if op == 'add_node':
        new = (max(nodes) + 1) if ints else 'zz_new'
        u = nodes[pick % len(nodes)]
        G.add_node(new, element='C')
        G.add_edge(u, new, order=1)
        return ['add_node', str(new), str(u)]
    if op == 'remove_node':
        arts = set(nx.articulation_points(G))
        cand = [x for x in nodes if x not in arts]
        if not cand or G.number_of_nodes() <= 2:
            return None
        x = cand[pick % len(cand)]
        G.remove_node(x)
        for n in G.nodes:                      # stereo annotations that mention the removed node go with it
            ez = G.nodes[n].get('ez_isomer')
            if ez is not None:
                keep = [it for it in ez if x not in it[:4]]
                if keep:
                    G.nodes[n]['ez_isomer'] = keep
                else:
                    del G.nodes[n]['ez_isomer']
        return ['remove_node', str(x)]
    raise ValueError(op)


EDITS = ['add_edge', 'remove_edge', 'add_node', 'remove_node']


def v2(p):
    return '(%s, %s)' % (fhex(p[0]), fhex(p[1]))


class C19(common.Prop):
    id = 'C19'
    level = 'proof'
    technique = ('Coq proofs about the rescale step (over R: mean bond length = default_bond; over Q: squared lengths) '
                 'and about rotate_subgraph (bond lengths preserved under the component contract) on a model whose '
                 'rescale expressions are regenerated from graph_layout.py on every run; per-run correspondence of the '
                 'float64 instance with the implementation; Kamada-Kawai/Fruchterman-Reingold are executed oracles')
    vo_deps = ['theories/Geom/LayoutCheck.vo']
    prop_file = 'theories/Properties/C19.v'
    case_requires = ('From Coq Require Import String.\nFrom Coq Require Import List Ascii ZArith Bool PrimFloat.\n'
                     'From CGV Require Import Base.PyBase Geom.Num Geom.CisTrans Geom.LayoutCheck.')
    quick_cases = 300
    thorough_cases = 2500
    extended_cases = 400
    shard = 40
    allowed_axioms = ('ClassicalDedekindReals.sig_forall_dec', 'ClassicalDedekindReals.sig_not_dec',
                      'FunctionalExtensionality.functional_extensionality_dep')
    fail_text = {1: 'vespr_layout raised an exception on a connected graph with at least one bond',
                 2: 'the result is not exactly one 2D position per node',
                 3: 'a coordinate is not finite',
                 4: 'two bonded nodes coincide',
                 5: 'the mean bond length differs from default_bond (relative tolerance 1e-9)',
                 6: 'rotate_subgraph / check_and_fix_cis_trans raised an exception',
                 7: 'rotate_subgraph / check_and_fix_cis_trans produced a non-finite coordinate',
                 8: 'rotate_subgraph / check_and_fix_cis_trans changed a bond length',
                 9: 'vespr_refined_layout gave a node the optimised position of another node',
                 10: 'circular_layout raised an exception on a ring graph'}

    def corpus(self, ctx):
        base = {'gseed': 1, 'perm': [], 'npseed': 5}
        return [dict(base, kind='layout', shape='chain', n=2, relabel='identity', db=1),
                dict(base, kind='layout', shape='ring', n=6, relabel='strings', db=2),
                dict(base, kind='layout', shape='molecule', n=0, s=EZ[0], relabel='identity', db=1.5),
                dict(base, kind='layout', shape='molecule', n=0, s=EZ[1], relabel='strings', db=1.5),
                dict(base, kind='layout', shape='molecule', n=0, s=EZ[3], relabel='reversed', db=0.5),
                dict(base, kind='layout', shape='fused', n=6, relabel='offset', db=1e-3),
                dict(base, kind='layout', shape='molecule', n=0, s=SALTS[0], relabel='identity', db=1),
                dict(base, kind='layout', shape='molecule', n=0, s=SALTS[1], relabel='strings', db=2),
                dict(base, kind='layout', shape='chain', n=5, relabel='identity', db=1, orders='zeros'),
                dict(base, kind='layout', shape='ring', n=6, relabel='permute', db=1.5, orders='none'),
                dict(base, kind='layout', shape='fused', n=6, relabel='identity', db=1, orders='mixed'),
                # align_with given: rotate_to_axis runs between the cis/trans correction and the rescale
                dict(base, kind='layout', shape='chain', n=6, relabel='identity', db=1, align=[1, 0]),
                dict(base, kind='layout', shape='fused', n=6, relabel='strings', db=2.37, align=[0, 1]),
                dict(base, kind='layout', shape='molecule', n=0, s=EZ[1], relabel='permute', db=1.5, align=[1, 1]),
                dict(base, kind='layout', shape='molecule', n=0, s=SALTS[0], relabel='reversed', db=0.5, align=[0.3, -2.5]),
                dict(base, kind='layout', shape='ring', n=5, relabel='offset', db=2, align=[-1, 0], edit={'op': 'add_node', 'pick': 1}),
                # histories on ONE graph object: layout, edit the graph, layout again (the second result is judged)
                dict(base, kind='layout', shape='chain', n=5, relabel='identity', db=1, edit={'op': 'add_edge', 'pick': 1}),
                dict(base, kind='layout', shape='ring', n=6, relabel='strings', db=2, edit={'op': 'remove_node', 'pick': 2}),
                dict(base, kind='layout', shape='fused', n=6, relabel='identity', db=1.5, edit={'op': 'remove_edge', 'pick': 3}),
                dict(base, kind='layout', shape='molecule', n=0, s=EZ[0], relabel='identity', db=1, edit={'op': 'add_node', 'pick': 4}),
                # the other two LAYOUT_METHODS
                dict(base, kind='refined', shape='molecule', n=0, s=REFINED[0], relabel='identity', db=1, maxiter=5),
                dict(base, kind='refined', shape='molecule', n=0, s=REFINED[3], relabel='strings', db=1.5, maxiter=5, align=[1, 0]),
                dict(base, kind='refined', shape='molecule', n=0, s=REFINED[5], relabel='identity', db=1, maxiter=5),
                dict(base, kind='circ', shape='ring', n=6, relabel='identity', db=1),
                dict(base, kind='circ', shape='ring', n=5, relabel='strings_perm', db=2.37),
                dict(base, kind='circ', shape='ring', n=4, relabel='reversed', db=1, align=[1, 0]),
                dict(base, kind='fix', shape='molecule', n=0, s=EZ[0], relabel='identity', fake=0),
                dict(base, kind='fix', shape='molecule', n=0, s=EZ[1], relabel='strings', fake=0),
                dict(base, kind='fix', shape='molecule', n=0, s=EZ[4], relabel='permute', fake=0),
                dict(base, kind='fix', shape='fused', n=6, relabel='identity', fake=3),
                dict(base, kind='fix', shape='chain', n=7, relabel='reversed', fake=2),
                dict(base, kind='rot', shape='chain', n=5, relabel='identity', pick=1, angle=120),
                dict(base, kind='rot', shape='ring', n=6, relabel='strings', pick=2, angle=240),
                dict(base, kind='rot', shape='fused', n=6, relabel='identity', pick=3, angle=120)]

    def generate(self, ctx, n):
        rng = ctx.rng
        out = []
        big = 14 if ctx.thorough() else 9
        for _ in range(n):
            shape = rng.choice(['chain', 'star', 'ring', 'fused', 'tree', 'molecule', 'molecule'])
            perm = list(range(64))
            rng.shuffle(perm)
            c = {'shape': shape, 'n': rng.randint(2, big), 'relabel': rng.choice(RELABEL), 'perm': perm,
                 'gseed': rng.randrange(10 ** 6), 'npseed': rng.randrange(2 ** 31)}
            if shape == 'molecule':
                r = rng.random()
                c['s'] = rng.choice(EZ) if r < 0.3 else rng.choice(SALTS) if r < 0.5 else \
                    _c18.rand_cgsmiles(rng, small=not ctx.thorough())
            c['orders'] = rng.choice(ORDERS)
            r0 = rng.random()
            if r0 < 0.012:
                c.update(kind='refined', shape='molecule', s=rng.choice(REFINED), orders='asis', maxiter=rng.choice([3, 5]),
                         db=rng.choice(BONDS[:5]))
                if rng.random() < 0.4:
                    c['align'] = rng.choice(ALIGNS)
            elif r0 < 0.08:
                c.update(kind='circ', shape='ring', n=rng.randint(3, 10), db=rng.choice(BONDS))
                if rng.random() < 0.3:
                    c['align'] = rng.choice(ALIGNS)
            elif rng.random() < 0.75:
                c['kind'] = 'layout'
                if rng.random() < 0.3:
                    c['edit'] = {'op': rng.choice(EDITS), 'pick': rng.randrange(1000)}
                c['db'] = rng.choice(BONDS) if rng.random() < 0.8 else round(rng.uniform(0.01, 50), 3)
                if rng.random() < 0.35:
                    c['align'] = rng.choice(ALIGNS) if rng.random() < 0.7 else \
                        [round(rng.uniform(-3, 3), 3), round(rng.uniform(-3, 3), 3)]
            elif rng.random() < 0.5:
                c['kind'] = 'rot'
                c['pick'] = rng.randrange(1000)
                c['angle'] = rng.choice([120, 240, 0, 90, 37.5])
            else:
                # check_and_fix_cis_trans called directly: the molecule's own ez_isomer items, or items made up on
                # random 3-bond paths n1-n2-n3-n4 of the graph (`fake` of them), random points
                c['kind'] = 'fix'
                c['fake'] = rng.choice([0, 0, 1, 2, 4])
            out.append(c)
        return out

    # ------------------------------------------------------------------ implementation
    def run_impl(self, case):
        try:
            G = build_graph(case)
        except Exception as exc:
            return {'skip': 'build:' + type(exc).__name__}
        if G.number_of_edges() == 0 or not nx.is_connected(G):
            return {'skip': 'outside-domain'}        # the property speaks about connected graphs with a bond
        if case['kind'] == 'layout' and case.get('edit'):
            return self._run_history(case, G)
        ids = {x: i for i, x in enumerate(G.nodes)}
        if case['kind'] == 'layout':
            return self._run_layout(case, G, ids)
        if case['kind'] == 'fix':
            return self._run_fix(case, G, ids)
        if case['kind'] == 'refined':
            return self._run_refined(case, G, ids)
        if case['kind'] == 'circ':
            return self._run_circ(case, G, ids)
        return self._run_rot(case, G, ids)

    def _run_refined(self, case, G, ids):
        """vespr_refined_layout with few L-BFGS iterations (documented lbfgs_options / target_energy): the optimiser is
        third party, what is judged is which node receives which row"""
        import cgsmiles.graph_layout as gl
        import cgsmiles.linalg_functions as lf
        if any('order' not in d for _, _, d in G.edges(data=True)):
            return {'skip': 'no-bond-orders'}         # the angle assignment reads edge orders: molecule graphs only
        rec = {'vkeys': None, 'rows': None, 'opt_exc': None, 'r2a': [], 'rot': []}
        real = (gl.vespr_layout, gl._force_minimize, gl.rotate_to_axis, lf.rotate)
        align = case.get('align')

        def vl(*a, **k):
            try:
                r = real[0](*a, **k)
            except Exception as e:
                rec['opt_exc'] = type(e).__name__
                raise
            rec['vkeys'] = [ids.get(x, -1) for x in r]
            return r

        def fm(*a, **k):
            try:
                r = real[1](*a, **k)
            except Exception as e:
                rec['opt_exc'] = type(e).__name__
                raise
            rec['rows'] = np.array(r[0], dtype=float).tolist()
            return r

        def r2a(positions, align_with):
            r = real[2](positions, align_with)
            rec['r2a'].append((np.array(positions, dtype=float).tolist(), np.array(r, dtype=float).tolist()))
            return r

        def rot(positions, angle, *a, **k):
            if rec['rows'] is not None:
                rec['rot'].append((float(np.cos(angle)), float(np.sin(angle)), len(a) + len(k)))
            return real[3](positions, angle, *a, **k)
        gl.vespr_layout, gl._force_minimize, gl.rotate_to_axis, lf.rotate = vl, fm, r2a, rot
        out = {'nodes': [ids[x] for x in G.nodes], 'edges': [[ids[u], ids[v]] for u, v in G.edges], 'exc': 0, 'vkeys': [],
               'rows': None, 'al': None, 'ain': [], 'mid': [], 'post': [],
               'nez': sum(len(v) for v in nx.get_node_attributes(G, 'ez_isomer').values()), 'numpy': np.__version__}
        state = np.random.get_state()
        try:
            np.random.seed(int(case['npseed']))
            kw = {} if align is None else {'align_with': np.array(align, dtype=float)}
            pos = gl.vespr_refined_layout(G, default_bond=case['db'], target_energy=1e300,
                                          lbfgs_options={'maxiter': int(case.get('maxiter', 5))}, **kw)
        except Exception as e:
            out['exc'], out['exc_name'] = (4 if rec['opt_exc'] else 2), type(e).__name__
            return out
        finally:
            gl.vespr_layout, gl._force_minimize, gl.rotate_to_axis, lf.rotate = real
            np.random.set_state(state)
        ok = isinstance(pos, dict) and all(k in ids for k in pos) and rec['rows'] is not None and \
            all(isinstance(v, np.ndarray) and v.shape == (2,) for v in pos.values())
        if not ok:
            out['exc'] = 3
            return out
        out['vkeys'], out['rows'] = rec['vkeys'], rec['rows']
        nan = float('nan')
        if align is None and not rec['r2a']:
            pass
        elif align is not None and len(rec['r2a']) == 1 and len(rec['rot']) == 1 and rec['rot'][0][2] == 0:
            out['al'] = [rec['rot'][0][0], rec['rot'][0][1]]
            out['ain'], out['mid'] = rec['r2a'][0]
        else:
            out['al'] = [nan, nan]
        out['post'] = [[ids[k], [float(v[0]), float(v[1])]] for k, v in pos.items()]
        return out

    def _run_circ(self, case, G, ids):
        """circular_layout(graph, radius, align_with) on ring graphs (its domain: the graph is one cycle)"""
        import cgsmiles.graph_layout as gl
        import cgsmiles.linalg_functions as lf
        rec = {'coords': [], 'cyc': [], 'rot': []}
        real_gc, real_nx, real_rot = gl._generate_circle_coordinates, gl.nx, lf.rotate
        align = case.get('align')

        def gc(*a, **k):
            r = real_gc(*a, **k)
            rec['coords'] = np.array(r, dtype=float).tolist()
            return r

        def fc(*a, **k):
            r = list(real_nx.find_cycle(*a, **k))
            rec['cyc'] = [[ids[e[0]], ids[e[1]]] for e in r]
            return r

        def rot(positions, angle, *a, **k):
            rec['rot'].append((float(np.cos(angle)), float(np.sin(angle))))
            return real_rot(positions, angle, *a, **k)
        gl._generate_circle_coordinates, gl.nx, lf.rotate = gc, Delegate(real_nx, find_cycle=fc), rot
        nan = float('nan')
        out = {'nodes': [ids[x] for x in G.nodes], 'edges': [[ids[u], ids[v]] for u, v in G.edges], 'exc': 0,
               'al': None if align is None else [nan, nan], 'coords': [], 'cyc': [], 'post': []}
        try:
            kw = {} if align is None else {'align_with': np.array(align, dtype=float)}
            pos = gl.circular_layout(G, case['db'], **kw)
        except UnboundLocalError:
            out['exc'], out['exc_name'] = 1, 'UnboundLocalError'
            pos = None
        except Exception as e:
            out['exc'], out['exc_name'] = 2, type(e).__name__
            pos = None
        finally:
            gl._generate_circle_coordinates, gl.nx, lf.rotate = real_gc, real_nx, real_rot
        out['coords'], out['cyc'] = rec['coords'], rec['cyc']
        if align is not None and len(rec['rot']) == 1:
            out['al'] = list(rec['rot'][0])
        if pos is not None:
            if not (isinstance(pos, dict) and all(k in ids for k in pos) and
                    all(isinstance(v, np.ndarray) and v.shape == (2,) for v in pos.values())):
                out['exc'] = 3
            else:
                out['post'] = [[ids[k], [float(v[0]), float(v[1])]] for k, v in pos.items()]
        return out

    def _run_fix(self, case, G, ids):
        import cgsmiles.graph_layout_utils as gu
        rng = random.Random(case['gseed'] ^ 0x2545f491)
        # made-up stereo items on 3-bond paths
        for _ in range(int(case.get('fake', 0))):
            paths = []
            for b, c in G.edges:
                for a in G[b]:
                    for d in G[c]:
                        if len({a, b, c, d}) == 4:
                            paths.append((a, b, c, d))
            if not paths:
                break
            n1, n2, n3, n4 = rng.choice(sorted(paths, key=lambda t: [ids[x] for x in t]))
            ty = rng.choice(['cis', 'trans'])
            G.nodes[n1].setdefault('ez_isomer', []).append((n1, n2, n3, n4, ty))
            if rng.random() < 0.5:
                G.nodes[n4].setdefault('ez_isomer', []).append((n4, n3, n2, n1, ty))
        items = [it for lst in nx.get_node_attributes(G, 'ez_isomer').values() for it in lst]
        if not items:
            return {'skip': 'no-ez-item'}
        try:
            enc = [[ids[a], ids[b], ids[c], ids[d], {'trans': 0, 'cis': 1}.get(t, 2), bool(a < d)] for a, b, c, d, t in items]
        except TypeError:
            return {'skip': 'labels-not-comparable'}
        # the anchor-target pair of every item must be a bond (what pysmiles/cgsmiles annotate); otherwise outside domain
        if any(not G.has_edge(b, a) for a, b, c, d, t in items):
            return {'skip': 'item-off-edge'}
        points = {x: np.array([rng.uniform(-5, 5), rng.uniform(-5, 5)]) for x in G.nodes}
        pre = [[ids[k], [float(v[0]), float(v[1])]] for k, v in points.items()]
        rec = {'comps': [], 'closes': [], 'calls': []}
        real_nx, real_np, real_rot = gu.nx, gu.np, gu.rotate_subgraph

        def cc(graph):
            cur = []
            rec['comps'].append(cur)
            for c in real_nx.connected_components(graph):
                cur.append([ids[x] for x in c])
                yield c

        def isclose(*a, **k):
            r = real_np.isclose(*a, **k)
            rec['closes'].append(bool(r))
            return r

        def rot(graph, anchor, reference, target, points, angle=120):
            rec['calls'].append([ids[anchor], ids[target], int(angle)])
            return real_rot(graph, anchor, reference, target, points, angle)
        gu.nx = Delegate(real_nx, connected_components=cc)
        gu.np = Delegate(real_np, isclose=isclose)
        gu.rotate_subgraph = rot
        out = {'edges': [[ids[u], ids[v]] for u, v in G.edges], 'items': enc, 'exc': 0, 'pre': pre, 'post': [],
               'comps': [], 'closes': [], 'calls': []}
        try:
            res = gu.check_and_fix_cis_trans(G, points)
        except nx.NetworkXError:
            out['exc'] = 1
        except Exception as e:
            out['exc'], out['exc_name'] = 2, type(e).__name__
        finally:
            gu.nx, gu.np, gu.rotate_subgraph = real_nx, real_np, real_rot
        out['comps'], out['closes'], out['calls'] = rec['comps'], rec['closes'], rec['calls']
        if out['exc'] == 0:
            if not isinstance(res, dict) or set(res) != set(ids):
                out['exc'] = 2
            else:
                out['post'] = [[ids[k], [float(v[0]), float(v[1])]] for k, v in res.items()]
        return out

    def _run_history(self, case, G):
        """layout(G); edit G in place; layout(G) again on the SAME object: the second result is judged.
        The same graph content as a FRESH object is laid out too (reported in the replay for comparison)."""
        import cgsmiles.graph_layout as gl
        state = np.random.get_state()
        try:
            np.random.seed(int(case['npseed']))
            gl.vespr_layout(G, default_bond=case['db'])
        except Exception as e:
            ids = {x: i for i, x in enumerate(G.nodes)}
            return {'nodes': list(ids.values()), 'edges': [[ids[u], ids[v]] for u, v in G.edges], 'db': float(case['db']),
                    'exc': 2, 'exc_name': 'first layout:' + type(e).__name__, 'pre': [], 'al': None, 'mid': [], 'lens': [],
                    'post': [], 'zero': False}
        finally:
            np.random.set_state(state)
        try:
            done = edit_graph(G, case['edit'])
        except Exception as exc:
            return {'skip': 'edit:' + type(exc).__name__}
        if done is None:
            return {'skip': 'edit-not-applicable'}
        if G.number_of_edges() == 0 or not nx.is_connected(G):
            return {'skip': 'outside-domain'}
        ids = {x: i for i, x in enumerate(G.nodes)}
        fresh = copy.deepcopy(G)
        out = self._run_layout(case, G, ids)
        out['history'] = ['vespr_layout(G)', done, 'vespr_layout(G)  <- judged']
        fr = self._run_layout(case, fresh, ids)
        out['fresh_object_clause'] = self.python_oracle({'kind': 'layout'}, fr)
        return out

    def _run_layout(self, case, G, ids):
        import cgsmiles.graph_layout as gl
        import cgsmiles.linalg_functions as lf
        rec = {'after': False, 'lens': [], 'r2a': [], 'rot': []}
        real_np, real_fix, real_r2a, real_rot = gl.np, gl.check_and_fix_cis_trans, gl.rotate_to_axis, lf.rotate
        align = case.get('align')

        def norm(x, *a, **k):
            r = real_np.linalg.norm(x, *a, **k)
            if rec['after']:
                rec['lens'].append(float(r))
            return r

        def fix(graph, pos):
            r = real_fix(graph, pos)
            rec['pre'] = [[k, [float(v[0]), float(v[1])]] for k, v in r.items()]
            rec['after'] = True
            return r

        def r2a(positions, align_with):
            r = real_r2a(positions, align_with)
            rec['r2a'].append((np.array(positions, dtype=float).tolist(), np.array(r, dtype=float).tolist()))
            return r

        def rot(positions, angle, *a, **k):
            if rec['after']:
                rec['rot'].append((float(np.cos(angle)), float(np.sin(angle)), len(a) + len(k)))
            return real_rot(positions, angle, *a, **k)
        gl.np = Delegate(real_np, linalg=Delegate(real_np.linalg, norm=norm))
        gl.check_and_fix_cis_trans = fix
        gl.rotate_to_axis = r2a
        lf.rotate = rot
        out = {'nodes': [ids[x] for x in G.nodes], 'edges': [[ids[u], ids[v]] for u, v in G.edges], 'db': float(case['db']),
               'exc': 0, 'pre': [], 'al': None, 'ain': [], 'mid': [], 'lens': [], 'post': [],
               'zero': any(d.get('order', 1) == 0 for _, _, d in G.edges(data=True))}
        state = np.random.get_state()
        try:
            np.random.seed(int(case['npseed']))
            if align is None:
                pos = gl.vespr_layout(G, default_bond=case['db'])
            else:
                pos = gl.vespr_layout(G, default_bond=case['db'], align_with=np.array(align, dtype=float))
        except Exception as e:
            out['exc'], out['exc_name'] = 2, type(e).__name__
            return out
        finally:
            gl.np, gl.check_and_fix_cis_trans, gl.rotate_to_axis, lf.rotate = real_np, real_fix, real_r2a, real_rot
            np.random.set_state(state)
        ok = isinstance(pos, dict) and all(k in ids for k in pos) and \
            all(isinstance(v, np.ndarray) and v.shape == (2,) for v in pos.values())
        if not ok:
            out['exc'] = 3
            return out
        out['pre'] = [[ids[k], p] for k, p in rec.get('pre', [])]
        out['lens'] = rec['lens']
        nan = float('nan')
        keys = [k for k, _ in out['pre']]
        if align is None and not rec['r2a'] and not rec['rot']:
            pass
        elif align is not None and len(rec['r2a']) == 1 and len(rec['rot']) == 1 and rec['rot'][0][2] == 0 \
                and len(rec['r2a'][0][0]) == len(keys) and len(rec['r2a'][0][1]) == len(keys):
            # one rotate_to_axis call -> one rotate(positions, angle) call about the default origin; row idx belongs to
            # the idx-th key of the dict (Coq compares the rows that went in with the current dict of the model)
            out['al'] = [rec['rot'][0][0], rec['rot'][0][1]]
            out['ain'] = [[k, [float(r[0]), float(r[1])]] for k, r in zip(keys, rec['r2a'][0][0])]
            out['mid'] = [[k, [float(r[0]), float(r[1])]] for k, r in zip(keys, rec['r2a'][0][1])]
        else:
            # the alignment did not happen the way the model says (no call / several calls / other argument)
            out['al'] = [nan, nan]
        out['post'] = [[ids[k], [float(v[0]), float(v[1])]] for k, v in pos.items()]
        return out

    def _run_rot(self, case, G, ids):
        import cgsmiles.graph_layout_utils as gu
        rng = random.Random(case['gseed'] ^ 0x5bd1e995)
        # anchor with at least two neighbours: target and reference are two of them
        cands = [x for x in G.nodes if G.degree(x) >= 2]
        if not cands:
            return {'skip': 'no-anchor'}
        anchor = cands[case['pick'] % len(cands)]
        nb = list(G[anchor])
        target = nb[case['pick'] % len(nb)]
        reference = [x for x in nb if x != target][(case['pick'] // 7) % (len(nb) - 1)]
        # distinct random points (bonded nodes never coincide)
        points = {x: np.array([rng.uniform(-5, 5), rng.uniform(-5, 5)]) for x in G.nodes}
        pre = [[ids[k], [float(v[0]), float(v[1])]] for k, v in points.items()]
        rec = {'comps': []}
        real_nx = gu.nx

        def cc(graph):
            for c in real_nx.connected_components(graph):
                rec['comps'].append([ids[x] for x in c])
                yield c
        gu.nx = Delegate(real_nx, connected_components=cc)
        out = {'edges': [[ids[u], ids[v]] for u, v in G.edges], 'anchor': ids[anchor], 'target': ids[target],
               'exc': 0, 'pre': pre, 'post': [], 'comps': []}
        try:
            res = gu.rotate_subgraph(G, anchor, reference, target, points, angle=case['angle'])
        except nx.NetworkXError:
            out['exc'] = 1
            return out
        except Exception as e:
            out['exc'], out['exc_name'] = 2, type(e).__name__
            return out
        finally:
            gu.nx = real_nx
        out['comps'] = rec['comps']
        out['post'] = [[ids[k], [float(v[0]), float(v[1])]] for k, v in res.items()]
        return out

    # ------------------------------------------------------------------ second oracle (model not buildable)
    def python_oracle(self, case, impl):
        """mirror of Geom/LayoutCheck.prop_fail, used only when the Coq side cannot be built"""
        import math
        if 'skip' in impl:
            return 0
        if case['kind'] == 'layout':
            if impl['exc'] == 3:
                return 2
            if impl['exc']:
                return 1
            post = dict((k, p) for k, p in impl['post'])
            if len(impl['post']) != len(impl['nodes']) or any(n not in post for n in impl['nodes']):
                return 2
            if any(not math.isfinite(x) for p in post.values() for x in p):
                return 3
            if any(post[u] == post[v] for u, v in impl['edges']):
                return 4
            m = sum(math.dist(post[u], post[v]) for u, v in impl['edges']) / len(impl['edges'])
            return 0 if abs(m - impl['db']) <= 1e-9 * abs(impl['db']) else 5
        if case['kind'] in ('refined', 'circ'):
            if impl['exc'] == 4:
                return 0          # raised inside vespr_layout / the optimisation: not judged (see LayoutCheck.prop_fail)
            if impl['exc'] == 3:
                return 2
            if case['kind'] == 'circ' and impl['exc'] == 1 and impl.get('al') is not None:
                return 0          # the UnboundLocalError the model predicts: correspondence item, not a clause
            if impl['exc']:
                return 1 if case['kind'] == 'refined' else 10
            post = dict((k, p) for k, p in impl['post'])
            if len(impl['post']) != len(impl['nodes']) or any(n not in post for n in impl['nodes']):
                return 2
            if any(not math.isfinite(x) for p in post.values() for x in p):
                return 3
            if any(post[u] == post[v] for u, v in impl['edges']):
                return 4
            if case['kind'] == 'refined':
                final = impl['mid'] if impl['al'] is not None else impl['rows']
                if len(final) != len(impl['vkeys']) or any(post.get(k) != list(r) for k, r in zip(impl['vkeys'], final)):
                    return 9
            return 0
        if impl['exc']:
            return 6
        pre, post = (dict((k, p) for k, p in impl[x]) for x in ('pre', 'post'))
        if any(not math.isfinite(x) for p in post.values() for x in p):
            return 7
        for u, v in impl['edges']:
            a, b = math.dist(pre[u], pre[v]), math.dist(post[u], post[v])
            if not abs(a - b) <= 1e-9 * (1 + a):
                return 8
        return 0

    # ------------------------------------------------------------------ bookkeeping
    def nontrivial(self, case, impl):
        return 'skip' not in impl

    def case_class(self, case, impl):
        if 'skip' in impl:
            return 'skipped:' + impl['skip']
        z = ':zero-order-edge' if impl.get('zero') else ''
        h = ':history-' + case['edit']['op'] if case.get('edit') else ''
        a = ':align' if case.get('align') is not None else ''
        return '%s:%s:%s:%s%s%s%s' % (case['kind'], case['shape'], case['relabel'], case.get('orders', 'asis'), z, h, a)

    def coq_case(self, case, impl):
        if 'skip' in impl:
            return 'CSkip'
        zl = lambda xs: lit.lst([lit.z(x) for x in xs])
        ed = lit.lst([lit.pair(lit.z(u), lit.z(v)) for u, v in impl['edges']])
        pl = lambda t: lit.lst([lit.pair(lit.z(k), v2(p)) for k, p in t])
        if case['kind'] == 'layout':
            al = 'None' if impl.get('al') is None else '(Some (%s, %s))' % (fhex(impl['al'][0]), fhex(impl['al'][1]))
            return '(CLayout %s %s %s %s %s %s %s %s %s %s)' % (zl(impl['nodes']), ed, fhex(impl['db']), lit.nat(impl['exc']),
                                                            pl(impl['pre']), al, pl(impl.get('ain', [])), pl(impl.get('mid', [])),
                                                            lit.lst([fhex(x) for x in impl['lens']]), pl(impl['post']))
        rl = lambda t: lit.lst([v2(p) for p in t])
        alit = lambda a: 'None' if a is None else '(Some (%s, %s))' % (fhex(a[0]), fhex(a[1]))
        if case['kind'] == 'refined':
            opt = '(Err EValue)' if impl['rows'] is None else '(Ok %s)' % rl(impl['rows'])
            return '(CRefined %s %s %s %s %s %s %s %s %s)' % (zl(impl['nodes']), ed, lit.nat(impl['exc']), zl(impl['vkeys']), opt,
                                                             alit(impl['al']), rl(impl['ain']), rl(impl['mid']), pl(impl['post']))
        if case['kind'] == 'circ':
            return '(CCirc %s %s %s %s %s %s %s)' % (zl(impl['nodes']), ed, alit(impl['al']), lit.nat(impl['exc']),
                                                    rl(impl['coords']),
                                                    lit.lst([lit.pair(lit.z(u), lit.z(v)) for u, v in impl['cyc']]),
                                                    pl(impl['post']))
        if case['kind'] == 'fix':
            ty = {0: 'EzTrans', 1: 'EzCis', 2: 'EzOther'}
            its = lit.lst(['{| ez1 := %s; ez2 := %s; ez3 := %s; ez4 := %s; ezty := %s; lt14 := %s |}'
                           % (lit.z(a), lit.z(b), lit.z(c), lit.z(d), ty[t], lit.b(l)) for a, b, c, d, t, l in impl['items']])
            return '(CFix %s %s %s %s %s %s %s %s)' % (
                ed, its, lit.lst([lit.b(x) for x in impl['closes']]),
                lit.lst([lit.lst([zl(c) for c in comps]) for comps in impl['comps']]), lit.nat(impl['exc']),
                lit.lst(['(%s, %s, %s)' % (lit.z(a), lit.z(t), lit.z(g)) for a, t, g in impl['calls']]),
                pl(impl['pre']), pl(impl['post']))
        return '(CRot %s %s %s %s %s %s %s)' % (ed, lit.z(impl['anchor']), lit.z(impl['target']),
                                               lit.lst([zl(c) for c in impl['comps']]), lit.nat(impl['exc']),
                                               pl(impl['pre']), pl(impl['post']))


def run(prop, ctx):
    _c18.drop_stale_gen()
    return common.run_prop(prop, ctx)


PROP = C19()
