"""C13 — bonding descriptors are separated from fragment text exactly.
Tie: strip_bonding_descriptors / PeekIter / collect_ring_number / the splitting of fragment_iter are
hand-modelled (theories/Frag/StripImpl.v, over the constant tables regenerated from read_fragments.py
into Gen/FragGen.v) and compared with the implementation on every run; the specification
(theories/Frag/FragText.v: token grammar, render, decorate, strip_spec, wf, defect classes) is
evaluated inside Coq on the implementation's output (search for a failing input).  The generator
below is token level and knows the expected answer (python mirror `strip_spec`, used only as the
fallback oracle when the Coq side cannot be built)."""
import ast
import hashlib
import os
import re

import common
import lit

# The helper functions PeekIter / collect_ring_number / fragment_iter are internal: their own return
# values (the `rings` dict, the split of the text handed to strip_bonding_descriptors) are not
# observable through the API.  The literal helper models are therefore compared with the code only
# while the code IS the text that was modelled (normalised-AST digest, docstrings dropped); after an
# edit of a helper the comparison at the level of strip_bonding_descriptors (always on) is the tie,
# so a harmless rewrite of a helper is not reported.
HELPER_DIGESTS = {'PeekIter': '2a719d61d093c600', 'collect_ring_number': '8aa57600181bbe94',
                  'fragment_iter': '54c386d28f82b2cc'}


def helper_digests():
    out = {}
    try:
        tree = ast.parse(open(os.path.join(common.REPO, 'cgsmiles', 'read_fragments.py')).read())
    except (OSError, SyntaxError):
        return out
    for n in tree.body:
        if isinstance(n, (ast.FunctionDef, ast.ClassDef)) and n.name in HELPER_DIGESTS:
            node = ast.parse(ast.unparse(n))
            for d in ast.walk(node):
                if (isinstance(d, (ast.FunctionDef, ast.ClassDef)) and d.body and isinstance(d.body[0], ast.Expr)
                        and isinstance(getattr(d.body[0], 'value', None), ast.Constant)
                        and isinstance(d.body[0].value.value, str)):
                    d.body = d.body[1:] or [ast.Pass()]
            out[n.name] = hashlib.sha1(ast.dump(node).encode()).hexdigest()[:16]
    return out

ORG = ['B', 'C', 'N', 'O', 'P', 'S', 'F', 'Cl', 'Br', 'I']
AROM = ['b', 'c', 'n', 'o', 'p', 's']
BRACKET_BODIES = ['*', 'CH2', 'NH3+', 'O-', 'Si', 'Na+', '13CH4', 'C@@H', 'Fe+2', 'nH', 'Cl-', 'H', 'OH-', 'Mg+2',
                  'CH3', 'Br-', 'C@H', 'N+', 'SiH2', 'se', 'Na', 'C', 'H+', '2H', 'NH+', 'S@@', 'CH-', 'Si@', 'Mg']
NAMES = ['A', 'B', 'PEO', 'TC4', 'OT1', 'SC3', 'a1', 'X_1', 'PS', 'N3', 'Cl', 'Br', 'Na', 'H']
FLOATS = ['0.5', '2', '1e-1', '.5', '-1.0', '3.25', '1', '0', '12.011', '1E2', '+2.5']
FREE = [('mass', '12'), ('foo', 'bar'), ('r', 'abc'), ('p', 's'), ('e', '-1'), ('q', '1'), ('name', 'C1')]
SYM_ORDER = {'-': 1, '=': 2, '#': 3, '$': 4, ':': 1.5, '.': 0}      # the documented table (spec side)
BSYM = {'-': 'BSingle', '=': 'BDouble', '#': 'BTriple', '$': 'BQuad', ':': 'BArom', '.': 'BZero'}
CLASSES = {3: 'coarse_multiplier'}     # 1 desc_after_symbol_ring, 2 zero_order_symbol: repaired in /repo (f3554b8, 0d0f450)
CLAUSES = {1: 'the clean text is not the original text without descriptors and annotations',
           2: 'a descriptor is reported on the wrong atom, with the wrong order, or lost',
           3: 'the slash marks are not on the atom before and the atom after the slash',
           4: 'an annotation is not reported on its atom',
           9: 'the implementation raised an exception on a well-formed fragment text'}


# ------------------------------------------------------------------ token level generator
def rand_annotation(rng, coarse=False):
    """a valid annotation in the fragment dialect (w float, x text, free keys)"""
    ents = []
    r = rng.random()
    if r < 0.3:
        ents.append(rng.choice(FLOATS))                                   # positional w
        if rng.random() < 0.3:
            ents.append(rng.choice(['R', 'S']))                           # positional x
    elif r < 0.5:
        ents.append('w=' + rng.choice(FLOATS))
    kw = []
    if len(ents) < 2 and rng.random() < 0.35:
        kw.append('x=' + rng.choice(['R', 'S']))
    for k, v in rng.sample(FREE, rng.choice([0, 0, 1, 1, 2])):
        kw.append(k + '=' + v)
    rng.shuffle(kw)
    if ents and '=' in ents[0]:
        kw.append(ents.pop())
        rng.shuffle(kw)
    return ';'.join(ents + kw)


class Builder:
    def __init__(self, rng, coarse):
        self.rng = rng
        self.coarse = coarse
        self.toks = []
        self.natoms = 0
        self.open = {}          # marker -> (token index of the opening, atom index)
        self.budget = rng.choice([1, 2, 3, 4, 5, 6, 8, 10, 14])

    def atom(self):
        rng = self.rng
        if self.coarse:
            ann = rand_annotation(rng, True) if rng.random() < 0.3 else None
            self.toks.append(['K', '#' + rng.choice(NAMES), ann if ann != '' else None])
        else:
            r = rng.random()
            if r < 0.56:
                self.toks.append(['A', rng.choice(ORG)])
            elif r < 0.6:
                self.toks.append(['A', '*'])                 # the SMILES wildcard atom, written without brackets
            elif r < 0.7:
                self.toks.append(['A', rng.choice(AROM)])
            else:
                ann = rand_annotation(rng) if rng.random() < 0.5 else None
                self.toks.append(['K', rng.choice(BRACKET_BODIES), ann if ann != '' else None])
        self.natoms += 1
        self.budget -= 1

    def marker(self):
        rng = self.rng
        for _ in range(20):
            m = str(rng.randint(0, 9)) if rng.random() < 0.7 else '%%%02d' % rng.randint(10, 99)
            if m not in self.open:
                return m
        return None

    def rings(self):
        rng = self.rng
        while rng.random() < 0.22:
            here = self.natoms - 1
            closable = [m for m, (_, a) in self.open.items() if here - a >= 2]
            if closable and rng.random() < 0.6:
                m = rng.choice(closable)
                del self.open[m]
                self.toks.append(['R', None, m])
            else:
                m = self.marker()
                if m is None:
                    return
                syms = '-=#$' if self.coarse else '-=#:'
                sym = rng.choice(syms) if rng.random() < 0.3 else None
                self.open[m] = (len(self.toks), here)
                self.toks.append(['R', sym, m])

    def link(self):
        """optional bond symbol / slash before an atom"""
        rng = self.rng
        r = rng.random()
        if r < 0.3:
            self.toks.append(['B', rng.choice('.-=#$' if self.coarse else '-=#:-=#.')])
        elif r < 0.38 and not self.coarse:
            self.toks.append(['/', rng.random() < 0.5])

    def aromatic_ring(self):
        rng = self.rng
        m = self.marker()
        n = rng.choice([5, 6])
        self.toks.append(['A', 'c'])
        self.natoms += 1
        if m is not None:
            self.toks.append(['R', None, m])
        for i in range(n - 1):
            if rng.random() < 0.1:
                self.toks.append(['B', ':'])
            self.toks.append(['A', rng.choice(['c', 'c', 'c', 'n', 'o', 's'])])
            self.natoms += 1
            if i < n - 2 and rng.random() < 0.15 and self.budget > 0:
                self.toks.append(['('])
                self.chain(2, first=False, inner=True)
                self.toks.append([')'])
        if m is not None:
            self.toks.append(['R', None, m])
        self.budget -= n

    def chain(self, depth, first, inner=False):
        rng = self.rng
        n = rng.randint(1, 4)
        for i in range(n):
            if not (first and i == 0):
                self.link()
            if not self.coarse and rng.random() < 0.08 and not inner:
                self.aromatic_ring()
            else:
                self.atom()
                if self.coarse and rng.random() < 0.06:
                    self.toks.append(['M', rng.choice([1, 2, 3, 4, 10])])
                else:
                    self.rings()
            nb = 0
            while depth < 3 and self.budget > 0 and rng.random() < 0.22 and nb < 2:
                nb += 1
                if self.coarse and rng.random() < 0.35:
                    # the documented place of the order of a branch edge in a coarse fragment: [#A]=([#B])
                    self.toks.append(['B', rng.choice('.-=#$:')])
                self.toks.append(['('])
                self.chain(depth + 1, first=False)
                self.toks.append([')'])
            if self.budget <= 0:
                break

    def build(self):
        self.chain(0, first=True)
        dead = {i for (i, _) in self.open.values()}
        return [t for i, t in enumerate(self.toks) if i not in dead]


def rand_desc(rng):
    kind = rng.choice('$$$><!')
    label = rng.choice(['', '', '', 'A', '1', 'a1', 'AB', '1A', 'b', '22'])
    r = rng.random()
    # any of the six bond symbols may be the order of a descriptor (':' = 1.5, '$' = 4, '.' = 0)
    sym = None if r < 0.55 else rng.choice('-==##') if r < 0.8 else rng.choice('.::$')
    return [kind, label, sym]


def rand_decor(rng, toks):
    after = [[] for _ in toks]
    slots = [i for i, t in enumerate(toks) if t[0] in 'AKR)M']
    for i in rng.sample(slots, min(len(slots), rng.choice([0, 1, 1, 2, 2, 3, 4]))):
        after[i] = [rand_desc(rng) for _ in range(rng.choice([1, 1, 1, 2, 3]))]
    lead = [rand_desc(rng) for _ in range(rng.choice([0, 0, 0, 1, 1, 2, 3]))]
    return {'lead': lead, 'after': after}


def render_tok(t):
    k = t[0]
    if k == 'A':
        return t[1]
    if k == 'K':
        return '[' + t[1] + (';' + t[2] if t[2] is not None else '') + ']'
    if k == 'B':
        return t[1]
    if k in '()':
        return k
    if k == 'R':
        return (t[1] or '') + t[2]
    if k == '/':
        return '/' if t[1] else '\\'
    if k == 'M':
        return '|%d' % t[1]
    raise ValueError(t)


def render(toks, decor):
    out = ''.join('[' + k + l + ']' + (s or '') for k, l, s in decor['lead'])
    for i, t in enumerate(toks):
        out += render_tok(t)
        for k, l, s in (decor['after'][i] if i < len(decor['after']) else []):
            out += (s or '') + '[' + k + l + ']'
    return out


def strip_spec(toks, decor, parse):
    """python mirror of FragText.strip_spec (fallback oracle only)"""
    n, owner, stack = 0, 0, []
    clean, desc, ez, ann = '', {}, {}, {}

    def add(ds):
        for k, l, s in ds:
            desc.setdefault(owner, []).append(k + l + str(SYM_ORDER[s] if s else 1))
    add(decor['lead'])
    for i, t in enumerate(toks):
        k = t[0]
        if k == 'A':
            clean += t[1]; owner = n; n += 1
        elif k == 'K':
            clean += '[' + t[1] + ']'
            ann.setdefault(n, {}).update(parse(t[2] or ''))
            owner = n; n += 1
        elif k == '(':
            stack.append(owner); clean += '('
        elif k == ')':
            owner = stack.pop() if stack else owner; clean += ')'
        elif k == '/':
            c = '/' if t[1] else '\\'
            ez[n] = c; ez[owner] = c
        elif k == 'M':
            clean += render_tok(t); n += t[1] - 1; owner += t[1] - 1
        else:
            clean += render_tok(t)
        add(decor['after'][i] if i < len(decor['after']) else [])
    return clean, desc, ez, ann


# ------------------------------------------------------------------ texts for the pysmiles model
SM_ELEMENTS = ['C', 'N', 'O', 'H', 'Cl', 'Br', 'Si', 'Na', 'Fe', 'Mg', 'c', 'n', 'o', 's', 'p', 'b', 'se', 'as', '*', 'Se',
               'Uuo', 'S', 'P', 'B', 'F', 'I', 'Xx', 'cl', 'K', 'Zn']
SM_STEREO = ['', '', '', '@', '@@', '@TH1', '@TH2', '@AL1', '@SP3', '@OH12', '@TB7', '@TH3', '@OH', '@@@']
SM_HCOUNT = ['', '', 'H', 'H2', 'H3', 'H0', 'H12', 'h']
SM_CHARGE = ['', '', '+', '-', '++', '--', '+2', '-1', '+12', '-123', '+-', '-+', '+++', '+0']
SM_CLASS = ['', '', '', ':1', ':12', ':', ':a']


def rand_bracket_text(rng):
    """a bracket atom in the grammar of ATOM_PATTERN (with some strings just outside it)"""
    iso = rng.choice(['', '', '', '13', '2', '007'])
    return '[' + iso + rng.choice(SM_ELEMENTS) + rng.choice(SM_STEREO) + rng.choice(SM_HCOUNT) + \
        rng.choice(SM_CHARGE) + rng.choice(SM_CLASS) + ']'


def smiles_tok(t, keep_slash=True):
    """the text pysmiles sees: no annotations (and no slash marks in the clean text of strip)"""
    if t[0] == 'K':
        return '[' + t[1] + ']'
    if t[0] == '/':
        return render_tok(t) if keep_slash else ''
    return render_tok(t)


SM_ALPHABET = '[]()=#.-:$%0123456789CNOHclBrSi/\\+@ *bnos'


MUT_ALPHABET = '[]()$><!;=#.-:%0123456789CNOHclBrSi/\\|+@ aAw,x{}'


def mutate(rng, text):
    for _ in range(rng.choice([1, 1, 2, 3])):
        r = rng.random()
        p = rng.randint(0, len(text))
        if r < 0.4 and text:
            p = min(p, len(text) - 1)
            text = text[:p] + text[p + 1:]
        elif r < 0.8:
            text = text[:p] + rng.choice(MUT_ALPHABET) + text[p:]
        elif text:
            p = min(p, len(text) - 1)
            text = text[:p] + rng.choice(MUT_ALPHABET) + text[p + 1:]
    return text


def float_table(text):
    """every text float() can be asked about while the annotations of `text` are parsed"""
    tab = []
    for piece in dict.fromkeys(re.split(r'[;=\]]', text)):
        try:
            lit.s(piece)
        except ValueError:
            continue
        try:
            tab.append([piece, lit.float_repr(float(piece))])
        except (TypeError, ValueError):
            tab.append([piece, None])
    return tab


def judged(toks, decor):
    return {'kind': 'strip', 'text': render(toks, decor), 'judge': True, 'toks': toks, 'decor': decor}


def A(e): return ['A', e]
def K(b, a=None): return ['K', b, a]
def R(m, s=None): return ['R', s, m]
def D(kind='$', label='', sym=None): return [kind, label, sym]


def plain(toks, after=None, lead=()):
    aft = [[] for _ in toks]
    for i, ds in (after or {}).items():
        aft[i] = ds
    return judged(toks, {'lead': list(lead), 'after': aft})


REPO_TEST_TEXTS = [
    "[$]COC[$]", "[$]C[O;0.5]C[$]", "[$]C[O;0.5]C[$][O;0.1]", "[$]CO[C;0.5][$]([H;0.1])[H;0.2]",
    "[H;0.3]C[$]O[C;0.5][$]", "[$]CC(CC)[$]", "[$]CC1[$]CCC1", "[CH][$a]=[CH][$c]", "CC=[$a]=[$b]CC",
    "CC[$a]=[$b]CC", "[$1A]COC[$1A]", "Clc[$]c[$]", "[$][CH2]O[CH2][$]", "[$]COC[$][$1]", "[$1]CCCC[$2]",
    "[$1]CC[$2]C1CCCCC1", "C(COC[$1])[$2]CCC[$3]", "[>]COC[<]", "[>]C[C;x=R](F)(B)N[<]", "[>]CC(\\F)=[<]",
    "[>]CC(/F)=[<]", "[>]CC(/F)=C(\\F)C[<]", "[$][#TC4][#OT1;0.5][#CD1][$]", "[$][#TC4][#OT1;r=abc][#CD1][$]",
    "[$]C[O;q=4;p=s][C;q=3;p=l]C[$]",
]


class _Reached(Exception):
    """read_smiles reached fill_valence: the graph carries parse_atom's attributes and the bond orders"""


NODE_KEYS = ('element', 'charge', 'aromatic', 'hcount', 'isotope', 'class', 'rs_isomer')


def run_pysmiles(text):
    import importlib
    import logging
    prs = importlib.import_module('pysmiles.read_smiles')
    logging.getLogger('pysmiles').setLevel(logging.CRITICAL)
    out = {}
    try:
        mol, ez, _ = prs.base_smiles_parser(text, strict=False, node_attr='_atom_str', edge_attr='_bond_str')
        out['base'] = {'atoms': [mol.nodes[i]['_atom_str'] for i in range(len(mol))],
                       'edges': [[u, v, d['_bond_str'] or None] for u, v, d in mol.edges(data=True)],
                       'ez': [[k, v] for k, v in ez.items()]}
        if sorted(mol.nodes) != list(range(len(mol))):
            out['base'] = {'exc': 'node keys are not 0..n-1'}
    except Exception as exc:
        out['base'] = {'exc': type(exc).__name__}

    def stop(mol):
        raise _Reached(mol)
    saved = prs.fill_valence
    prs.fill_valence = stop
    try:
        prs.read_smiles(text, explicit_hydrogen=True, reinterpret_aromatic=False, strict=False)
        out['full'] = {'exc': 'fill_valence not reached'}
    except _Reached as r:
        mol = r.args[0]
        nodes = []
        for i in range(len(mol)):
            d = {k: v for k, v in mol.nodes[i].items() if k in NODE_KEYS}
            if 'rs_isomer' in d:
                d['rs_isomer'] = d['rs_isomer'][0]
            nodes.append(d)
        out['full'] = {'nodes': nodes, 'edges': [[u, v, d['order']] for u, v, d in mol.edges(data=True)]}
    except Exception as exc:
        out['full'] = {'exc': type(exc).__name__}
    finally:
        prs.fill_valence = saved
    return out


class C13(common.Prop):
    id = 'C13'
    level = 'proof'
    technique = ('Coq proof (induction over the decorated token list with a state invariant of the character '
                 'machine; bounded exhaustive theorem by vm_compute; refutation witness for the defect class) '
                 'on a model over constant tables regenerated from read_fragments.py + per-run correspondence of '
                 'the hand-written character machine with the implementation')
    vo_deps = ['theories/Frag/StripCheck.vo']
    prop_file = 'theories/Properties/C13.v'
    case_requires = ('From Coq Require Import String.\nFrom Coq Require Import List Ascii ZArith Bool.\n'
                     'From CGV Require Import Base.PyBase Base.PyVal Frag.NDict Frag.StripImpl Frag.FragText Frag.FragTextX Frag.FragTextW Frag.SmilesParse Frag.Template Frag.TemplateFinal Frag.TemplateChiral Frag.StripCheck.')
    quick_cases = 2400
    thorough_cases = 40000
    extended_cases = 12000
    shard = 200
    fail_text = dict([(c + 10 * k, CLAUSES[c] + (' [input in defect class %s]' % CLASSES[k] if k else ''))
                      for c in CLAUSES for k in (0, 3)] +
                     [(97, 'harness: generated tokens are outside the stated domain (wfw)'),
                      (98, 'harness: python and Coq render the tokens differently')])

    # -- cases -----------------------------------------------------------------------------
    def helpers_enabled(self, ctx):
        got = helper_digests()
        ring = all(got.get(k) == HELPER_DIGESTS[k] for k in ('PeekIter', 'collect_ring_number'))
        split = got.get('fragment_iter') == HELPER_DIGESTS['fragment_iter']
        if not getattr(self, '_noted', False):
            self._noted = True
            if not ring:
                ctx.notes.append('PeekIter/collect_ring_number differ from the modelled text: literal helper models not '
                                 'compared this run (covered through strip_bonding_descriptors only)')
            if not split:
                ctx.notes.append('fragment_iter differs from the modelled text: split model not compared this run')
        return ring, split

    def corpus(self, ctx):
        ring_on, split_on = self.helpers_enabled(ctx)
        return [c for c in self._corpus() if c['kind'] in ('strip', 'smiles', 'template') or (c['kind'] == 'ring' and ring_on)
                or (c['kind'] == 'split' and split_on)]

    def _corpus(self):
        C, O = A('C'), A('O')
        out = [
            # witnesses of the two repaired classes (f3554b8, 0d0f450) and of the known defect class
            plain([C, R('1', '='), C, C, R('1')], {1: [D()]}),                       # C=1[$]CC1
            plain([C], {0: [D(sym='.')]}),                                           # C.[$]
            plain([K('#A'), ['B', '='], ['('], K('#B'), [')'], K('#C')], {}),            # [#A]=([#B])[#C]
            plain([K('#A'), ['B', '#'], ['('], K('#B'), [')'], ['B', '.'], ['('], K('#C'), [')'], K('#D')],
                  {4: [D('>', 'a', '=')], 9: [D()]}, lead=[D()]),                    # [$][#A]#([#B])=[>a].([#C])[#D][$]
            plain([A('c')], {0: [D(sym=':')]}),                                      # c:[$]
            plain([C, C, O], {0: [D('>', 'a1', ':')]}),                              # C:[>a1]CO
            plain([A('c'), R('1'), A('c'), A('c'), A('c'), A('c'), A('c'), R('1')], {}, lead=[D(sym=':')]),   # [$]:c1ccccc1
            plain([C, C], {1: [D('!', 'b', ':'), D('<', '', '$')]}, lead=[D('<', 'A', ':'), D('>')]),       # [<A]:[>]CC:[!b]$[<]
            plain([C, ['('], C, C, R('1', '='), [')'], C, C, R('1')], {5: [D()]}),   # C(CC=1)[$]CC1
            plain([K('#PEO'), ['M', 4]], {1: [D('>')]}, lead=[D('<')]),              # [<][#PEO]|4[>]
            # well-behaved relatives
            plain([C, R('1'), C, C, R('1')], {1: [D()]}),                            # C1[$]CC1
            plain([C, R('1', '='), C, C, R('1')], {1: [D(sym='=')]}),                # C=1=[$]CC1
            plain([C], {0: [D()]}, lead=[D(sym='.')]),                               # [$].C[$]
            plain([C, ['('], C, O, C, [')'], C, C, C], {3: [D(label='1')], 4: [D(label='2')], 7: [D(label='3')]}),
            plain([C, C, ['('], ['/', False], A('F'), [')']], {5: [D('<', sym='=')]}, lead=[D('>')]),
            plain([A('Cl'), A('c'), A('c')], {1: [D()], 2: [D()]}),
            # the wildcard atom, bare and in brackets
            plain([C, A('*'), C], {2: [D()]}, lead=[D()]),                            # [$]C*C[$]
            plain([A('*'), C, ['('], A('*'), [')'], A('Cl')], {0: [D(label='a')], 3: [D('>', sym='=')], 5: [D('<', 'x')]}),
            plain([C, K('*'), C, A('*')], {1: [D()], 3: [D('>', '1', '#')]}),             # C[*][$]C*#[>1]
            plain([A('*')], {0: [D('!')]}),                                            # *[!]
            plain([C, A('*'), R('1'), C, C, R('1'), A('*')], {2: [D()], 6: [D('<')]}),
            plain([C, O, K('C', '0.5'), ['('], K('H', '0.1'), [')'], K('H', '0.2')], {2: [D()]}, lead=[D()]),
            plain([K('#TC4'), K('#OT1', 'r=abc'), K('#CD1')], {2: [D()]}, lead=[D()]),
            plain([C, R('%12'), C, C, R('%12')], {1: [D(sym='#'), D('!', 'a1')]}),
        ]
        out += [{'kind': 'strip', 'text': t, 'judge': False} for t in REPO_TEST_TEXTS]
        out += [{'kind': 'strip', 'text': t, 'judge': False} for t in
                ['', '[', 'C[', 'C[$', 'C)', 'C(', '[]', '[;]', '[C;a=b=c]', '[C;1;2;3]', '[C;x]', 'C:[$]', 'C$[$]',
                 '/C', 'H[H]C', 'C1%', 'C%1%2', '[$]', '[$]=', '=[$][$]C', 'C|2[$]', 'Si', 'CSi', 'NaCl', '[C;w=1;w=2]']]
        out += [{'kind': 'ring', 'rest': r, 'token': t, 'nc': 7} for t, r in
                [('1', ''), ('%', '12'), ('1', '2'), ('%', '1%2'), ('%', ''), ('1', '%23a'), ('%', '%1'), ('%', '1a')]]
        out += [{'kind': 'smiles', 'text': t} for t in
                ['C', 'CC', 'C=C', 'c1ccccc1', 'C1CC1', 'C=1CC=1', 'C=1CC#1', 'C1C1', 'CC1', 'C11', 'C(C)(C)C', 'C(C)1CC1',
                 'F/C=C/F', '/C', 'C%12CC%12', 'C%1', 'C%', 'C%1a', 'C% 1CC1', 'C%+1CC1', '[', '[C', 'C)', '(C)', '1C',
                 'C==C', 'C=', '=CC', '[NH3+]', '[13CH4]', '[C@@H](F)(Cl)Br', '[nH]1cccc1', '[se]', '[as]', '[HH]',
                 '[H+]', '[Fe+2]', '[O--]', '[C+-]', '[CH23]', '[C:12]', '[*]', '*', 'C.C', 'C$C', 'c:c', 'cC', 'cc',
                 'Cl', 'ClC', 'CBr', 'Clc', 'C l', 'HC', 'C|2', 'CSi', '[Si]', 'C(=O)O', 'C1CC=1', 'C%05CC5', 'C(C1)C1',
                 'C1CC1C1CC1', 'C12CC1C2', '']]
        out += [{'kind': 'template', 'name': 'PEO', 'text': t} for t in
                ['[$]COC[$]', '[>]CC(/F)=C(\\F)C[<]', '[$]C[O;0.5]C[$][$1]', 'c1ccccc1[$]', 'C=1[$]CC=1', 'C.[$]', '[$]=C[NH3+]',
                 'OC[!][!]', '[H;0.3]C[$]O[C;0.5][$]', '[$]CO[C;0.5][$]([H;0.1])[H;0.2]', 'C[H]', 'Cl[$]', '[H][$]', '[Na+]',
                 'C', '[$]c1ccccc1C(=O)[O-]', 'c1ccncc1[$]', 'O=S(=O)(O)C[$]', 'C#[N+][$]', 'CS(C)(C)C', 'FC(F)(F)[$]',
                 # chirality marks: rs_isomer = the neighbour tuple (TemplateChiral.v)
                 '[C@H](F)(Cl)Br', '[C@@H](F)(Cl)Br', 'F[C@H](Cl)Br[$]', 'F[C@@](Cl)(Br)I', '[$]C[C@H](F)C[$]',
                 '[C@]1(F)(Cl)CC1', 'C1C[C@]1(F)Cl', 'C1C[C@@]12CC2Cl', 'C2C[C@@]12CC1Cl', '[C@]([H])(F)(Cl)Br',
                 'F[C@TH1](Cl)(Br)I', 'F[C@TH2](Cl)(Br)I', 'N[C@](F)(Cl)=O', 'F[C@SP1](Cl)(Br)I', '[C@H2](F)Br', '[C@H]',
                 'C.[C@H](F)(Cl)Br', '[$]C[C@H]([$])F', 'F[C@H;0.5](Cl)Br', 'F[C@@H](Cl)[C@H](Br)O', 'C[C@@H](N)C(=O)O[$]']]
        out += [{'kind': 'split', 'text': t} for t in
                ['{#A=[$]CC[$],#B=[$]OC}', '{#A=CC}', '{}', '{#A}', '{#A=C=C,#B=[C;x=R]}', '', '{', '{#A=C,}']]
        return out

    def gen_judged(self, rng):
        coarse = rng.random() < 0.35
        toks = Builder(rng, coarse).build()
        return judged(toks, rand_decor(rng, toks))

    def gen_smiles(self, rng):
        """texts for the pysmiles model: clean renders of generated fragments (with and without slash
        marks), richer bracket atoms, and mutated texts for the error paths"""
        toks = Builder(rng, False).build()
        keep = rng.random() < 0.5
        parts = []
        for t in toks:
            if t[0] == 'K' and rng.random() < 0.6:
                parts.append(rand_bracket_text(rng))
            else:
                parts.append(smiles_tok(t, keep))
        text = ''.join(parts)
        r = rng.random()
        if r < 0.35:
            for _ in range(rng.choice([1, 1, 2])):
                p = rng.randint(0, len(text))
                q = rng.random()
                if q < 0.4 and text:
                    text = text[:p] + text[p + 1:]
                elif q < 0.8:
                    text = text[:p] + rng.choice(SM_ALPHABET) + text[p:]
                elif text:
                    text = text[:p] + rng.choice(SM_ALPHABET) + text[p + 1:]
        elif r < 0.4:
            text = ''.join(rng.choice(SM_ALPHABET) for _ in range(rng.randint(0, 8)))
        return {'kind': 'smiles', 'text': text}

    def gen_chiral(self, rng):
        """fragment texts with a chirality mark: a centre with three or four substituents (chains, branches,
        ring bonds through the centre in both writing orders), some with too few / too many neighbours"""
        mark = rng.choice(['@', '@@', '@', '@@', '@TH1', '@TH2', '@AL1', '@SP3', '@OH12'])
        el = rng.choice(['C', 'C', 'C', 'N', 'Si', 'P', 'S'])
        ch = rng.choice(['', '', '', '+', '-'])
        sub = lambda: rng.choice(['F', 'Cl', 'Br', 'I', 'C', 'N', 'O', 'CC', 'C=O', 'OC', 'C#N', '[NH3+]', 'c1ccccc1', 'C(F)F', '[H]'])
        ann = (';' + rng.choice(['0.5', 'w=2', 'x=S', 'q=0.1'])) if rng.random() < 0.15 else ''
        ctr = lambda h: '[%s%s%s%s%s]' % (el, mark, h, ch, ann)
        form = rng.randrange(12)
        a, b, c, d = sub(), sub(), sub(), sub()
        if form == 0:
            text = '%s%s(%s)(%s)%s' % (a, ctr(''), b, c, d)
        elif form == 1:
            text = '%s(%s)(%s)%s' % (ctr('H'), b, c, d)
        elif form == 2:
            text = '%s%s(%s)%s' % (a, ctr('H'), b, c)
        elif form == 3:
            text = '%s1(%s)(%s)CC1' % (ctr(''), b, c)
        elif form == 4:
            text = 'C1C%s1(%s)%s' % (ctr(''), b, c)
        elif form == 5:
            text = 'C1C%s12CC2%s' % (ctr(''), c)
        elif form == 6:
            text = 'C2C%s12CC1%s' % (ctr(''), c)
        elif form == 7:
            text = '%s%s1(%s)CC1' % (a, ctr(''), b)
        elif form == 8:
            text = '%s%s(%s)(%s)%s' % (a, ctr(rng.choice(['H', 'H2', ''])), b, c, rng.choice(['', d]))
        elif form == 9:
            text = '%s%s(%s)%s%s(%s)%s' % (a, ctr('H'), b, c, ctr(''), d, sub() + '(' + sub() + ')')
        elif form == 10:
            text = '%s=%s(%s)%s' % (a, ctr(''), b, c)
        else:
            text = '%s%s%%12(%s)%sC%%12' % (a, ctr(''), b, c)
        if rng.random() < 0.5:
            text = text + rng.choice(['[$]', '[>]', '[<1]', '[$a]'])
        if rng.random() < 0.3:
            text = rng.choice(['[$]', '[<]', '[>2]']) + text
        return {'kind': 'template', 'name': rng.choice(NAMES), 'text': text}

    def generate(self, ctx, n):
        rng = ctx.rng
        ring_on, split_on = self.helpers_enabled(ctx)
        out = []
        for _ in range(n):
            q = rng.random()
            if q < 0.27:
                out.append(self.gen_smiles(rng))
                continue
            if q < 0.31:
                out.append(self.gen_chiral(rng))
                continue
            if q < 0.37:
                toks = Builder(rng, False).build()
                out.append({'kind': 'template', 'name': rng.choice(NAMES), 'text': render(toks, rand_decor(rng, toks))})
                continue
            r = rng.random()
            if (r >= 0.92 and r < 0.96 and not ring_on) or (r >= 0.96 and not split_on):
                r = rng.random() * 0.92
            if r < 0.72:
                out.append(self.gen_judged(rng))
            elif r < 0.92:
                base = self.gen_judged(rng)['text'] if rng.random() < 0.85 else \
                    ''.join(rng.choice(MUT_ALPHABET) for _ in range(rng.randint(0, 8)))
                out.append({'kind': 'strip', 'text': mutate(rng, base), 'judge': False})
            elif r < 0.96:
                s = ''.join(rng.choice('0123456789%%%Ca[=') for _ in range(rng.randint(0, 7)))
                out.append({'kind': 'ring', 'rest': s, 'token': rng.choice('0123456789%%%'), 'nc': rng.randint(0, 9)})
            else:
                frs = []
                for _ in range(rng.randint(0, 3)):
                    frs.append(mutate(rng, '#' + rng.choice(NAMES) + '=' + self.gen_judged(rng)['text']))
                text = '{' + ','.join(frs) + '}'
                out.append({'kind': 'split', 'text': mutate(rng, text) if rng.random() < 0.3 else text})
        return out

    # -- implementation --------------------------------------------------------------------
    def run_impl(self, case):
        import importlib
        rf = importlib.import_module('cgsmiles.read_fragments')
        if case['kind'] == 'strip':
            out = {'fo': float_table(case['text'])}
            try:
                smile, desc, ez, ann = rf.strip_bonding_descriptors(case['text'])
            except BaseException as exc:       # StopIteration escapes the function on truncated brackets
                out['exc'] = type(exc).__name__
                return out
            out.update(smile=smile, desc=[[k, list(v)] for k, v in desc.items()],
                       ez=[[k, v] for k, v in ez.items()], ann=[[k, dict(v)] for k, v in ann.items()])
            return out
        if case['kind'] == 'ring':
            from collections import defaultdict
            try:
                it = rf.PeekIter(case['rest'])
                _, tok, part, rings = rf.collect_ring_number(it, case['token'], case['nc'], defaultdict(list))
                return {'rest': ''.join(list(it)), 'tok': tok, 'part': part,
                        'rings': [[k, list(v)] for k, v in rings.items()]}
            except Exception as exc:
                return {'exc': type(exc).__name__}
        if case['kind'] == 'smiles':
            return run_pysmiles(case['text'])
        if case['kind'] == 'template':
            import logging
            logging.getLogger('pysmiles').setLevel(logging.CRITICAL)
            out = {'fo': float_table(case['text'])}
            try:
                pairs = list(rf.fragment_iter('{#%s=%s}' % (case['name'], case['text']), all_atom=True))
                (fname, g), = pairs
                skip = ('_pos', '_atom_str')
                out['nodes'] = [[n, {k: v for k, v in d.items() if k not in skip}] for n, d in g.nodes(data=True)]
                out['edges'] = [[u, v, d.get('order')] for u, v, d in g.edges(data=True)]
                if fname != case['name'] or any((not isinstance(n, int)) or n < 0 for n, _ in out['nodes']):
                    out = {'fo': out['fo'], 'exc': 'unexpected keys'}
            except BaseException as exc:
                out['exc'] = type(exc).__name__
                if isinstance(exc, ValueError) and str(exc).startswith('Chiral node'):
                    out['chiral_err'] = True
            return out
        if case['kind'] == 'split':
            saved = (rf.strip_bonding_descriptors, rf.read_fragment_smiles)
            seen = []
            rf.strip_bonding_descriptors = lambda s: (seen.append(s) or s, {}, {}, {})
            rf.read_fragment_smiles = lambda smiles_str, fragname, *a, **k: None
            try:
                names = [name for name, _ in rf.fragment_iter(case['text'])]
            except Exception as exc:
                return {'exc': type(exc).__name__}
            finally:
                rf.strip_bonding_descriptors, rf.read_fragment_smiles = saved
            return {'pairs': [[a, b] for a, b in zip(names, seen)]}
        raise ValueError(case['kind'])

    # -- Gallina ---------------------------------------------------------------------------
    @staticmethod
    def tok_lit(t):
        k = t[0]
        if k == 'A':
            return '(TAtom %s)' % lit.s(t[1])
        if k == 'K':
            return '(TBracket %s %s)' % (lit.s(t[1]), lit.opt(t[2], lit.s))
        if k == 'B':
            return '(TBond %s)' % BSYM[t[1]]
        if k == '(':
            return 'TOpen'
        if k == ')':
            return 'TClose'
        if k == 'R':
            return '(TRing %s %s)' % (lit.opt(t[1], lambda x: BSYM[x]), lit.s(t[2]))
        if k == '/':
            return '(TSlash %s)' % lit.b(t[1])
        if k == 'M':
            return '(TMult %s)' % lit.nat(t[1])
        raise ValueError(t)

    @staticmethod
    def desc_lit(d):
        return '{| d_kind := %s; d_label := %s; d_sym := %s |}' % (lit.ch(d[0]), lit.s(d[1]), lit.opt(d[2], lambda x: BSYM[x]))

    def coq_case(self, case, impl):
        if case['kind'] == 'template':
            fo = lit.lst([lit.pair(lit.s(p), lit.opt(r, lit.s)) for p, r in impl['fo']])
            if impl.get('chiral_err'):
                return '(CTemplateChiralErr %s %s %s)' % (lit.s(case['name']), lit.s(case['text']), fo)
            if 'exc' in impl:
                obs = 'None'
            else:
                def fix(d):
                    if isinstance(d.get('rs_isomer'), list):
                        d = dict(d, rs_isomer=tuple(d['rs_isomer']))
                    return d
                obs = '(Some (%s, %s))' % (
                    lit.lst([lit.pair(lit.nat(n), lit.attrs(fix(d))) for n, d in impl['nodes']]),
                    lit.lst(['(%s, %s, %s)' % (lit.nat(u), lit.nat(v), lit.pyval(o)) for u, v, o in impl['edges']]))
            return '(CTemplate %s %s %s %s)' % (lit.s(case['name']), lit.s(case['text']), fo, obs)
        if case['kind'] == 'smiles':
            b, f = impl['base'], impl['full']
            if 'exc' in b:
                base = '(SBErr %s)' % lit.s(b['exc'])
            else:
                base = '(SBOk (%s, %s, %s))' % (
                    lit.lst([lit.s(a) for a in b['atoms']]),
                    lit.lst(['(%s, %s, %s)' % (lit.nat(u), lit.nat(v), lit.opt(c, lit.ch)) for u, v, c in b['edges']]),
                    lit.lst([lit.pair(lit.opt(k, lit.nat), lit.ch(v)) for k, v in b['ez']]))
            if 'exc' in f:
                full = '(SFErr %s)' % lit.s(f['exc'])
            else:
                full = '(SFOk %s %s)' % (
                    lit.lst([lit.attrs(d) for d in f['nodes']]),
                    lit.lst(['(%s, %s, %s)' % (lit.nat(u), lit.nat(v), lit.pyval(o)) for u, v, o in f['edges']]))
            return '(CSmiles %s %s %s)' % (lit.s(case['text']), base, full)
        if case['kind'] == 'ring' and 'exc' in impl:      # the model never returns an empty partial_str: a mismatch
            return '(CRing %s %s %s ([], None, [], []))' % (lit.s(case['rest']), lit.ch(case['token']), lit.nat(case['nc']))
        if case['kind'] == 'split' and 'exc' in impl:     # the model never returns an empty list: a mismatch
            return '(CSplit %s [])' % lit.s(case['text'])
        if case['kind'] == 'ring':
            rings = lit.lst([lit.pair(lit.s(k), lit.lst([lit.nat(x) for x in v])) for k, v in impl['rings']])
            return '(CRing %s %s %s (%s, %s, %s, %s))' % (
                lit.s(case['rest']), lit.ch(case['token']), lit.nat(case['nc']), lit.s(impl['rest']),
                lit.opt(impl['tok'], lit.ch), lit.s(impl['part']), rings)
        if case['kind'] == 'split':
            return '(CSplit %s %s)' % (lit.s(case['text']), lit.lst([lit.pair(lit.s(a), lit.s(b)) for a, b in impl['pairs']]))
        try:
            text = lit.s(case['text'])
        except ValueError:
            return '(CSplit [] [([], [])])'    # not printable ASCII: outside the model's alphabet, not a case
        fo = lit.lst([lit.pair(lit.s(p), lit.opt(r, lit.s)) for p, r in impl['fo']])
        def bad_key(k):
            return isinstance(k, bool) or not isinstance(k, int) or k < 0
        if 'exc' in impl:
            obs = '(OErr %s)' % lit.s(impl['exc'])
        elif any(bad_key(k) for part in ('desc', 'ez', 'ann') for k, _ in impl[part]):
            obs = '(OErr (S "result with a key that is not an atom index"))'
        else:
            obs = '(ORes (%s, %s, %s, %s))' % (
                lit.s(impl['smile']),
                lit.lst([lit.pair(lit.nat(k), lit.lst([lit.s(x) for x in v])) for k, v in impl['desc']]),
                lit.lst([lit.pair(lit.nat(k), lit.ch(v)) for k, v in impl['ez']]),
                lit.lst([lit.pair(lit.nat(k), lit.attrs(v)) for k, v in impl['ann']]))
        if case.get('judge'):
            toks = lit.lst([self.tok_lit(t) for t in case['toks']])
            dc = '{| d_lead := %s; d_after := %s |}' % (
                lit.lst([self.desc_lit(d) for d in case['decor']['lead']]),
                lit.lst([lit.lst([self.desc_lit(d) for d in ds]) for ds in case['decor']['after']]))
            return '(CStrip %s %s true %s %s %s)' % (text, fo, toks, dc, obs)
        return '(CStrip %s %s false [] {| d_lead := []; d_after := [] |} %s)' % (text, fo, obs)

    # -- bookkeeping -----------------------------------------------------------------------
    def python_oracle(self, case, impl):
        """fallback oracle (the Coq side could not be built): clause + 10 * defect class, like prop_fail"""
        if case['kind'] != 'strip' or not case.get('judge'):
            return 0
        from cgsmiles.dialects import _fragment_node_parser
        try:
            clean, desc, ez, ann = strip_spec(case['toks'], case['decor'], _fragment_node_parser)
        except Exception:
            return 0
        if 'exc' in impl:
            code = 9
        elif impl['smile'] != clean:
            code = 1
        elif {k: v for k, v in impl['desc']} != desc:
            code = 2
        elif {k: v for k, v in impl['ez']} != ez:
            code = 3
        elif {k: v for k, v in impl['ann']} != ann:
            code = 4
        else:
            return 0
        cls = 3 if any(t[0] == 'M' for t in case['toks']) else 0      # python mirror of FragText.class_of
        return code + 10 * cls

    def known_class(self, case, impl, code):
        if code in (97, 98):
            return None
        return CLASSES.get(code // 10)

    def describe(self, case):
        if case['kind'] == 'strip' and case.get('judge'):
            return {'kind': 'strip', 'text': case['text'], 'judge': True, 'toks': case['toks'], 'decor': case['decor']}
        return case

    def nontrivial(self, case, impl):
        if case['kind'] != 'strip':
            return True
        return bool(case.get('judge')) and (any(case['decor']['after']) or bool(case['decor']['lead']))

    def case_class(self, case, impl):
        if case['kind'] == 'smiles':
            return 'pysmiles:' + (impl['full'].get('exc') or 'graph')
        if case['kind'] == 'template':
            return 'template:' + ('chiral-refused' if impl.get('chiral_err') else (impl.get('exc') or 'graph'))
        if case['kind'] != 'strip':
            return 'helper:' + case['kind']
        if not case.get('judge'):
            return 'unjudged-text:' + impl.get('exc', 'returns')
        toks = case['toks']
        cls = 'coarse' if any(t[0] == 'K' and t[1].startswith('#') for t in toks) else 'atomistic'
        feats = []
        if any(t[0] == '(' for t in toks):
            feats.append('branch')
        if any(t[0] == 'R' for t in toks):
            feats.append('ring')
        if any(t[0] == 'K' and t[2] is not None for t in toks):
            feats.append('annot')
        if any(t[0] == '/' for t in toks):
            feats.append('slash')
        if any(case['decor']['after']) or case['decor']['lead']:
            feats.append('desc')
        return cls + ':' + '+'.join(feats)


PROP = C13()
