"""C03 — inter-fragment bonds follow the base graph and the bonding-descriptor rules.
Tie: `compatible` is regenerated from resolve.py (py2v) and the theorems are re-checked against it;
match_bonding_descriptors / edges_from_bonding_descrpt are hand-modelled (Resolve/Bonding.v) and
compared with the implementation on every run by wrapping the method inside a real resolve()."""
import copy
import re
import networkx as nx

import common
import gens
import lit


class RecGraph(nx.Graph):
    """records add_edge calls that carry a `bonding` keyword (creation order of the bonds)"""
    def add_edge(self, u, v, **attr):
        if 'bonding' in attr:
            self._cgv_rec.append((u, v, tuple(attr['bonding']), attr.get('order')))
        return super().add_edge(u, v, **attr)


def tables(meta):
    st = []
    for a in meta.nodes:
        g = meta.nodes[a].get('graph')
        if g is None:
            continue
        st.append((a, [(n, list(b)) for n, b in nx.get_node_attributes(g, 'bonding').items()]))
    return st


def make_resolver(case):
    """the resolver of a case through the constructor it names: the whole string, the base graph given as a
    networkx graph (from_graph), or the fragments given as graphs (from_fragment_dicts).  The base graph is
    always the one read_cgsmiles reads from the string, so the three must behave alike."""
    from cgsmiles.resolve import MoleculeResolver
    from cgsmiles.read_cgsmiles import read_cgsmiles
    ctor = case.get('ctor', 'string')
    s = case['s']
    kw = dict(last_all_atom=case['aa'], legacy=case['legacy'])
    if ctor == 'string':
        return MoleculeResolver.from_string(s, **kw)
    base, frs = s.split('.{', 1)
    frs = '{' + frs
    if ctor == 'graph':
        return MoleculeResolver.from_graph(frs, read_cgsmiles(base), **kw)
    dicts = MoleculeResolver.read_fragment_strings(re.findall(r"\{[^\}]+\}", frs), last_all_atom=case['aa'])
    return MoleculeResolver.from_fragment_dicts(base, dicts, **kw)


class C03(common.Prop):
    id = 'C03'
    level = 'proof'
    technique = ('Coq proof (fold invariants by induction over the bond-creation loop, on a model whose '
                 'compatibility test is regenerated from resolve.py on every run) + per-run correspondence '
                 'of the hand-written loop model with the implementation')
    vo_deps = ['theories/Resolve/BondingCheck.vo']
    prop_file = 'theories/Properties/C03.v'
    case_requires = ('From Coq Require Import String.\nFrom Coq Require Import List Ascii ZArith Bool.\n'
                     'From CGV Require Import Base.PyBase Base.PyVal Resolve.Bonding Resolve.BondingCheck.')
    quick_cases = 500
    thorough_cases = 8000
    fail_text = {1: 'a bond joins fragments of two coarse nodes that are not joined by a base-graph edge',
                 2: 'more bonds than the base edge order',
                 3: 'bonded descriptor pair is not compatible under the active convention',
                 4: 'bond order is neither the annotated order nor 1.5 for an aromatic-aromatic bond',
                 5: 'a descriptor was used for more bonds than it was written',
                 6: 'fewer bonds than the edge order although a compatible pair was left',
                 9: 'implementation raised an unexpected exception',
                 108: 'the base edges (or their orders) the bond-creation step works with are not those the base graph has '
                      '(an order-0 edge must stay bond-free through every constructor)',
                 107: 'a fragment template does not carry the descriptors its text writes, on the atoms it writes them after'}

    def corpus(self, ctx):
        return [
            {'s': '{[#A][#B]}.{#A=[$]CC[$],#B=[$]OC}', 'legacy': True, 'aa': True},
            {'s': '{[#A]=[#B]}.{#A=[!]COC[!],#B=[!]CCCC[!]}', 'legacy': True, 'aa': True},
            {'s': '{[#A]|4}.{#A=[$]CC[$]}', 'legacy': True, 'aa': True},
            {'s': '{[#A][#B][#A]}.{#A=[>A]CC[<B],#B=[<A]CO[>B]}', 'legacy': False, 'aa': True},
            {'s': '{[#A]1[#A][#A]1}.{#A=[$]cc[$]}', 'legacy': True, 'aa': True},
            {'s': '{[#A]#[#B]}.{#A=[$]=[#X][$][#Y][$A],#B=[#P][$][$]=[$A]}', 'legacy': True, 'aa': False},
            {'s': '{[#A].[#B][#C]}.{#A=[$]C,#B=[$]C[$],#C=[$]C}', 'legacy': True, 'aa': True},
            # the same through the other constructors; order-0 edges with descriptors left over at both ends
            {'s': '{[#A].[#B][#C]}.{#A=[$]C,#B=[$]C[$],#C=[$]C}', 'legacy': True, 'aa': True, 'ctor': 'graph'},
            {'s': '{[#P][#P].[#P][#P]}.{#P=[$]COC[$]}', 'legacy': True, 'aa': True, 'ctor': 'graph'},
            {'s': '{[#P][#P].[#P][#P]}.{#P=[>]CC[<]}', 'legacy': False, 'aa': True, 'ctor': 'dicts'},
            {'s': '{[#P][#P].[#P][#P]}.{#P=[$][#X][#Y][$]}', 'legacy': False, 'aa': False, 'ctor': 'graph'},
            # the step of a LATER level, after a level that had a virtual node / order-0 edges / squashed beads
            # (seed C03-11: node keys remembered from an earlier level name other nodes after the renumbering)
            {'s': '{[#V].[#A][#B]}.{#A=[#P][#Q][>],#B=[<][#R][#S]}.{#P=CC[$a],#Q=[$a]CC[$b],#R=[$b]CO[$c],#S=[$c]CN}',
             'legacy': True, 'aa': True, 'level': 1},
            {'s': '{[#A][#B].[#V]}.{#A=[#P][#Q][>],#B=[<][#R][#S]}.{#P=CC[$a],#Q=[$a]CC[$b],#R=[$b]CO[$c],#S=[$c]CN}',
             'legacy': False, 'aa': True, 'level': 1},
            {'s': '{[#A].([#V])[#B]}.{#A=[#P]=[#Q][>],#B=[<][#R][#S]}.{#P=[#x][$a]=[$a],#Q=[$a]=[$a][#y][$b],#R=[$b][#x][$c],#S=[$c][#y]}',
             'legacy': True, 'aa': False, 'level': 1},
        ]

    def generate(self, ctx, n):
        rng = ctx.rng
        out = []
        for _ in range(n):
            aa = rng.random() < 0.6
            names = rng.sample(['A', 'B', 'C', 'D'], rng.randint(1, 3))
            base, _ = gens.rand_base_graph(rng, names, nmax=5, max_order=3)
            kinds = rng.choice(['$$$><', '$', '><', '$$><!'])
            labels = rng.choice([('',), ('', 'A'), ('', '', 'A', 'B', '1')])
            expect = {}
            frs = gens.rand_fragment_set(rng, names, all_atom=aa, max_desc=4, expect=expect, kinds=kinds, labels=labels)
            out.append({'s': base + '.' + frs, 'legacy': rng.random() < 0.6, 'aa': aa, 'written': expect,
                        'ctor': rng.choice(['string', 'string', 'string', 'graph', 'graph', 'dicts'])})
            if rng.random() < 0.12:
                out.append(self._later_level(rng))
        return out[:n]

    @staticmethod
    def _later_level(rng):
        """a three-block string whose FIRST level has virtual nodes / order-0 edges at random places; the observed step
        is the one of the second level (dedicated labelled pairs, so every base edge of that level must get its bonds)"""
        k = rng.randint(2, 4)
        blocks = ['B%d' % i for i in range(k)]
        # level-1 fragments: chains of 2 beads, joined head to tail by uniquely labelled pairs
        beads, l1 = [], []
        for i, b in enumerate(blocks):
            p, q = 'p%d' % i, 'q%d' % i
            beads += [p, q]
            left = '[<j%d]' % (i - 1) if i else ''
            right = '[>j%d]' % i if i < k - 1 else ''
            sym = rng.choice(['', '', '='])
            l1.append('#%s=%s[#%s]%s[#%s]%s' % (b, left, p, sym, q, right))
        # level-2 fragments, all-atom or coarse, dedicated labels per bead-bead edge
        aa = rng.random() < 0.6
        l2 = []
        for i, b in enumerate(blocks):
            p, q = 'p%d' % i, 'q%d' % i
            o = 2 if '=[#%s]' % q in l1[i] else 1
            inner = ''.join('[$i%d%s]' % (i, c) for c in 'ab'[:o])
            a1, a2 = ('C', 'C') if aa else ('[#x]', '[#y]')
            prev = '[$o%d]' % (i - 1) if i else ''
            nxt = '[$o%d]' % i if i < k - 1 else ''
            l2.append('#%s=%s%s%s' % (p, prev, a1, inner))
            l2.append('#%s=%s%s%s%s' % (q, inner, a2, a1 if aa else '', nxt))
        # level 0: the chain of blocks with virtual nodes sprinkled in
        toks = []
        for i, b in enumerate(blocks):
            if i == 0 and rng.random() < 0.5:
                toks.append('[#V].')                 # virtual node written first, order-0 edge to the first block
            toks.append('[#%s]' % b)
            if rng.random() < 0.4:
                toks.append('.([#V])')               # virtual node as a branch behind a block
        if rng.random() < 0.4:
            toks.append('.[#W]')
        s = '{%s}.{%s}.{%s}' % (''.join(toks), ','.join(l1), ','.join(l2))
        return {'s': s, 'legacy': rng.random() < 0.7, 'aa': aa, 'level': 1, 'ctor': 'string'}

    def run_impl(self, case):
        from cgsmiles.resolve import MoleculeResolver
        rec = {}
        try:
            resolver = make_resolver(case)
        except Exception as exc:          # input rejected before the code under test runs
            return {'skip': type(exc).__name__}
        orig = resolver.edges_from_bonding_descrpt

        def wrapped(all_atom=True):
            meta, mol = resolver.meta_graph, resolver.molecule
            rec['edges'] = [(a, b, meta.edges[(a, b)]['order']) for a, b in meta.edges]
            rec['s0'] = copy.deepcopy(tables(meta))
            rec['owner'] = {n: a for a in meta.nodes if meta.nodes[a].get('graph') is not None
                            for n in meta.nodes[a]['graph'].nodes}
            rec['arom'] = [n for n in mol.nodes if mol.nodes[n].get('aromatic', False)]
            mol.__class__ = RecGraph
            mol._cgv_rec = []
            try:
                orig(all_atom=all_atom)
                rec['bonds'] = list(mol._cgv_rec)
                rec['s1'] = copy.deepcopy(tables(meta))
            except Exception as exc:
                rec['exc'] = type(exc).__name__
                raise
            finally:
                mol.__class__ = nx.Graph
        resolver.edges_from_bonding_descrpt = wrapped
        level = case.get('level', 0)
        try:
            # the bond-creation step of resolution level `level` is observed (the recorder keeps the last call):
            # state that survives from the levels before it must not change what the step does
            for _ in range(level + 1):
                rec.pop('edges', None)
                rec.pop('bonds', None)
                resolver.resolve()
        except Exception as exc:
            rec.setdefault('later_exc', type(exc).__name__)
        if 'edges' not in rec:
            return {'skip': rec.get('later_exc', 'not reached')}
        if any(not isinstance(o, int) or isinstance(o, bool) or o < 0 for _, _, o in rec['edges']):
            return {'skip': 'non-integer base order'}
        out = {'edges': rec['edges'], 's0': rec['s0'], 'arom': rec['arom']}
        # the base graph as the string denotes it, read afresh (a constructor must not change its edge orders)
        try:
            from cgsmiles.read_cgsmiles import read_cgsmiles
            if level == 0:
                fresh = read_cgsmiles(case['s'].split('.{', 1)[0])
                out['written_edges'] = sorted([min(a, b), max(a, b), o] for a, b, o in fresh.edges(data='order'))
        except Exception:
            pass
        # what the fragment reader attached to the templates (clause "each bonded atom carried a descriptor")
        try:
            fd = resolver.fragment_dicts[level]
            out['templates'] = {nm: {str(n): list(b) for n, b in nx.get_node_attributes(g, 'bonding').items()}
                                for nm, g in fd.items()}
        except Exception:
            pass
        if 'bonds' in rec:
            own = rec['owner']
            out['bonds'] = [[own[u], own[v], u, v, d[0], d[1], o] for u, v, d, o in rec['bonds']]
            out['s1'] = rec['s1']
        else:
            out['exc'] = rec.get('exc')
        return out

    # ---- Python mirror of BondingCheck.prop_fail, used only when the Coq side cannot be built
    # (e.g. the translator fails closed on a rewritten `compatible`): search, never proof
    @staticmethod
    def _compat(legacy, l, r):
        if not l or not r:
            return False
        lk, lt, rk, rt = l[0], l[1:], r[0], r[1:]
        compl = (lk, rk) in (('<', '>'), ('>', '<'))
        if legacy:
            return (lk == rk and lt == rt and lk not in '> <') or (compl and lt == rt)
        return (lk == rk and rk in '$!') or compl

    def python_oracle(self, case, impl):
        if 'skip' in impl:
            return 0
        if 'bonds' not in impl:
            return 9
        legacy = case['legacy']
        edges = {(a, b): o for a, b, o in impl['edges']}
        s0 = {a: {n: list(ds) for n, ds in t} for a, t in impl['s0']}
        s1 = {a: {n: list(ds) for n, ds in t} for a, t in impl['s1']}
        arom = set(impl['arom'])
        bonds = impl['bonds']
        for a, b, u, v, d1, d2, o in bonds:
            if (a, b) not in edges:
                return 1
            if sum(1 for x in bonds if (x[0], x[1]) == (a, b)) > edges[(a, b)]:
                return 2
            if not self._compat(legacy, d1, d2):
                return 3
            want = 1.5 if (u in arom and v in arom) else (int(d1[-1]) if d1[-1:].isdigit() else None)
            if want is None or float(o) != float(want) or (want == 1.5) != isinstance(o, float):
                return 4
            used_src = sum(1 for x in bonds if (x[0], x[2], x[4]) == (a, u, d1)) + \
                sum(1 for x in bonds if (x[1], x[3], x[5]) == (a, u, d1))
            if used_src > s0.get(a, {}).get(u, []).count(d1):
                return 5
            used_tgt = sum(1 for x in bonds if (x[0], x[2], x[4]) == (b, v, d2)) + \
                sum(1 for x in bonds if (x[1], x[3], x[5]) == (b, v, d2))
            if used_tgt > s0.get(b, {}).get(v, []).count(d2):
                return 5
        for (a, b), o in edges.items():
            if sum(1 for x in bonds if (x[0], x[1]) == (a, b)) < o:
                left = any(self._compat(legacy, d, t) for ds in s1.get(a, {}).values() for d in ds
                           for ts in s1.get(b, {}).values() for t in ts)
                if left:
                    return 6
        return 0

    def extra_fail(self, case, impl):
        # the descriptors the templates carry must be the ones the fragment text writes, on the atoms it
        # writes them after (generator-known; search side only)
        if 'written_edges' in impl and 'edges' in impl:
            if sorted([min(a, b), max(a, b), o] for a, b, o in impl['edges']) != impl['written_edges']:
                return 108
        written = case.get('written')
        if not written or 'templates' not in impl:
            return 0
        for nm, exp in written.items():
            got = {k: v for k, v in impl['templates'].get(nm, {}).items() if v}
            if {k: v for k, v in exp.items() if v} != got:
                return 107
        return 0

    def nontrivial(self, case, impl):
        return 'skip' not in impl and len(impl.get('bonds', [])) >= 1

    def case_class(self, case, impl):
        if 'skip' in impl:
            return 'skipped:' + impl['skip']
        if 'exc' in impl:
            return 'exception:' + str(impl['exc'])
        nb = len(impl['bonds'])
        want = sum(o for _, _, o in impl['edges'])
        return ('coarse' if not case['aa'] else 'atomistic') + (':all-bonds' if nb == want else ':left-over')

    def coq_case(self, case, impl):
        def st(s):
            return lit.lst([lit.pair(lit.z(a), lit.lst([lit.pair(lit.z(n), lit.lst([lit.s(d) for d in ds]))
                                                         for n, ds in t])) for a, t in s])
        if 'skip' in impl:
            # not a case of this property: a trivially consistent record
            return ('{| c_legacy := true; c_arom := []; c_edges := []; c_s0 := []; c_impl := Some ([], []) |}')
        edges = lit.lst(['(%s, %s, %s)' % (lit.z(a), lit.z(b), lit.z(o)) for a, b, o in impl['edges']])
        if 'bonds' in impl:
            bonds = lit.lst(['((%s, %s, %s, %s), (%s, %s), %s)' % (lit.z(a), lit.z(b), lit.z(u), lit.z(v), lit.s(d1),
                                                                     lit.s(d2), lit.pyval(o))
                             for a, b, u, v, d1, d2, o in impl['bonds']])
            im = '(Some (%s, %s))' % (st(impl['s1']), bonds)
        else:
            im = 'None'
        return ('{| c_legacy := %s; c_arom := %s; c_edges := %s; c_s0 := %s; c_impl := %s |}'
                % (lit.b(case['legacy']), lit.lst([lit.z(n) for n in impl['arom']]), edges, st(impl['s0']), im))


PROP = C03()
