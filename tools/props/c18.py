"""C18 — the RDKit bridge keeps chemistry and puts coordinates on the right atoms.

Three kinds of cases, all driven against /repo and judged inside Coq (Geom/CoordCheck.v):
  embed : embed_3d_via_rdkit(G) for resolved molecules under node orderings / relabelings; the harness records the
          node list seen by networkx_to_rdkit and the molecule returned by Chem.AddHs (proxy of the `Chem` name inside
          cgsmiles.rdkit, no global patch), then identifies for every node the RDKit atom whose conformer position it
          carries.  Model: Geom/IndexMap.v (parametrised by the generated write-back shape).
  round : rdkit_to_networkx(networkx_to_rdkit(G)) with / without a conformer: element, charge, bond order, total H.
          RDKit's chemistry is an oracle (observed only); the model predicts the control flow (NameError) and which
          conformer position each output node receives.
  fwd   : forward_map_molecule on recorded positions: float instance of Geom/ForwardMap.v bit for bit; translation
          equivariance, own-atoms dependence, weight-normalised average.
"""
import copy

import networkx as nx
import numpy as np

import common
try:
    from rdkit import RDLogger
    RDLogger.DisableLog("rdApp.*")
except Exception:
    pass
import lit

TERMINAL = ['[$]C', '[$]O', '[$]N', '[$]F', '[$]CCl', '[$]C=C', '[$]C#N', '[$]C(=O)[O-]', '[$]C[NH3+]',
            '[$]c1ccccc1', '[$]C(=O)O', '[$]CSC', '[$]CO', '[$]C1CC1', '[$]C(C)C']
MIDDLE = ['[$]CC[$]', '[$]COC[$]', '[$]C=C[$]', '[$]c1ccc([$])cc1', '[$]C(=O)N[$]', '[$]CC(O)[$]', '[$]C#C[$]',
          '[$]C1CC([$])C1', '[$]C(F)[$]', '[$]O[$]', '[$]N[$]']
THREE = ['[$]C([$])[$]', '[$]N([$])[$]', '[$]c1cc([$])cc([$])c1']
FIXED = ['{[#A][#B]}.{#A=OC[!],#B=[!]CC}',
         '{[#SC3]1[#TC5][#TC5]1}.{#SC3=Cc(c[!])c[!],#TC5=[!]ccc[!]}',
         '{[#A]=[#B]}.{#A=[!]COC[!],#B=[!]CCCC[!]}',
         '{[#A][#B]}.{#A=[$]C[O;w=0.5],#B=[$][C;w=2]C}',
         '{[#A]}.{#A=CCO}', '{[#A]}.{#A=c1ccccc1}', '{[#A]}.{#A=CC(=O)[O-]}', '{[#A]|3}.{#A=[$]CC[$]}',
         '{[#A]1[#A][#A]1}.{#A=[$]CO[$]}', '{[#A].[#B]}.{#A=CC(=O)[O-],#B=[Na+]}']
# multi-component inputs as plain SMILES (disjoint unions of pysmiles graphs: keys 0..n-1 in order, implicit hydrogens, so that the
# hydrogens appended by embed_3d_via_rdkit interleave the components' atom indices)
SMILES = ['CCO.O', 'CC(=O)[O-].[Na+]', 'C.C', 'CO.CO.O', 'c1ccccc1.O', '[NH4+].[Cl-]', 'CCO', 'OCC.N.CC#N', 'C=C.C#C',
          'CC(C)O.OC']
MULTI = ['{[#A].[#B]}.{#A=CCO,#B=O}', '{[#A].[#B].[#A]}.{#A=CO,#B=N}', '{[#A][#B].[#C]}.{#A=[$]CO,#B=[$]CC,#C=O}',
         '{[#A].[#B]}.{#A=CC(=O)[O-],#B=[Na+]}']
# hydrogen-bearing atoms annotated with weight 0 (their hydrogens inherit the 0), alone / several / mixed with fractions;
# a bead whose weights are ALL zero is outside the domain (division by zero) and skipped
ZERO_W = ['{[#A][#B]}.{#A=[C;w=0]C[$],#B=[$]CO}', '{[#A]}.{#A=[C;w=0]C[O;w=0]}',
          '{[#A][#B]}.{#A=[$]C[O;w=0.5],#B=[$][C;w=0][C;w=0.25]}', '{[#A][#B]}.{#A=[C;w=0]C[$],#B=[$][N;w=0]C}',
          '{[#A][#B][#A]}.{#A=[$][C;w=0]O,#B=[$]C[C;w=0][$]}', '{[#A]}.{#A=[C;w=0]}', '{[#A][#B]}.{#A=[$][N;w=0][C;w=2.5],#B=[$]c1ccccc1}',
          '{[#A][#B]}.{#A=[O;w=0]C[!],#B=[!]C[C;w=0]}']
# a ZERO-ORDER bond between two fragments (both descriptors carry `.`): metal / ligand, in both bead orders, so that
# the metal atom precedes the ligand atom in one and follows it in the other
ZERO_BOND = ['{[#M][#L]}.{#L=CS(C).[$],#M=.[$][Cu+]}', '{[#L][#M]}.{#L=CS(C).[$],#M=.[$][Cu+]}',
             '{[#M][#L]}.{#L=CP(C)(C).[$],#M=.[$][Cu+]}', '{[#L][#M]}.{#L=CP(C)(C).[$],#M=.[$][Cu+]}',
             '{[#M][#L]}.{#L=CC(=O)[O-].[$],#M=.[$][Na+]}', '{[#L][#M]}.{#L=CC(=O)[O-].[$],#M=.[$][Na+]}',
             '{[#M][#L]}.{#L=CN(C).[$],#M=.[$][Cu+]}', '{[#L][#M]}.{#L=CN(C).[$],#M=.[$][Cu+]}',
             '{[#M][#L]}.{#L=CO.[$],#M=.[$][Na+]}', '{[#L][#M]}.{#L=CO.[$],#M=.[$][Na+]}',
             '{[#L][#M][#L]}.{#L=CS(C).[$],#M=.[$][Cu+].[$]}']
# hydrogens that belong to ANOTHER bead than the atom they are bonded to: single-hydrogen end-group fragments, and an
# explicit (annotated) hydrogen on an atom shared through the squash operator
OWN_H = ['{[#Hter][#PE][#PE][#Hter]}.{#PE=[$]CC[$],#Hter=[$][H]}', '{[#A][#B]}.{#A=OC[!],#B=[!]C([H;w=0.5])C}',
         '{[#Hter][#PE][#OH]}.{#PE=[$]CC[$],#Hter=[$][H],#OH=[$]O}', '{[#Hter][#A]}.{#A=[$]C(=O)O,#Hter=[$][H]}',
         '{[#A][#B]}.{#A=OC[!],#B=[!]C([H])C}', '{[#A][#B]}.{#A=[O;w=2]C[!],#B=[!]C([H;w=0])[C;w=0.5]}',
         '{[#Hter][#PE]|3[#Hter]}.{#PE=[$]CC[$],#Hter=[$][H]}']
WEIGHTS = [0.5, 2.0, 12.011, 1.008, 0.25, 3, 1, 1, 0]
# five-membered hetero-aromatic rings (pysmiles/cgsmiles keep them LOCALISED: orders 1/2; RDKit's default aromaticity
# model calls them aromatic), written in Kekule form and with lower-case letters; alone, fused to benzene, substituted,
# as one fragment of a multi-fragment molecule; next to six-membered aromatics that both sides call aromatic
HETERO5 = ['{[#A]}.{#A=C1=CNC=C1}', '{[#A]}.{#A=c1cc[nH]c1}', '{[#A]}.{#A=c1cnc[nH]1}', '{[#A]}.{#A=C1=COC=C1}',
           '{[#A]}.{#A=C1=CSC=C1}', '{[#A]}.{#A=C1=CN=CN1}', '{[#A]}.{#A=C1=COC=N1}', '{[#A]}.{#A=c1ccc2[nH]ccc2c1}',
           '{[#A]}.{#A=C1=CC2=CC=CC=C2N1}', '{[#A]}.{#A=CC1=CC=C(C)O1}', '{[#A][#B]}.{#A=[$]CC,#B=[$]C1=CC=CO1}',
           '{[#A][#B]}.{#A=[$]c1ccccc1,#B=[$]C1=CC=CS1}', '{[#A][#B][#A]}.{#A=[$]C1=CC=CN1,#B=[$]CC[$]}',
           '{[#A][#B]}.{#A=[$]C(=O)O,#B=[$]C1=CNC=C1}', '{[#A]}.{#A=c1ccncc1}', '{[#A]}.{#A=c1ccc2ccccc2c1}',
           '{[#A]}.{#A=Cn1cccc1}', '{[#A]}.{#A=C1=CC=CC1}']


def rand_cgsmiles(rng, small=True):
    """a random resolvable CGsmiles string: chain with optional branch, terminals closed"""
    r = rng.random()
    if r < 0.1:
        return rng.choice(ZERO_W)
    if r < 0.2:
        return rng.choice(FIXED)
    if r < 0.3:
        return rng.choice(MULTI)
    if r < 0.38:
        return rng.choice(ZERO_BOND)
    if r < 0.46:
        return rng.choice(HETERO5)
    nmid = rng.randint(0, 2 if small else 4)
    frags = {}
    names = []

    def name_for(smi):
        for k, v in frags.items():
            if v == smi:
                return k
        k = 'F%d' % len(frags)
        frags[k] = smi
        return k
    t1 = name_for(rng.choice(TERMINAL))
    body = '[#%s]' % t1
    for _ in range(nmid):
        if rng.random() < 0.25:
            m = name_for(rng.choice(THREE))
            br = name_for(rng.choice(TERMINAL))
            body += '[#%s]([#%s])' % (m, br)
        else:
            body += '[#%s]' % name_for(rng.choice(MIDDLE))
    body += '[#%s]' % name_for(rng.choice(TERMINAL))
    return '{%s}.{%s}' % (body, ','.join('#%s=%s' % kv for kv in frags.items()))


def resolve(s):
    from cgsmiles.resolve import MoleculeResolver
    cg, aa = MoleculeResolver.from_string(s).resolve_all()
    return cg, aa


def reorder(G, order):
    """same graph, nodes inserted in the given order (edges in the old edge order)"""
    H = nx.Graph()
    for n in order:
        H.add_node(n, **copy.deepcopy(G.nodes[n]))
    for u, v, d in G.edges(data=True):
        H.add_edge(u, v, **copy.deepcopy(d))
    return H


def apply_variant(G, variant, perm):
    """node orderings / relabelings of a molecule graph; perm: list of ints (meaning depends on variant)"""
    nodes = list(G.nodes)
    if variant == 'asis':
        return copy.deepcopy(G)
    if variant == 'sorted':
        return reorder(G, sorted(nodes))
    if variant == 'shuffled_order':
        return reorder(G, [nodes[i] for i in perm])
    if variant == 'permuted_keys':          # relabel_nodes(copy=True) keeps the old iteration order
        return nx.relabel_nodes(copy.deepcopy(G), {n: sorted(nodes)[perm[i]] for i, n in enumerate(sorted(nodes))}, copy=True)
    if variant == 'permuted_sorted':        # keys permuted, then inserted in key order: 0..n-1 again
        H = nx.relabel_nodes(copy.deepcopy(G), {n: sorted(nodes)[perm[i]] for i, n in enumerate(sorted(nodes))}, copy=True)
        return reorder(H, sorted(H.nodes))
    if variant == 'offset':
        H = nx.relabel_nodes(copy.deepcopy(G), {n: n + perm[0] for n in nodes}, copy=True)
        return reorder(H, sorted(H.nodes))
    if variant == 'implicit_h':             # hydrogens folded into hcount, heavy atoms renumbered 0..m-1 in order
        from pysmiles.smiles_helper import remove_explicit_hydrogens
        H = copy.deepcopy(G)
        remove_explicit_hydrogens(H)
        keep = sorted(H.nodes)
        H = nx.relabel_nodes(H, {n: i for i, n in enumerate(keep)}, copy=True)
        return reorder(H, sorted(H.nodes))
    if variant == 'implicit_h_asis':        # hydrogens folded into hcount, keys and order as left by the resolver
        from pysmiles.smiles_helper import remove_explicit_hydrogens
        H = copy.deepcopy(G)
        remove_explicit_hydrogens(H)
        return H
    raise ValueError(variant)


VARIANTS = ['asis', 'sorted', 'shuffled_order', 'permuted_keys', 'permuted_sorted', 'offset', 'implicit_h',
            'implicit_h_asis']


class ChemProxy:
    """stands for the name `Chem` inside cgsmiles.rdkit during one call: records what AddHs returned"""
    def __init__(self, real, rec):
        self._real, self._rec = real, rec

    def __getattr__(self, name):
        return getattr(self._real, name)

    def AddHs(self, mol, *a, **k):
        out = self._real.AddHs(mol, *a, **k)
        self._rec['rd'] = out
        return out


def total_h(G, n):
    return int(G.nodes[n].get('hcount', 0)) + sum(1 for m in G[n] if G.nodes[m].get('element') == 'H')


def atom_table(G):
    return [[n, str(G.nodes[n].get('element')), int(G.nodes[n].get('charge', 0)), total_h(G, n)] for n in G.nodes]


def edge_table(G):
    return [[u, v, int(round(d.get('order', 1) * 2))] for u, v, d in G.edges(data=True)]


def atom_of_position(rd, p):
    conf = rd.GetConformer()
    for i in range(rd.GetNumAtoms()):
        q = conf.GetAtomPosition(i)
        if q.x == p[0] and q.y == p[1] and q.z == p[2]:
            return i
    return rd.GetNumAtoms()      # the position of no atom


def canon_atoms(rd):
    """atom i -> first atom with exactly the same coordinates.  RDKit embeds disconnected fragments independently,
    so identical fragments (and single atoms) can coincide: atoms are identified only up to equal coordinates."""
    if rd.GetNumConformers() == 0:
        return list(range(rd.GetNumAtoms()))
    conf = rd.GetConformer()
    seen, out = {}, []
    for i in range(rd.GetNumAtoms()):
        q = conf.GetAtomPosition(i)
        out.append(seen.setdefault((q.x, q.y, q.z), i))
    return out


def fhex(x):
    x = float(x)
    if x != x:
        return 'nan'
    if x in (float('inf'), float('-inf')):
        return 'infinity' if x > 0 else 'neg_infinity'
    h = x.hex()
    return '(%s)%%float' % h if not h.startswith('-') else '(-%s)%%float' % h[1:]


def v3(p):
    return '(%s, %s, %s)' % (fhex(p[0]), fhex(p[1]), fhex(p[2]))


class C18(common.Prop):
    id = 'C18'
    level = 'proof'
    technique = ('Coq proofs about the index plumbing (IndexMap), the bead average (ForwardMap, over Q) on models '
                 'parametrised by facts regenerated from rdkit.py/coordinates.py on every run; per-run correspondence '
                 'with the implementation (recorded RDKit atom indices, float64 bit for bit); RDKit chemistry and '
                 'embedding are executed oracles only')
    vo_deps = ['theories/Geom/CoordCheck.vo']
    prop_file = 'theories/Properties/C18.v'
    case_requires = ('From Coq Require Import String.\nFrom Coq Require Import List Ascii ZArith Bool PrimFloat.\n'
                     'From CGV Require Import Base.PyBase Geom.Num Geom.CoordCheck.')
    quick_cases = 400
    thorough_cases = 4000
    extended_cases = 300
    shard = 40
    fail_text = {1: 'embed_3d_via_rdkit raised an exception while writing the positions back',
                 2: 'a node has no position after embedding',
                 3: 'a node carries the position of an RDKit atom that is not its own',
                 4: 'a bonded pair is not at bonding distance after embedding',
                 5: 'element / charge / bond order / hydrogen count changed through networkx_to_rdkit + rdkit_to_networkx',
                 6: 'rdkit_to_networkx raised an exception for a molecule with a conformer',
                 7: 'rdkit_to_networkx put a conformer position on the wrong node (or none)',
                 8: 'the round trip raised an exception for a molecule without conformer',
                 9: 'forward_map_molecule raised an exception',
                 10: 'a coarse node has no position after forward mapping',
                 11: 'translating the atoms does not translate the beads by the same vector',
                 12: 'a bead depends on atoms that are not its own',
                 13: 'a bead is not the weight-normalised average of its atoms'}

    # ------------------------------------------------------------------ inputs
    def corpus(self, ctx):
        return [
            {'kind': 'embed', 's': '{[#A][#B]}.{#A=[$]CO,#B=[$]CC}', 'variant': 'asis', 'perm': []},
            {'kind': 'embed', 's': '{[#A][#B]}.{#A=[$]CO,#B=[$]CC}', 'variant': 'sorted', 'perm': []},
            {'kind': 'embed', 's': '{[#A]}.{#A=CCO}', 'variant': 'offset', 'perm': [5]},
            {'kind': 'embed', 's': '{[#A]}.{#A=CCO}', 'variant': 'implicit_h', 'perm': []},
            {'kind': 'embed', 's': '', 'smiles': 'CCO.O', 'variant': 'asis', 'perm': []},
            {'kind': 'embed', 's': '', 'smiles': 'CC(=O)[O-].[Na+]', 'variant': 'asis', 'perm': []},
            {'kind': 'embed', 's': '{[#A].[#B]}.{#A=CCO,#B=O}', 'variant': 'implicit_h', 'perm': []},
            {'kind': 'embed', 's': '{[#A].[#B]}.{#A=CCO,#B=O}', 'variant': 'sorted', 'perm': []},
            {'kind': 'round', 's': '{[#A]}.{#A=CCO}', 'variant': 'asis', 'perm': [], 'conf': True, 'seed': 7},
            {'kind': 'round', 's': HETERO5[0], 'variant': 'asis', 'perm': [], 'conf': False, 'seed': 7},
            {'kind': 'round', 's': HETERO5[3], 'variant': 'sorted', 'perm': [], 'conf': False, 'seed': 7},
            {'kind': 'round', 's': HETERO5[7], 'variant': 'asis', 'perm': [], 'conf': True, 'seed': 7},
            {'kind': 'round', 's': HETERO5[11], 'variant': 'implicit_h', 'perm': [], 'conf': False, 'seed': 7},
            {'kind': 'round', 's': HETERO5[14], 'variant': 'asis', 'perm': [], 'conf': False, 'seed': 7},
            {'kind': 'embed', 's': HETERO5[0], 'variant': 'asis', 'perm': []},
            {'kind': 'embed', 's': HETERO5[10], 'variant': 'asis', 'perm': []},
            {'kind': 'round', 's': ZERO_BOND[0], 'variant': 'asis', 'perm': [], 'conf': False, 'seed': 7},
            {'kind': 'round', 's': ZERO_BOND[1], 'variant': 'asis', 'perm': [], 'conf': False, 'seed': 7},
            {'kind': 'round', 's': ZERO_BOND[2], 'variant': 'sorted', 'perm': [], 'conf': False, 'seed': 7},
            {'kind': 'round', 's': ZERO_BOND[4], 'variant': 'asis', 'perm': [], 'conf': False, 'seed': 7},
            {'kind': 'round', 's': ZERO_BOND[5], 'variant': 'asis', 'perm': [], 'conf': True, 'seed': 7},
            {'kind': 'round', 's': ZERO_BOND[6], 'variant': 'implicit_h', 'perm': [], 'conf': False, 'seed': 7},
            {'kind': 'round', 's': '{[#A]}.{#A=CCO}', 'variant': 'asis', 'perm': [], 'conf': False, 'seed': 7},
            {'kind': 'round', 's': '{[#A][#B]}.{#A=[$]CO,#B=[$]CC}', 'variant': 'asis', 'perm': [], 'conf': False, 'seed': 7},
            {'kind': 'fwd', 's': '{[#A][#B]}.{#A=[$]C[O;w=0.5],#B=[$][C;w=2]C}', 'weights': None, 'seed': 3,
             't': [1.0, -2.0, 0.5], 'own': 0},
            {'kind': 'fwd', 's': '{[#A][#B]}.{#A=[$]CO,#B=[$]CC}', 'weights': None, 'seed': 3,
             't': [1.0, -2.0, 0.5], 'own': 1},
            {'kind': 'fwd', 's': '{[#A][#B]}.{#A=[$]C[O;w=0.5],#B=[$][C;w=2]C}', 'weights': None, 'seed': 5, 'embed_first': True,
             't': [1.0, -2.0, 0.5], 'own': 1},
            {'kind': 'fwd', 's': '{[#A][#B]}.{#A=OC[!],#B=[!]CC}', 'weights': 'random', 'seed': 6, 'embed_first': True,
             't': [0.0, 3.0, 0.0], 'own': 0},
            {'kind': 'fwd', 's': OWN_H[0], 'weights': None, 'seed': 12, 't': [1.0, 2.0, 3.0], 'own': 1},
            {'kind': 'fwd', 's': OWN_H[0], 'weights': None, 'seed': 13, 't': [0.0, -2.0, 1.5], 'own': 2, 'embed_first': True},
            {'kind': 'fwd', 's': OWN_H[1], 'weights': None, 'seed': 14, 't': [1.0, 2.0, 3.0], 'own': 0},
            {'kind': 'fwd', 's': OWN_H[1], 'weights': None, 'seed': 15, 't': [-1.0, 0.5, 0.0], 'own': 1, 'embed_first': True},
            {'kind': 'fwd', 's': OWN_H[5], 'weights': None, 'seed': 16, 't': [2.0, 2.0, 2.0], 'own': 0},
            {'kind': 'fwd', 's': ZERO_W[0], 'weights': None, 'seed': 8, 't': [1.0, 2.0, -0.5], 'own': 0},
            {'kind': 'fwd', 's': ZERO_W[1], 'weights': None, 'seed': 9, 't': [-3.0, 0.0, 0.25], 'own': 0},
            {'kind': 'fwd', 's': ZERO_W[2], 'weights': None, 'seed': 10, 't': [0.5, 0.5, 0.5], 'own': 1, 'embed_first': True},
            {'kind': 'fwd', 's': ZERO_W[7], 'weights': None, 'seed': 11, 't': [4.0, -1.0, 0.0], 'own': 1},
            {'kind': 'fwd', 's': '{[#A][#B]}.{#A=OC[!],#B=[!]CC}', 'weights': None, 'seed': 4, 't': [10.0, 0.0, -3.25], 'own': 0},
        ]

    def generate(self, ctx, n):
        rng = ctx.rng
        out = []
        for _ in range(n):
            r = rng.random()
            s = rand_cgsmiles(rng, small=not ctx.thorough())
            if r < 0.4:
                variant = rng.choice(VARIANTS)
                perm = list(range(64))
                rng.shuffle(perm)
                if variant == 'offset':
                    perm = [rng.choice([1, 2, 7, 100])]
                c = {'kind': 'embed', 's': s, 'variant': variant, 'perm': perm}
                if rng.random() < 0.25:
                    c['s'], c['smiles'] = '', rng.choice(SMILES)
                out.append(c)
            elif r < 0.65:
                variant = rng.choice(VARIANTS)
                perm = list(range(64))
                rng.shuffle(perm)
                if variant == 'offset':
                    perm = [rng.choice([1, 2, 7, 100])]
                c = {'kind': 'round', 's': s, 'variant': variant, 'perm': perm, 'conf': rng.random() < 0.4,
                     'seed': rng.randrange(1, 10 ** 6)}
                if rng.random() < 0.25:
                    c['s'], c['smiles'] = '', rng.choice(SMILES)
                out.append(c)
            else:
                mode = rng.choice(['unit', 'unit', 'random', 'random', 'balanced'])
                r2 = rng.random()
                if r2 < 0.2:
                    s, mode = rng.choice(ZERO_W), 'unit'        # the weights the string wrote, some of them 0
                elif r2 < 0.4:
                    s = rng.choice(OWN_H)                       # hydrogens of another bead bonded to this bead's atoms
                out.append({'kind': 'fwd', 's': s, 'embed_first': rng.random() < 0.35, 'weights': mode if mode != 'unit' else None,
                            'seed': rng.randrange(10 ** 6),
                            't': [rng.choice([0.0, 1.0, -2.5, rng.uniform(-50, 50)]) for _ in range(3)],
                            'own': rng.randrange(8)})
        return out

    @staticmethod
    def _perm(case, n):
        p = [x for x in case['perm'] if x < n]
        return p if len(p) == n else list(range(n))

    # ------------------------------------------------------------------ implementation
    def run_impl(self, case):
        try:
            if case.get('smiles'):
                # disjoint union of the components' pysmiles graphs (read_smiles itself would join the components
                # by a zero-order edge, on which RDKit's UFF refuses to work): keys 0..n-1 in order, implicit H
                import pysmiles
                parts = [pysmiles.read_smiles(x) for x in case['smiles'].split('.')]
                aa = parts[0]
                for h in parts[1:]:
                    aa = nx.disjoint_union(aa, h)
                cg = None
            else:
                cg, aa = resolve(case['s'])
        except Exception as exc:
            return {'skip': 'resolve:' + type(exc).__name__}
        kind = case['kind']
        if kind == 'fwd':
            return self._run_fwd(case, cg, aa)
        variant = case['variant']
        try:
            G = apply_variant(aa, variant, self._perm(case, len(aa)) if variant != 'offset' else case['perm'])
        except Exception as exc:
            return {'skip': 'variant:' + type(exc).__name__}
        return self._run_embed(case, G) if kind == 'embed' else self._run_round(case, G)

    def _run_embed(self, case, G):
        import cgsmiles.rdkit as cr
        rec = {}
        real_chem, real_n2r = cr.Chem, cr.networkx_to_rdkit

        def n2r(mol_graph):
            rec['nodes'] = list(mol_graph.nodes)
            return real_n2r(mol_graph)
        cr.Chem = ChemProxy(real_chem, rec)
        cr.networkx_to_rdkit = n2r
        exc = 0
        try:
            cr.embed_3d_via_rdkit(G)
        except KeyError:
            exc = 1
        except Exception as e:
            exc = 2
            rec['exc'] = type(e).__name__
        finally:
            cr.Chem, cr.networkx_to_rdkit = real_chem, real_n2r
        rd = rec.get('rd')
        if rd is None or exc == 2 or (exc == 1 and rd.GetNumConformers() == 0):
            # RDKit refused / failed before the write-back loop: third-party failure, not judged here
            return {'skip': 'rdkit:' + rec.get('exc', 'no-conformer')}
        nodes = rec['nodes']
        out = {'nodes': nodes, 'nrd': rd.GetNumAtoms(), 'exc': exc}
        # a changed implementation may keep the coordinates elsewhere than in the conformer of the molecule
        # returned by AddHs: then the atom identification is unavailable and only the executed clauses
        # (every node has a position, bonding distances) are judged
        out['obs_known'] = rd.GetNumConformers() > 0
        out['canon'] = canon_atoms(rd)
        obs, pos = [], []
        if exc == 0:
            for n in G.nodes:
                p = G.nodes[n].get('position')
                if p is not None:
                    if out['obs_known']:
                        obs.append([n, atom_of_position(rd, p)])
                    pos.append([n, [float(x) for x in p]])
        out['obs'], out['pos'] = obs, pos
        out['bonds'] = [[u, v, 'H' in (G.nodes[u].get('element'), G.nodes[v].get('element'))]
                        for u, v, d in G.edges(data=True) if d.get('order', 1) > 0]
        return out

    def _run_round(self, case, G):
        from rdkit import Chem
        from rdkit.Chem import AllChem
        import cgsmiles.rdkit as cr
        out = {'conf': bool(case['conf']), 'nodes': list(G.nodes), 'orig_atoms': atom_table(G), 'orig_edges': edge_table(G),
               'out_atoms': [], 'out_edges': [], 'out_pos': [], 'exc': 0, 'canon': list(range(len(G)))}
        try:
            rd = cr.networkx_to_rdkit(G)
        except Exception as e:
            out['exc'], out['exc_name'] = 2, 'networkx_to_rdkit:' + type(e).__name__
            return out
        if case['conf']:
            rd = Chem.Mol(rd)
            try:
                ok = AllChem.EmbedMolecule(rd, randomSeed=int(case['seed']))
            except Exception:
                ok = -1
            if ok != 0 or rd.GetNumConformers() == 0:
                return {'skip': 'rdkit:no-conformer'}
        out['canon'] = canon_atoms(rd)
        try:
            H = cr.rdkit_to_networkx(rd)
        except NameError as e:
            out['exc'], out['exc_name'] = 1, 'NameError'
            return out
        except Exception as e:
            out['exc'], out['exc_name'] = 2, 'rdkit_to_networkx:' + type(e).__name__
            return out
        out['out_atoms'] = atom_table(H)
        out['out_edges'] = edge_table(H)
        if case['conf']:
            out['out_pos'] = [[n, atom_of_position(rd, H.nodes[n]['position'])] for n in H.nodes if 'position' in H.nodes[n]]
        return out

    def _run_fwd(self, case, cg, aa):
        import random
        from cgsmiles.coordinates import forward_map_molecule
        rng = random.Random(case['seed'])
        beads_g = [(b, cg.nodes[b].get('graph')) for b in cg.nodes]
        if any(g is None for _, g in beads_g):
            return {'skip': 'no-graph-attribute'}
        if case.get('weights') == 'random':
            for _, g in beads_g:
                for a in g.nodes:
                    g.nodes[a]['weight'] = rng.choice(WEIGHTS)
        elif case.get('weights') == 'balanced':       # weights != 1 whose sum equals their number
            for _, g in beads_g:
                ns = list(g.nodes)
                for a in ns:
                    g.nodes[a]['weight'] = 1
                if len(ns) >= 2:
                    g.nodes[ns[0]]['weight'], g.nodes[ns[-1]]['weight'] = 0.5, 1.5
        # the weights the STRING wrote, read independently of how the implementation reads them: every atom of the
        # bead's fragment graph counts; a heavy atom has its annotated weight (default 1), a hydrogen the weight of the
        # atom it is bonded to (C09: hydrogens inherit from their anchor).  With harness-assigned weights
        # ('random' / 'balanced') the assigned values are used as they are.
        def string_weight(g, a):
            d = g.nodes[a]
            if case.get('weights') in ('random', 'balanced'):
                return d.get('weight', 1)
            if d.get('element') == 'H' and 'weight' not in d:      # an explicitly written [H;w=..] keeps its own weight
                anchors = [x for x in aa[a] if aa.nodes[x].get('element') != 'H'] if a in aa else []
                if len(anchors) == 1:
                    ad = g.nodes[anchors[0]] if anchors[0] in g else aa.nodes[anchors[0]]
                    return ad.get('weight', 1)
            return d.get('weight', 1)
        beads = [[b, [[a, float(string_weight(g, a))] for a in g.nodes]] for b, g in beads_g]
        # CPython's sum() treats ints and floats differently (ints exactly / plainly, floats compensated)
        ints = [[isinstance(string_weight(g, a), int) and not isinstance(string_weight(g, a), bool) for a in g.nodes]
                for _, g in beads_g]
        if any(len(ws) == 0 or any(w < 0 for _, w in ws) or sum(w for _, w in ws) <= 0 for _, ws in beads):
            return {'skip': 'empty-negative-or-all-zero-weights'}     # outside the property's domain
        pos0 = {a: np.array([rng.uniform(-20, 20) for _ in range(3)]) for a in aa.nodes}
        t = np.array([float(x) for x in case['t']])
        own = list(cg.nodes)[case['own'] % len(cg)]
        own_atoms = set(cg.nodes[own]['graph'].nodes)

        history = []
        if case.get('embed_first'):
            # HISTORY on one pair of objects: embed (positions from RDKit), then move the atoms, then forward map
            # again: the beads must follow the CURRENT atom positions
            from cgsmiles.coordinates import embedd_cg_molecule_via_rdkit
            try:
                embedd_cg_molecule_via_rdkit(cg, aa)
            except Exception as exc:
                return {'skip': 'rdkit:embed-first:' + type(exc).__name__}
            if set(aa.nodes) != set(pos0):
                pos0 = {a: np.array([rng.uniform(-20, 20) for _ in range(3)]) for a in aa.nodes}
            history = ['embedd_cg_molecule_via_rdkit(cg, aa)', 'assign new positions to aa',
                       'forward_map_molecule(cg, aa)  <- judged (out)', 'translate aa by t', 'forward_map_molecule  <- judged (out_t)',
                       'move atoms outside bead own', 'forward_map_molecule  <- judged (out_p)']

        def run(posd):
            for a in aa.nodes:
                aa.nodes[a]['position'] = posd[a].copy()
            for b in cg.nodes:
                cg.nodes[b].pop('position', None)
            forward_map_molecule(cg, aa)
            return [[b, [float(x) for x in cg.nodes[b]['position']]] for b in cg.nodes if 'position' in cg.nodes[b]]
        out = {'beads': beads, 'ints': ints, 'pos': [[a, [float(x) for x in p]] for a, p in pos0.items()], 't': [float(x) for x in t],
               'own': own, 'exc': 0, 'out': [], 'out_t': [], 'out_p': [], 'history': history}
        try:
            out['out'] = run(pos0)
            out['out_t'] = run({a: p + t for a, p in pos0.items()})
            out['out_p'] = run({a: (p if a in own_atoms else p * 3.0 + 7.0) for a, p in pos0.items()})
        except KeyError:
            out['exc'] = 1
        except Exception as e:
            out['exc'], out['exc_name'] = 2, type(e).__name__
        return out

    # ------------------------------------------------------------------ second oracle (model not buildable)
    def python_oracle(self, case, impl):
        """mirror of Geom/CoordCheck.prop_fail, used only when the Coq side cannot be built (e.g. the generator
        failed closed on a changed source): keeps the search for a failing input alive"""
        if 'skip' in impl:
            return 0
        k = case['kind']
        close = lambda a, b: all(abs(x - y) <= 1e-9 * (1 + abs(x) + abs(y)) for x, y in zip(a, b))
        if k == 'embed':
            if impl['exc']:
                return 1
            pos = dict((a, p) for a, p in impl['pos'])
            if any(n not in pos for n in impl['nodes']):
                return 2
            own = {n: i for i, n in enumerate(impl['nodes'])}
            obs = dict((a, i) for a, i in impl['obs'])
            cn = impl['canon']
            if impl.get('obs_known', True) and any(obs.get(n) != cn[own[n]] for n in impl['nodes']):
                return 3
            for u, v, h in impl['bonds']:
                d2 = sum((a - b) ** 2 for a, b in zip(pos[u], pos[v]))
                lo, hi = (0.7225, 1.69) if h else (0.81, 4.0)
                if not (lo <= d2 <= hi):
                    return 4
            return 0
        if k == 'round':
            if impl['exc']:
                return 6 if impl['conf'] else 8
            idx = {n: i for i, n in enumerate(impl['nodes'])}
            ra = {n: (e, q, h) for n, e, q, h in impl['out_atoms']}
            ok = len(ra) == len(impl['orig_atoms']) and len(impl['out_edges']) == len(impl['orig_edges'])
            ok = ok and all(ra.get(idx[n]) == (e, q, h) for n, e, q, h in impl['orig_atoms'])
            re_ = {(frozenset((i, j)), o) for i, j, o in impl['out_edges']}
            ok = ok and all((frozenset((idx[u], idx[v])), o) in re_ for u, v, o in impl['orig_edges'])
            if not ok:
                return 5
            if impl['conf']:
                op = dict((a, i) for a, i in impl['out_pos'])
                if any(op.get(n) != impl['canon'][n] for n in ra):
                    return 7
            return 0
        if impl['exc']:
            return 9
        out, out_t, out_p = (dict((b, p) for b, p in impl[x]) for x in ('out', 'out_t', 'out_p'))
        if any(b not in out or b not in out_t for b, _ in impl['beads']):
            return 10
        t = impl['t']
        if any(not close(out_t[b], [x + y for x, y in zip(out[b], t)]) for b, _ in impl['beads']):
            return 11
        if impl['own'] not in out_p or out_p[impl['own']] != out[impl['own']]:
            return 12
        pos = dict((a, p) for a, p in impl['pos'])
        for b, ws in impl['beads']:
            sw = sum(w for _, w in ws)
            avg = [sum(pos[a][i] * w for a, w in ws) / sw for i in range(3)]
            if not close(out[b], avg):
                return 13
        return 0

    # ------------------------------------------------------------------ bookkeeping
    def nontrivial(self, case, impl):
        return 'skip' not in impl

    def case_class(self, case, impl):
        if 'skip' in impl:
            return 'skipped:' + impl['skip']
        k = case['kind']
        if k == 'embed':
            inorder = impl['nodes'] == list(range(len(impl['nodes'])))
            return 'embed:%s:%s' % (case['variant'], 'keys-in-order' if inorder else 'keys-not-in-order')
        if k == 'round':
            return 'round:%s:%s' % (case['variant'], 'conformer' if case['conf'] else 'no-conformer')
        w1 = all(w == 1 for _, ws in impl['beads'] for _, w in ws)
        if any(w == 0 for _, ws in impl['beads'] for _, w in ws):
            return 'fwd:zero-weights%s' % (':history-embed-first' if case.get('embed_first') else '')
        return 'fwd:%s%s' % ('unit-weights' if w1 else 'weights', ':history-embed-first' if case.get('embed_first') else '')

    def known_class(self, case, impl, code):
        if 'skip' in impl:
            return None
        k = case['kind']
        if k == 'embed' and code in (1, 2, 3, 4) and impl['nodes'] != list(range(len(impl['nodes']))):
            return 'embed_index_not_key'
        if k == 'round' and code == 6 and impl['conf'] and impl['exc'] == 1:
            return 'r2n_conformer_unbound_name'
        if k == 'fwd' and code in (11, 13) and any(w != 1 for _, ws in impl['beads'] for _, w in ws):
            return 'fwd_weights_not_normalised'
        if k == 'round' and code == 5 and impl['exc'] == 0:
            # atoms unchanged, same bonds, and every changed order goes from localized (1 or 2) to aromatic (1.5):
            # Chem.SanitizeMol re-perceived aromaticity with RDKit's model
            idx = {n: i for i, n in enumerate(impl['nodes'])}
            oe = {frozenset((idx[u], idx[v])): o for u, v, o in impl['orig_edges']}
            re_ = {frozenset((u, v)): o for u, v, o in impl['out_edges']}
            atoms = sorted([idx[n], e, q, h] for n, e, q, h in impl['orig_atoms']) == sorted(list(a) for a in impl['out_atoms'])
            diffs = [(oe[e], re_.get(e)) for e in oe if oe[e] != re_.get(e)]
            if atoms and set(oe) == set(re_) and diffs and all(a in (2, 4) and b == 3 for a, b in diffs):
                return 'rdkit_reperceives_aromaticity'
        return None

    def coq_case(self, case, impl):
        if 'skip' in impl:
            return 'CSkip'
        k = case['kind']
        zl = lambda xs: lit.lst([lit.z(x) for x in xs])
        if k == 'embed':
            return ('(CEmbed %s %s %s %s %s %s %s)' % (
                zl(impl['nodes']), lit.nat(impl['nrd']), lit.lst([lit.nat(i) for i in impl['canon']]), lit.nat(impl['exc']),
                lit.lst([lit.pair(lit.z(a), lit.nat(i)) for a, i in impl['obs']]),
                lit.lst(['(%s, %s, %s)' % (lit.z(u), lit.z(v), lit.b(h)) for u, v, h in impl['bonds']]),
                lit.lst([lit.pair(lit.z(a), v3(p)) for a, p in impl['pos']])))
        if k == 'round':
            at = lambda t: lit.lst(['(%s, (%s, %s, %s))' % (lit.z(n), lit.s(e), lit.z(q), lit.z(h)) for n, e, q, h in t])
            ed = lambda t: lit.lst(['(%s, %s, %s)' % (lit.z(u), lit.z(v), lit.z(o)) for u, v, o in t])
            return ('(CRound %s %s %s %s %s %s %s %s %s)' % (
                lit.b(impl['conf']), zl(impl['nodes']), lit.nat(impl['exc']), at(impl['orig_atoms']), ed(impl['orig_edges']),
                at(impl['out_atoms']), ed(impl['out_edges']), lit.lst([lit.nat(i) for i in impl['canon']]),
                lit.lst([lit.pair(lit.z(a), lit.nat(i)) for a, i in impl['out_pos']])))
        bl = lambda t: lit.lst([lit.pair(lit.z(b), v3(p)) for b, p in t])
        return ('(CFwd %s %s %s %s %s %s %s %s %s)' % (
            lit.lst([lit.pair(lit.z(b), lit.lst([lit.pair(lit.z(a), fhex(w)) for a, w in ws])) for b, ws in impl['beads']]),
            lit.lst([lit.lst([lit.b(x) for x in row]) for row in impl.get('ints', [])]),
            bl(impl['pos']), v3(impl['t']), lit.nat(impl['exc']), bl(impl['out']), bl(impl['out_t']), lit.z(impl['own']),
            bl(impl['out_p'])))


def drop_stale_gen():
    """The framework removes theories/Gen/GeomGen.v when tools/gen_geom.py fails closed, but compiled files of an
    earlier run would keep the OLD model alive (make sees nothing to do).  Remove GeomGen.vo and everything of
    this component that was compiled against it, so that the failure surfaces as a broken obligation."""
    import glob
    import os
    with common.BuildLock():
        st = common.regenerate()
        if st.get('GeomGen', {}).get('ok'):
            return
        pats = ['theories/Gen/GeomGen.*', 'theories/Geom/*.vo', 'theories/Geom/*.vos', 'theories/Geom/*.vok',
                'theories/Geom/*.glob', 'theories/Properties/C18.vo*', 'theories/Properties/C19.vo*',
                'theories/Properties/C18.glob', 'theories/Properties/C19.glob']
        for pat in pats:
            for f in glob.glob(os.path.join(common.VERIF, pat)):
                if not f.endswith('/Num.vo') and not f.endswith('GeomGen.v'):
                    try:
                        os.remove(f)
                    except OSError:
                        pass


def run(prop, ctx):
    drop_stale_gen()
    return common.run_prop(prop, ctx)


PROP = C18()
