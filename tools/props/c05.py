"""C05 — the multiplication operator is shorthand for writing the unit out (metamorphic).
The implementation reads the shorthand `print a` and the longhand `print (expand a)`; the Coq oracle
`prop_fail5` (theories/Reader/ReaderCheck.v) checks, on the IMPLEMENTATION's two outputs, that they
are the same graph under a renumbering (the witness is found here, CHECKED in Coq; identity is
required when only nodes are multiplied).  The reader model is compared with the implementation on
both strings (correspondence)."""
import common
import grammar as G
import lit
from props import c04 as R

CLASSES_C05 = {4: 'ring_in_unit', 5: 'nested_in_unit'}   # stale_recipe (10) is repaired in the code


_ORD = {'.': 0, '-': 1, '=': 2, '#': 3, '$': 4}


def _oord(sym):
    return _ORD[sym] if sym is not None else 1


def _g_chain(chain):
    """mirror of UnitsDefs.g_chain: flat segments; None when the shape is not expressible"""
    out = []
    for it in chain:
        out.append({'k': 'P', 'open': False, 'n': it['n'], 'm': it['m'], 'r': it['r'], 'b': it['b'], 'cl': []})
        pending = it['b']
        for j, br in enumerate(it['br']):
            if not br['c']:
                return None
            if br['m'] is None:
                w = _g_chain(br['c'])
                if w is None:
                    return None
                w[0]['open'] = True
                w[-1]['cl'] = w[-1]['cl'] + [br['a']]
                out += w
            else:
                if any(x['r'] or x['br'] for x in br['c']):
                    return None
                if int(br['m']) >= 2 and j == 0 and it['r']:
                    return None
                out.append({'k': 'U', 'n': it['n'], 'b': pending, 'body': br['c'], 'ms': br['ms'], 'm': br['m'],
                            'a': br['a'], 'cl': []})
            pending = br['a']
    return out


def units_test(a):
    """mirror of ReaderCheck.units_test (UnitsDefs.units_ok without the name conditions): the decidable side
    condition of C05_branch_ast_partial - where it holds the reader is PROVED right"""
    segs = _g_chain(a) if a else None
    if segs is None:
        return False
    md, cur, pend, names = 'clean', None, 1, []

    def pops(cl):
        nonlocal cur, pend, names
        for c in cl:
            if not names:
                return False
            cur, pend, names = names[0], _oord(c), names[1:]
        return True
    for s in segs:
        cl = s['cl']
        if any(c is not None for c in cl[:-1]):
            return False
        if s['k'] == 'P':
            if cl and s['b'] is not None:
                return False
            if s['open']:
                if cur is None:
                    return False
                names = [cur] + names
                md1 = 'dirty' if md == 'dirty' else 'clean'
            else:
                md1 = 'clean' if md == 'clean' else 'dirty'
            cur, pend = s['n'], _oord(s['b'])
            if not pops(cl):
                return False
            if cl:
                md = 'clean' if not names else ('sib' if (md1 == 'clean' and len(cl) == 1) else 'dirty')
            else:
                md = md1
        else:
            if cur != s['n'] or pend != _oord(s['b']):   # any state of the recipe table (since fix ee9caf1)
                return False
            if s['body'][-1]['b'] is not None or int(s['m']) < 1 or (cl and s['a'] is not None):
                return False
            cur, pend = s['n'], _oord(s['a'])
            if not pops(cl):
                return False
            md = 'clean' if not names else 'dirty'
    return True


def py_class(a, braces=True):
    """mirror of ReaderCheck.class_C05 (only used to steer the generators; the verdict uses the Coq predicates)"""
    if units_test(a):
        return 0
    its = list(G.items_in_order(a))
    sites = [(it, j, br) for it in its for j, br in enumerate(it['br'])]
    mval = lambda br: int(br['m']) if br['m'] is not None else 1
    for it, j, br in sites:
        unit = ([it] if j == 0 else []) + list(G.items_in_order(br['c']))
        if mval(br) >= 2 and any(u['r'] for u in unit):
            return 4
    for it, j, br in sites:
        inner = [b for u in G.items_in_order(br['c']) for b in u['br']]
        anchor0 = it is a[0] and mval(it) <= 1
        if mval(br) >= 2 and inner and (mval(br) >= 3 or anchor0 or j > 0 or len(inner) >= 2 or any(b['m'] is not None for b in inner)):
            return 5
    return 0


def find_map(short, long, identity_only):
    """renumbering shorthand-graph -> longhand-graph (a witness; it is checked in Coq)"""
    ident = [[n, n] for n, _ in short['nodes']]
    if identity_only or len(short['nodes']) != len(long['nodes']) or len(short['nodes']) > 90:
        return ident
    import networkx as nx
    from networkx.algorithms.isomorphism import GraphMatcher

    def mk(o):
        g = nx.Graph()
        for n, d in o['nodes']:
            g.add_node(n, a=tuple(sorted((k, repr(v)) for k, v in d.items())))
        for u, v, d in o['edges']:
            g.add_edge(u, v, a=tuple(sorted((k, repr(x)) for k, x in d.items())))
        return g
    gs, gl = mk(short), mk(long)
    key = lambda g: sorted((g.nodes[n]['a'], g.degree(n)) for n in g.nodes)
    if gs.number_of_edges() != gl.number_of_edges() or key(gs) != key(gl):
        return ident
    gm = GraphMatcher(gs, gl, node_match=lambda x, y: x['a'] == y['a'], edge_match=lambda x, y: x['a'] == y['a'])
    for m in gm.isomorphisms_iter():
        return [[k, v] for k, v in sorted(m.items())]
    return ident


def nested_n2(rng):
    """directed family: a branch multiplied by 2 (anchor not the first node) that contains exactly one
    nested, unmultiplied branch; node multipliers anywhere, also on the first node of the nested branch
    (the one shape of nested multiplication the unchanged code expands correctly)"""
    nm = lambda p=0.5: (G.rand_count(rng) if rng.random() < p else None)
    name = lambda: G.rand_name(rng, rng.random() < 0.3)
    sym = lambda: G.rand_sym(rng, 0.25)
    inner = [G.item(name(), m=nm(0.7))] + [G.item(name(), m=nm(0.3)) for _ in range(rng.randint(0, 2))]
    for k in range(len(inner) - 1):
        if inner[k]['m'] is None:
            inner[k]['b'] = sym()
    before = [G.item(name(), m=nm(0.2)) for _ in range(rng.randint(0, 2))]
    host = G.item(name(), br=[G.branch(inner, a=rng.choice([None, None, '-']))])
    after = [G.item(name(), m=nm(0.2)) for _ in range(rng.randint(1, 2))]
    body = before + [host] + after
    for k in range(len(body) - 1):
        if body[k]['m'] is None and not body[k]['br']:
            body[k]['b'] = rng.choice([None, None, '-'])
    anchor = G.item(name(), m=nm(0.3), br=[G.branch(body, ms=sym(), m='2')])
    pre = [G.item(name(), m=nm(0.2)) for _ in range(rng.randint(1, 2))]
    post = [G.item(name()) for _ in range(rng.randint(0, 2))]
    if post:
        anchor['br'][0]['a'] = sym()
    a = pre + [anchor] + post
    for k in range(len(pre)):
        if a[k]['m'] is None:
            a[k]['b'] = sym()
    assert G.wf(a) is None, G.print_ast(a)
    return a


def former_stale(rng):
    """directed family: the shapes of the repaired class stale_recipe (fix ee9caf1) - a multiplied branch inside
    an open branch that (0) already contains a closed branch on an earlier anchor, (1) stands behind a sibling
    branch with a nested branch, (2) stands behind a multiplied sibling branch; all inside 1-2 open branches"""
    name = lambda: G.rand_name(rng, rng.random() < 0.3)
    nd = lambda: G.item(name(), m=(G.rand_count(rng) if rng.random() < 0.2 else None))
    chain = lambda lo, hi: [nd() for _ in range(rng.randint(lo, hi))]
    mbranch = lambda: G.branch(chain(1, 2), m=G.rand_count(rng, hi=3))
    kind = rng.randint(0, 2)
    if kind == 0:
        a1 = G.item(name(), br=[G.branch(chain(1, 2))])
        a2 = G.item(name(), br=[mbranch()])
        inner = [a1] + chain(0, 1) + [a2] + chain(0, 1)
    elif kind == 1:
        b = G.item(name(), br=[G.branch(chain(1, 2))])
        a = G.item(name(), br=[G.branch([b] + chain(0, 1)), mbranch()])
        inner = chain(0, 1) + [a] + chain(0, 1)
    else:
        a = G.item(name(), br=[mbranch(), mbranch()] + ([G.branch(chain(1, 1))] if rng.random() < 0.3 else []))
        inner = chain(0, 1) + [a] + chain(0, 1)
    top = G.item(name(), br=[G.branch(inner)])
    if rng.random() < 0.3:
        top = G.item(name(), br=[G.branch(chain(0, 1) + [top] + chain(0, 1))])
    a = chain(0, 1) + [top] + chain(0, 1)
    G.place_symbols(rng, a, 0.25)
    assert G.wf(a) is None, G.print_ast(a)
    return a


def case_of(a, braces=True, mode='random'):
    return {'mode': mode, 'braces': braces, 'ast': a, 'short': G.print_ast(a, braces),
            'long': G.print_ast(G.expand(a), braces), 'judge': True}


def small_asts(thorough):
    out = list(G.enum_asts(max_nodes=3, syms=(None, '#'), max_rings=0, node_mults=('2', '3'), branch_mults=('1', '2', '3'),
                           max_mults=2 if thorough else 1))
    if thorough:
        out += list(G.enum_asts(max_nodes=4, syms=(None, '='), max_sym_slots=1, max_rings=0, node_mults=('2',),
                                branch_mults=('2', '3'), max_mults=2))
    return [a for a in out if G.has_node_mult(a) or G.has_branch_mult(a)]


class C05(common.Prop):
    id = 'C05'
    level = 'proof'
    technique = ('Coq: unbounded theorems for node multipliers and for top-level branch multipliers (same graph, same numbering as the longhand), bounded-exhaustive '
                 'theorem over enumerated small ASTs with multipliers, refutation witnesses per defect class; per-run '
                 'metamorphic check shorthand vs longhand on the implementation (renumbering witness checked in Coq) and '
                 'correspondence of the reader model on both strings')
    vo_deps = ['theories/Reader/ReaderCheck.vo']
    prop_file = 'theories/Properties/C05.v'
    case_requires = R.C04.case_requires
    case_type = 'case5'
    corr_fn = 'corr_ok5'
    fail_fn = 'prop_fail5'
    shard = 100
    quick_cases = 800
    thorough_cases = 8000
    extended_cases = 3000
    fail_text = {1: 'shorthand and longhand are read as different graphs (no renumbering / not the identity numbering)',
                 2: 'the reader raised an exception on the shorthand although the longhand is read',
                 7: 'harness error: a judged case is outside the grammar'}

    def corpus(self, ctx):
        known = common.load_known_findings()
        return [dict(f['witness']) for f in known.get('findings', []) + known.get('fixed', []) if f['property'] == self.id]

    def generate(self, ctx, n):
        rng = ctx.rng
        out = []
        if not getattr(ctx, '_small_done', False):
            ctx._small_done = True
            out += [case_of(a, True, 'exhaustive-small') for a in small_asts(ctx.thorough())]
        rnd = []
        while len(rnd) < n:
            r = rng.random()
            size = rng.choice([2, 3, 4, 6, 8])
            braces = rng.random() < 0.85
            if r < 0.12:
                a = nested_n2(rng)
                mode = 'nested-in-doubled-branch'
            elif r < 0.22:
                a = former_stale(rng)
                mode = 'former-stale-recipe'
            elif r < 0.30:
                a = G.rand_ast(rng, size=size + 2, p_nmult=0.4)
                mode = 'node-mult'
            elif r < 0.65:
                # multipliers outside the known defect classes (steered by rejection)
                for _ in range(60):
                    a = G.rand_ast(rng, size=size, p_nmult=0.15, p_bmult=0.6, rings=1, rings_in_units=False)
                    if py_class(a, braces) == 0 and G.has_branch_mult(a):
                        break
                mode = 'branch-mult-clean'
            else:
                a = G.rand_ast(rng, size=size, p_nmult=0.15, p_bmult=0.5)
                mode = 'branch-mult-any'
            if not (G.has_node_mult(a) or G.has_branch_mult(a)):
                continue
            c = case_of(a, braces, mode)
            if len(c['long']) > 500:
                continue
            rnd.append(c)
        out += rnd
        return out

    def run_impl(self, case):
        s, l = R.read(case['short']), R.read(case['long'])
        m = []
        if 'nodes' in s and 'nodes' in l:
            ident = not any(br['m'] is not None and int(br['m']) >= 2 for it in G.items_in_order(case['ast']) for br in it['br'])
            m = find_map(s, l, ident)
        return {'short': s, 'long': l, 'map': m}

    def coq_case(self, case, impl):
        return ('{| d_braces := %s; d_ast := %s; d_short := %s; d_long := %s; d_fo := %s; d_judge := %s; '
                'd_impl_short := %s; d_impl_long := %s; d_map := %s |}'
                % (lit.b(case['braces']), G.coq_ast(case['ast']), lit.s(case['short']), lit.s(case['long']),
                   R.fo_table(case['short'], case['long']), lit.b(case['judge']), R.outcome_lit(impl['short']),
                   R.outcome_lit(impl['long']), lit.lst([lit.pair(lit.z(a), lit.z(b)) for a, b in impl['map']])))

    def known_class(self, case, impl, code):
        return CLASSES_C05.get(code // 10)

    def case_class(self, case, impl):
        s = impl['short']
        return case['mode'] + (':exception:' + s['exc'] if 'err' in s else ':graph')

    def nontrivial(self, case, impl):
        return True

    def describe(self, case):
        return case


C05.fail_text.update({n + 10 * k: C05.fail_text[n] + ' [input lies in known defect class %s]' % c
                     for k, c in CLASSES_C05.items() for n in (1, 2)})
PROP = C05()
