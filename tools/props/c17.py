"""C17 — the sampler honours target weight, reactivities, terminals and seed.

Same harness and model as C16 (tools/props/c16.py, Sample/SampleCheck.v); the failing-input search
evaluates `prop_fail17` on the implementation's output: stop rule on the masses of the fragments
added during growth (binary64, bit-exact), element-derived masses against the generated PTE table
and the hydrogen rule, zero reactivities, terminal handling.  Seed determinism is decided on
HISTORIES: construct(seed); sample(w) — another construct-and-sample — construct(seed); sample(w)
again in one process with the SAME caller-owned fragment dict and tables, and the same call in fresh
interpreters under other PYTHONHASHSEED values; the molecules must be identical."""
import contextlib
import hashlib
import io
import json
import os
import subprocess
import sys

import common
from props import c16

HASH_SEEDS = ('1', '4242')


def canon(obs):
    """canonical text of a run's result (molecule as a set of nodes and edges with attributes)"""
    if 'final' in obs:
        g = obs['final']
        nodes = sorted([[n, d] for n, d in g['nodes']], key=lambda x: x[0])
        edges = sorted([[min(u, v), max(u, v), d] for u, v, d in g['edges']], key=lambda x: (x[0], x[1]))
        return json.dumps(['mol', nodes, edges], sort_keys=True, default=str)
    if 'exc' in obs:
        return json.dumps(['exc', list(obs['exc'])])
    return json.dumps(['skip', obs.get('skip')])


def digest(obs):
    return hashlib.sha1(canon(obs).encode()).hexdigest()


# ------------------------------------------------------------------------------- histories on the shared generator
def _construct(case, objects, seed, **over):
    import cgsmiles.sample as smod
    fd, kwargs = objects
    kw = dict(kwargs, seed=seed)
    kw.update(over)
    if case.get('ctor', 'explicit') in ('explicit', 'fromstr_explicit') or not case['aa']:
        kw['all_atom'] = case['aa']
    return smod.MoleculeSampler(fd, **kw)


def _sample(sampler, target, start):
    """one sample() call: (digest of the molecule or of the exception class, the draws it made)"""
    rec = c16.PickRecorder()
    with contextlib.redirect_stdout(io.StringIO()):
        with rec:
            try:
                obs = {'final': c16.graph_obs(sampler.sample(target, start_fragment=start))}
            except Exception as exc:
                obs = {'exc': [type(exc).__name__]}
    return digest(obs), [list(p) for p in rec.picks]


def histories(case, objects):
    """what the history machine of Sample/SampleHistoryFail.v says about the module-level generator, checked on
    the implementation (theorems C17_interleaved_sample, C17_sample_after_early_failure, C17_sample_after_failed):
      [construct A(s); construct B(s'); sample A  ==  construct A(s'); sample,
       construct A(s); sample(unknown start fragment: KeyError, no draw); sample  ==  construct A(s); sample,
       construct A(s); sample (may fail half-way); sample  ==  construct A(s); <the draws of the first call>; sample]"""
    import random as pyrandom
    t, st, seed = case['target'], case.get('start'), case['seed']
    seed_b = seed + 101
    flags = []
    try:
        a = _construct(case, objects, seed)
        try:
            _construct(case, objects, seed_b, polymer_reactivities={})
        except Exception:
            pass                      # the reseeding is the constructor's first statement
        d1, p1 = _sample(a, t, st)
        d2, p2 = _sample(_construct(case, objects, seed_b), t, st)
        flags.append(d1 == d2 and p1 == p2)
        d0, p0 = _sample(_construct(case, objects, seed), t, st)
        a = _construct(case, objects, seed)
        _, pe = _sample(a, t, '\x00no such fragment')
        d4, p4 = _sample(a, t, st)
        flags.append(pe == [] and d4 == d0 and p4 == p0)
        a = _construct(case, objects, seed)
        d5, p5 = _sample(a, t, st)
        d5b, p5b = _sample(a, t, st)
        a = _construct(case, objects, seed)
        for n, _i, w in p5:
            if w is None:
                pyrandom.choice(range(n))
            else:
                pyrandom.choices(range(n), weights=w)
        d6, p6 = _sample(a, t, st)
        flags.append(d5 == d0 and p5 == p0 and d6 == d5b and p6 == p5b)
    except Exception:
        flags.append(False)
    return flags


_CHILD = r'''
import sys, json, io, contextlib, warnings
warnings.simplefilter('ignore')
sys.path.insert(0, %r)
import common
common.setup_repo_import()
from props import c16, c17
cases = json.load(sys.stdin)
out = []
for c in cases:
    with contextlib.redirect_stdout(io.StringIO()):
        out.append(c17.digest(c16.run_sampler(c)))
print('DIGESTS ' + json.dumps(out))
'''


def subprocess_digests(cases, hash_seed):
    env = dict(os.environ)
    env['PYTHONHASHSEED'] = hash_seed
    env.setdefault('PBR_VERSION', '0.0.0')
    tools = os.path.join(common.VERIF, 'tools')
    try:
        p = subprocess.run([sys.executable, '-c', _CHILD % tools], input=json.dumps(cases), env=env, text=True,
                           stdout=subprocess.PIPE, stderr=subprocess.PIPE, timeout=1200)
    except subprocess.TimeoutExpired:
        return None
    line = [l for l in p.stdout.splitlines() if l.startswith('DIGESTS ')]
    if p.returncode != 0 or not line:
        return None
    return json.loads(line[-1][8:])


FAIL_TEXT17 = {
    1: 'stop rule: the masses of the fragments added during growth do not reach the target, or reach it without the last one',
    2: 'an element-derived fragment mass differs from the sum of atomic masses including implicit hydrogens',
    3: 'a descriptor with polymer reactivity 0 was used as growth site',
    4: 'a partner descriptor with conditional reactivity 0 was chosen',
    5: 'an atom that received a terminal fragment still offers / later used a descriptor',
    6: 'terminal descriptors were not withdrawn from an atom that grew otherwise',
    7: 'constructing with the same seed and sampling did not give the same molecule (same process / fresh process)',
    9: 'the implementation raised an exception although the tables allow growth at that step',
}


class C17(c16.SamplerProp):
    id = 'C17'
    technique = ('Coq proofs over a generic mass carrier (stop rule from the generated loop guard), the cumulative-sum/'
                 'bisect selection rule over Z weights (zero weight never selected), terminal handling by induction over '
                 'the loop, seed determinism on a history machine with an explicit global RNG cell + per-run '
                 'correspondence at binary64 (bit-exact) + histories in one process and in fresh processes under '
                 'different PYTHONHASHSEED')
    prop_file = 'theories/Properties/C17.v'
    fail_fn = 'prop_fail17'
    fail_text = FAIL_TEXT17
    quick_cases = 330

    def __init__(self):
        self._pending = []
        self._sub = {}

    @staticmethod
    def _key(case):
        return json.dumps(case, sort_keys=True)

    def corpus(self, ctx):
        cs = super().corpus(ctx)
        self._pending += cs
        return cs

    def generate(self, ctx, n):
        cs = super().generate(ctx, n)
        self._pending += cs
        return cs

    def _subprocess_results(self, case):
        k = self._key(case)
        if k not in self._sub:
            batch = [c for c in self._pending if self._key(c) not in self._sub]
            if k not in [self._key(c) for c in batch]:
                batch.append(case)
            self._pending = []
            res = [subprocess_digests(batch, hs) for hs in HASH_SEEDS]
            for j, c in enumerate(batch):
                self._sub[self._key(c)] = [r[j] if r is not None and len(r) == len(batch) else None for r in res]
        return self._sub[k]

    def run_impl(self, case):
        try:
            objects = c16.user_objects(case)
        except Exception as exc:
            return {'skip': 'read_fragments:' + type(exc).__name__}
        impl = c16.run_sampler(case, objects)
        if 'init' in impl and not impl.get('unrecorded'):
            impl['hist'] = histories(case, objects)
        if 'final' not in impl:
            return impl
        d0 = digest(impl)
        # the same caller-owned objects, another construct-and-sample in between
        other = dict(case, seed=case['seed'] + 17)
        c16.run_sampler(other, objects)
        again = c16.run_sampler(case, objects)
        det = [digest(again) == d0]
        for d in self._subprocess_results(case):
            det.append(d is not None and d == d0)
        impl['det'] = det
        return impl

    def case_class(self, case, impl):
        k = super().case_class(case, impl)
        if 'final' in impl:
            tbl = 'uniform' if not case['poly'] else ('zeros' if any(v == 0 for v in case['poly'].values()) else 'weights')
            k += ':%s%s%s' % (tbl, ':cond' if case['fragreact'] else '', ':term' if case['term'] else '')
            k += ':PTE-mass' if case.get('masses') is None else ':user-mass'
        return k


PROP = C17()
