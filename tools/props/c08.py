"""C08 — fragment definitions and complete strings round-trip through the writer.
(a) format_bonding (the definition GENERATED from write_cgsmiles.py) followed by the implementation's
    strip_bonding_descriptors gives the descriptor list back;
(b) read_fragments -> write_cgsmiles_fragments -> read_fragments gives isomorphic fragments;
(c) write_cgsmiles(base, fragment_dicts) of a resolver's inputs resolves to the same molecule.
Tie: Write/WriteImpl.v (write_graph, write_cgsmiles_fragments, write_cgsmiles, pysmiles format_atom for
the attribute subset the fragment reader produces) is compared with the implementation's strings on
every case; transcripts: the set-iteration order of the ring edges and pysmiles has_default_h_count."""
import itertools

import networkx as nx

import common
import gens
import lit

# repaired in /repo and therefore no longer excused: 1 descriptor_order_not_first (1a5deb0), 2 descriptor_order_zero
# (0d0f450, reader side), 3 coarse_node_renamed (6d8cc68), 4/7 coarse/base branch_edge_order (be4ff6e), 5/8 coarse/base
# ring_edge_order (dd9a0c2), 6/9 coarse/base pct_marker_then_digit (b681517); their witnesses stay in the corpus
CLASSES = {10: 'ambiguous_descriptor_choice'}
CLAUSES = {1: 'the writer raised an exception',
           2: 'the reader rejected what the writer produced',
           3: 'what was read back differs from the original (descriptor list / fragment not isomorphic)',
           4: 'the written complete string cannot be read or resolved',
           5: 'the written complete string resolves to a different molecule'}
NODE_ATTRS = ('element', 'charge', 'hcount', 'aromatic', 'bonding', 'fragname', 'atomname', 'isotope', 'class', 'rs_isomer')

KINDS = '$><!'
LABELS = ['', 'a', 'B1', 'x', '2']
ATOMS = ['C', 'N', '[#A]', '[#PEO]', 'O', '[NH3+]', 'Cl']

AA_SKELETONS = gens.AA_SKELETONS + ['[NH3+]C', 'C[O-]', 'c1ccccc1C', 'C(=O)[O-]', 'CC(C)(C)C', 'C1CCCCC1', 'N#C', 'c1ccsc1',
                                    'OCC(O)CO', '[CH2]C', 'C=CC=C', 'FC(F)F', 'BrC', 'CS(=O)(=O)C', 'C[N+](C)(C)C',
                                    # every way pysmiles' _write_edge_symbol decides: single bond between two aromatic
                                    # atoms (written '-'), aromatic bond between aromatic atoms (implicit), order 1.5
                                    # between non-aromatic atoms (written ':'), aromatic-aliphatic single bond
                                    'c1ccccc1-c1ccccc1', 'c1ccccc1c1ccccc1', 'c1ccccc1-c1ccncc1', 'c1cc(-c2ccccc2)ccc1',
                                    'C:C', 'CC:CC', 'c1ccccc1C', 'c1ccc2ccccc2c1', 'C1=CC=CC=C1',
                                    'c1ccc(cc1)-c1ccccc1', 'c1cc[nH]c1', 'c1ccccc1-c1ccccc1-c1ccccc1',
                                    # interleaved (non-nested) rings: ring 1 is closed while ring 2 is open and a third
                                    # ring is opened afterwards, so the lowest free ring marker is not the number of
                                    # open rings + 1 (cubane, tricyclic cages, a steroid skeleton)
                                    'C12C3C4C1C5C2C3C45', 'C1CC2C1CC1CC2CC1', 'C1CC2CC1C1CC2C1', 'C1CC2C1C1CC2C1',
                                    'C1CC2C1CC1=CC2CC1', 'C1CCC2C1(CCC3C2CC=C4C3(CCC(C4)O)C)C']
CG_NAMES = ['A', 'B', 'X', 'PEO']


def cg_skeleton(rng, fragname):
    """small coarse fragment; with probability 1/2 every node carries the fragment's own name"""
    own = rng.random() < 0.5
    nm = (lambda: fragname) if own else (lambda: rng.choice(CG_NAMES))
    shape = rng.choice(['1', '2', '3', 'b', 'r', 'd', 'bd', 'rd', 'ir', 'il', 'fan', '1', '2', '3', 'b', 'r', 'd', 'bd', 'rd', 'ir', 'il', 'zb', 'zr', 'zb', 'zr'])
    n = lambda: '[#%s]' % nm()
    if shape == '1':
        return n()
    if shape == '2':
        return n() + n()
    if shape == '3':
        return n() + n() + n()
    if shape == 'b':
        return n() + '(' + n() + ')' + n()
    if shape == 'r':
        return n() + '1' + n() + n() + '1'
    if shape == 'd':        # order 0 is the '.' bond (virtual sites, ionic contacts)
        return n() + rng.choice('=#.') + n()
    if shape == 'bd':
        return n() + '(' + n() + ')' + rng.choice('=.') + n()
    if shape == 'zb':       # '.' on a branch edge (written in front of the parenthesis) and inside the branch
        return n() + '.(' + n() + '.' + n() + ')' + n()
    if shape == 'zr':       # '.' on a ring-closing edge
        return n() + '.1' + n() + n() + rng.choice(['', '=']) + n() + '1'
    if shape == 'ir':   # interleaved rings: 1 opened, 2 opened, 1 closed, a third opened while 2 is open
        s = rng.choice(['', '', '=', '#', '.'])
        return n() + '1' + n() + s + '2' + n() + '1' + n() + '3' + n() + '2' + n() + '3'
    if shape == 'il':   # the same on a ladder, with chain nodes in between
        s = rng.choice(['', '', '='])
        return n() + '1' + n() + n() + '2' + n() + '1' + n() + n() + s + '1' + n() + '2' + n() + n() + '1'
    if shape == 'fan':  # >= 10 ring bonds open at once, all closed on one hub node: the hub carries '%nn' markers and
        # one-digit markers in the (recorded) set order, i.e. the '%nn'-then-digit pattern the writer must pad ('%0n')
        m = rng.randint(10, 13)
        mk = lambda i: str(i) if i < 10 else '%%%d' % i
        return ''.join(n() + mk(i + 1) for i in range(m)) + ''.join(n() for _ in range(rng.randint(1, 3))) + \
            n() + ''.join(mk(i + 1) for i in range(m)) + ''.join(n() for _ in range(rng.randint(0, 1)))
    return n() + '=1' + n() + n() + '1'


def rand_fragments(rng, names, aa, max_desc=3, syms=('', '', '', '=', '#')):
    defs = []
    for nm in names:
        sk = rng.choice(AA_SKELETONS) if aa else cg_skeleton(rng, nm)
        defs.append('#%s=%s' % (nm, gens.decorate(rng, sk, rng.randint(0, max_desc), kinds=KINDS,
                                                  labels=('', '', 'A', 'B', '1'), syms=syms)))
    return '{' + ','.join(defs) + '}'


def ser_graph(G):
    """JSON-able form that keeps networkx's insertion orders (what lit.nxgraph prints)"""
    out = []
    for n, d in G._node.items():
        attrs = [[k, d[k]] for k in d if k in NODE_ATTRS]
        adj = [[w, ed.get('order')] if 'order' in ed else [w] for w, ed in G._adj[n].items()]
        out.append([n, attrs, adj])
    return out


def coq_graph(ser):
    recs = []
    for n, attrs, adj in ser:
        a = lit.lst([lit.pair(lit.s(k), lit.pyval(v)) for k, v in attrs])
        ad = lit.lst([lit.pair(lit.z(x[0]), lit.lst([lit.pair(lit.s('order'), lit.pyval(x[1]))] if len(x) > 1 else []))
                      for x in adj])
        recs.append('{| nk := %s; na := %s; nadj := %s |}' % (lit.z(n), a, ad))
    return lit.lst(recs)


def zpairs(l):
    return lit.lst([lit.pair(lit.z(a), lit.z(b)) for a, b in l])


def frag_label(sf):
    key = 'element' if sf else 'atomname'
    return lambda a, b: (a.get(key) == b.get(key) and key in a and key in b and a.get('charge', 0) == b.get('charge', 0)
                         and bool(a.get('aromatic', False)) == bool(b.get('aromatic', False))
                         and sorted(a.get('bonding', [])) == sorted(b.get('bonding', [])))


def mol_label(a, b):
    return (a.get('element') == b.get('element') and a.get('charge', 0) == b.get('charge', 0)
            and bool(a.get('aromatic', False)) == bool(b.get('aromatic', False)))


class _IsoTimeout(BaseException):      # not an Exception: it must pass the `except Exception` of the impl_* bodies
    pass


def _wl_hash(G, label):
    H = nx.Graph()
    for n, d in G.nodes(data=True):
        H.add_node(n, l=label(d))
    for u, v, d in G.edges(data=True):
        H.add_edge(u, v, o=str(d.get('order')))
    return nx.weisfeiler_lehman_graph_hash(H, node_attr='l', edge_attr='o', iterations=4)


def find_iso(G, H, node_match, label=None, limit=30):
    """an isomorphism G -> H as a list of pairs, or None.  Cheap invariants first (sizes, Weisfeiler-Lehman hash
    over node labels and bond orders: different hashes = not isomorphic); VF2 only afterwards, under a time limit --
    on two large non-isomorphic, highly symmetric molecules VF2 can run for hours.  Raises _IsoTimeout then (the
    case is left undecided and skipped)."""
    if len(G) != len(H) or G.number_of_edges() != H.number_of_edges():
        return None
    if label is not None and _wl_hash(G, label) != _wl_hash(H, label):
        return None
    gm = nx.algorithms.isomorphism.GraphMatcher(G, H, node_match=node_match,
                                                edge_match=lambda a, b: a.get('order') == b.get('order'))

    def on_alarm(*_):
        raise _IsoTimeout()
    import signal
    old = signal.signal(signal.SIGALRM, on_alarm)
    signal.alarm(limit)
    try:
        if gm.is_isomorphic():
            return [[k, v] for k, v in gm.mapping.items()]
        return None
    finally:
        signal.alarm(0)
        signal.signal(signal.SIGALRM, old)


class Recorder:
    """records the argument of every list(<set>) call made inside cgsmiles.write_cgsmiles"""

    def __init__(self):
        self.rec = []

    def __enter__(self):
        import cgsmiles.write_cgsmiles as W
        self.W = W

        def rec_list(x=()):
            r = list(x)
            if isinstance(x, (set, frozenset)):
                self.rec.append([list(tuple(e)) for e in r])
            return r
        W.list = rec_list
        return self

    def __exit__(self, *a):
        del self.W.list


def recompute_tr(G):
    succ = nx.dfs_successors(G, source=min(G))
    edges = set()
    for i, js in succ.items():
        for j in js:
            edges.add(frozenset((i, j)))
    total = set(map(frozenset, G.edges))
    return [list(tuple(e)) for e in list(total - edges)]


def entries_of(fragment_dict, trs, aa):
    from pysmiles.smiles_helper import has_default_h_count
    out = []
    for idx, (name, g) in enumerate(fragment_dict.items()):
        tr = trs[idx] if idx < len(trs) else recompute_tr(g)
        dh = []
        if aa:
            for k in g.nodes:
                try:
                    if has_default_h_count(g, k):
                        dh.append(k)
                except Exception:
                    pass
        out.append([name, ser_graph(g), tr, dh])
    return out


def coq_entries(entries):
    return lit.lst(['(%s, %s, %s, %s)' % (lit.s(name), coq_graph(g), zpairs(tr), lit.lst([lit.z(k) for k in dh]))
                    for name, g, tr, dh in entries])


class C08(common.Prop):
    id = 'C08'
    level = 'proof'
    technique = ('Coq theorems about the format_bonding definition regenerated from write_cgsmiles.py (exact output, '
                 'descriptor round trip through the strip model, coarse fragment chains through the model of read_fragment_cgsmiles) + Coq model of '
                 'write_graph/write_cgsmiles_fragments/write_cgsmiles compared with the implementation on every run; '
                 'round-trip clauses evaluated in Coq on the implementation\'s outputs with isomorphism witnesses')
    vo_deps = ['theories/Write/FragCheck.vo']
    prop_file = 'theories/Properties/C08.v'
    case_requires = ('From Coq Require Import String.\nFrom Coq Require Import List Ascii ZArith Bool.\n'
                     'From CGV Require Import Base.PyBase Base.PyVal Base.NxGraph Write.WriteImpl Write.WriteDefs '
                     'Write.FragDefs Write.FragCheck.')
    shard = 150
    quick_cases = 1000
    thorough_cases = 20000
    extended_cases = 3000
    fail_text = dict([(k, v) for k, v in CLAUSES.items()] +
                     [(k + 10 * c, '%s [input in known defect class %s]' % (v, CLASSES[c]))
                      for k, v in CLAUSES.items() for c in CLASSES])

    # ---------------------------------------------------------------------------- inputs
    def corpus(self, ctx):
        return [
            {'kind': 'fb', 'atom': 'C', 'L': ['$a1', '$b2']},
            {'kind': 'fb', 'atom': 'C', 'L': ['$0']},
            {'kind': 'fb', 'atom': '[#A]', 'L': ['>1', '<A1', '!1']},
            {'kind': 'fb', 'atom': 'C', 'L': ['$2', '>x1']},
            {'kind': 'fb', 'atom': 'C', 'L': ['>4', '$1', '!x4']},
            {'kind': 'rfc', 'name': 'X', 'text': '[#A][$]=[#B]([#C][>])[#D]1[#E][#F]1[!A]'},
            {'kind': 'rfc', 'name': 'PEO', 'text': '[<][#PEO][#PEO][>]'},
            {'kind': 'rfc', 'name': 'X', 'text': '[#A]([#B]'},
            {'kind': 'frag', 's': '{#X=[#A][#B][$]}', 'aa': False},
            {'kind': 'frag', 's': '{#X=[#X]([#X])=[#X]}', 'aa': False},
            {'kind': 'frag', 's': '{#X=[#X]=1[#X][#X]1}', 'aa': False},
            {'kind': 'frag', 's': '{#A=N[!B]=[$]}', 'aa': True},
            {'kind': 'frag', 's': '{#PEO=[$]COC[$],#OHter=[$]O}', 'aa': True},
            {'kind': 'frag', 's': '{#PEO=[$][$A]COC[$][$B],#OHter=[$]O}', 'aa': True},
            {'kind': 'frag', 's': '{#PEO=[$]=COC[$A],#OHter=[$A]O,#PI=[$]=C}', 'aa': True},
            {'kind': 'frag', 's': '{#TC5=[!]ccc[!],#TN6a=[!]cnc[!]}', 'aa': True},
            {'kind': 'frag', 's': '{#A=[NH3+]C[$],#B=[$]C(=O)[O-]}', 'aa': True},
            {'kind': 'frag', 's': '{#BP=[$]c1ccccc1-c1ccccc1[$]}', 'aa': True},
            {'kind': 'frag', 's': '{#BP=c1ccccc1-c1ccccc1,#X=c1ccccc1c1ccccc1,#Y=C:C[$]}', 'aa': True},
            {'kind': 'frag', 's': '{#T=[$]c1ccc(cc1)-c1ccc(cc1)-c1ccccc1}', 'aa': True},
            {'kind': 'frag', 's': '{#CUB=[$]C12C3C4C1C5C2C3C45[>],#CAGE=[$]C1CC2C1CC1CC2CC1[>]}', 'aa': True},
            {'kind': 'frag', 's': '{#ST=C1CCC2C1(CCC3C2CC=C4C3(CCC(C4)O[>])C)C,#T=[<]C1CC2CC1C1CC2C1[!]}', 'aa': True},
            {'kind': 'frag', 's': '{#X=[#A]1[#B]=2[#C]1[#D]3[#E]2[#F]3[$]}', 'aa': False},
            {'kind': 'frag', 's': '{#X=[#X]1[#X][#X]2[#X]1[#X][$][#X]1[#X]2[#X][#X]1}', 'aa': False},
            # >= 10 open ring bonds closed on one node ('%nn' markers followed by one-digit markers, fix b681517)
            {'kind': 'frag', 's': '{#X=[#A]1[#B]2[#A]3[#B]4[#A]5[#B]6[#A]7[#B]8[#A]9[#B]%10[#C][#A]123456789%10[$]}', 'aa': False},
            {'kind': 'frag', 's': '{#X=[#A]1[#B]2[#A]3[#B]4[#A]5[#B]6[#A]7[#B]8[#A]9[#B]%10[#A]%11[#B]%12[#C][#C][#C][#A]123456789%10%11%12[#B][$]}',
             'aa': False},
            # order-0 edges ('.'): in coarse fragments (chain, branch, ring-closing edge) and on base graphs, incl. virtual sites
            {'kind': 'frag', 's': '{#A=[$][#X][#Y].[#V]}', 'aa': False},
            {'kind': 'frag', 's': '{#A=[$][#P]([#Q].[#R])=[#S]=[>],#B=[<][#T]#[#U].[#W][$]}', 'aa': False},
            {'kind': 'frag', 's': '{#A=[#P].([#Q])[#R][$]}', 'aa': False},
            {'kind': 'frag', 's': '{#C=[$][#K].1[#L][#M]=[#N]1[$]}', 'aa': False},
            {'kind': 'whole', 's': '{[#A][#B].[#V]}.{#A=[$]CC[$],#B=[$]OC}', 'aa': True},
            {'kind': 'whole', 's': '{[#A].[#B]}.{#A=CC[$],#B=[$]CO}', 'aa': True},
            {'kind': 'whole', 's': '{[#A].1[#B][#A]1}.{#A=[$]CC[$],#B=[$]O[$]}', 'aa': True},
            {'kind': 'whole', 's': '{[#M][#M]}.{#M=[$][#A][#B][$].[#V]}.{#A=[$]CC[$],#B=[$]O[$]}', 'aa': True},
            {'kind': 'whole', 's': '{[#CHOL][#SUC]}.{#CHOL=C1CCC2C1(CCC3C2CC=C4C3(CCC(C4)O[>])C)C,#SUC=[<]C(=O)CCC(=O)O}',
             'aa': True},
            {'kind': 'whole', 's': '{[#A][#B][#A]}.{#A=[$]C1CC2C1CC1CC2CC1,#B=[$]C12C3C4C1C5C2C3C45[$]}', 'aa': True},
            {'kind': 'whole', 's': '{[#BP][#M]}.{#BP=c1ccccc1-c1ccccc1[$],#M=[$]C}', 'aa': True},
            {'kind': 'whole', 's': '{[#PEO][#PMMA][#PEO][#PMMA]}.{#PEO=[>]COC[<],#PMMA=[>]CC(C)[<]C(=O)OC}', 'aa': True},
            {'kind': 'whole', 's': '{[#TC5]1[#TC5][#TC5]1}.{#TC5=[$]cc[$]}', 'aa': True},
            {'kind': 'whole', 's': '{[#C]([#D])=[#C]}.{#D=COC,#C=C}', 'aa': True},
            {'kind': 'whole', 's': '{[#B][#B]}.{#B=CC(=O[!])O[$]}', 'aa': True},
            {'kind': 'whole', 's': '{[#C]=[#D]}.{#B=C[$],#D=C(F[$])C[$][!],#C=C1CC1[$]}', 'aa': True},
            {'kind': 'whole', 's': '{[#A](=[#B])[#A]}.{#A=[$]=C[$],#B=[$]=C}', 'aa': True},
            {'kind': 'whole', 's': '{[#A]=1[#B][#A]1}.{#A=[$a]C([$b])O[$a],#B=[$b]C[$b]}', 'aa': True},
            {'kind': 'whole', 's': '{[#X][#X]}.{#X=[#A][#B][$]}.{#A=[$]CC,#B=[$]O[$]}', 'aa': True},
        ]

    def generate(self, ctx, n):
        rng = ctx.rng
        out = []
        descs = [k + l + str(o) for k in KINDS for l in LABELS for o in range(5)]
        n_fb = n // 3
        if ctx.thorough():
            small = [k + l + str(o) for k in '$>' for l in ('', 'a') for o in range(5)]
            for m in (1, 2, 3):
                for L in itertools.product(small, repeat=m):
                    out.append({'kind': 'fb', 'atom': 'C', 'L': list(L)})
            for d in descs:
                out.append({'kind': 'fb', 'atom': '[#A]', 'L': [d]})
        for _ in range(n_fb):
            m = rng.choice([1, 1, 2, 2, 3, 4])
            r = rng.random()
            if r < 0.35:    # uniform order 1
                L = [rng.choice(KINDS) + rng.choice(LABELS) + '1' for _ in range(m)]
            elif r < 0.55:  # only the first may be non-single
                L = [rng.choice(KINDS) + rng.choice(LABELS) + (str(rng.choice([1, 2, 3, 4])) if i == 0 else '1') for i in range(m)]
            else:
                L = [rng.choice(descs) for _ in range(m)]
            out.append({'kind': 'fb', 'atom': rng.choice(ATOMS), 'L': L})
        n_frag = n // 3
        for _ in range(n_frag):
            aa = rng.random() < 0.55
            names = rng.sample(['A', 'B', 'C', 'D', 'PEO'], rng.randint(1, 3))
            syms = ('', '', '', '', '=', '#') if rng.random() < 0.6 else ('',)
            out.append({'kind': 'frag', 's': rand_fragments(rng, names, aa, max_desc=3, syms=syms), 'aa': aa})
        # correspondence stream of the model of read_fragment_cgsmiles (coarse branch of fragment_iter)
        n_rfc = max(60, n // 8)
        for _ in range(n_rfc):
            nm = rng.choice(['A', 'B', 'X', 'PEO'])
            sk = cg_skeleton(rng, nm)
            syms = ('', '', '', '=', '#', '.') if rng.random() < 0.6 else ('',)
            out.append({'kind': 'rfc', 'name': nm,
                        'text': gens.decorate(rng, sk, rng.randint(0, 3), kinds=KINDS, labels=('', '', 'A', 'B', '1'), syms=syms)})
        n_whole = max(0, n - n_fb - n_frag - n_rfc)
        for _ in range(n_whole):
            names = rng.sample(['A', 'B', 'C', 'D'], rng.randint(1, 3))
            base, _ = gens.rand_base_graph(rng, names, nmax=5, max_order=rng.choice([1, 1, 2]), p_zero=rng.choice([0.0, 0.0, 0.2]))
            if rng.random() < 0.15:      # a virtual site without fragment, attached by the '.' bond
                base = base[:-1] + rng.choice(['.[#V]', '.[#V]', '([#D]).[#V]' if 'D' in names else '.[#V]']) + '}'
            r = rng.random()
            kinds = rng.choice(['$', '$$><', '$!'])
            if r < 0.8:
                frs = gens.rand_fragment_set(rng, names, all_atom=True, max_desc=3, kinds=kinds, labels=('',),
                                             syms=('', '', '', '=') if rng.random() < 0.3 else ('',))
                out.append({'kind': 'whole', 's': base + '.' + frs, 'aa': True})
            else:
                mid_names = rng.sample(['P', 'Q', 'R'], rng.randint(1, 2))
                mid = []
                for nm in names:
                    sk = ''.join('[#%s]' % rng.choice(mid_names) for _ in range(rng.randint(1, 2)))
                    mid.append('#%s=%s' % (nm, gens.decorate(rng, sk, rng.randint(1, 2), kinds='$', labels=('',), syms=('',))))
                frs = gens.rand_fragment_set(rng, mid_names, all_atom=True, max_desc=3, kinds='$', labels=('',), syms=('',))
                out.append({'kind': 'whole', 's': base + '.{' + ','.join(mid) + '}.' + frs, 'aa': True})
        return out

    # ---------------------------------------------------------------------------- implementation
    def run_impl(self, case):
        try:
            return self._run_impl(case)
        except _IsoTimeout:
            # VF2 did not decide within its time limit (equal sizes and Weisfeiler-Lehman hashes): undecided, skipped
            return {'skip': 'iso_timeout'}

    def _run_impl(self, case):
        kind = case['kind']
        if kind == 'fb':
            return self.impl_fb(case)
        if kind == 'frag':
            return self.impl_frag(case)
        if kind == 'rfc':
            return self.impl_rfc(case)
        return self.impl_whole(case)

    def impl_fb(self, case):
        from cgsmiles.write_cgsmiles import format_bonding
        from cgsmiles.read_fragments import strip_bonding_descriptors
        out = {}
        try:
            out['s'] = format_bonding(list(case['L']))
        except Exception as exc:
            out['write_exc'] = type(exc).__name__
            return out
        try:
            _, bd, _, _ = strip_bonding_descriptors(case['atom'] + out['s'])
            if all(k == 0 for k in bd):
                out['back'] = list(bd.get(0, []))
            else:
                out['back'] = ['<descriptors on another atom>']
        except Exception as exc:
            out['read_exc'] = type(exc).__name__
        return out

    def impl_frag(self, case):
        from cgsmiles.read_fragments import read_fragments
        from cgsmiles.write_cgsmiles import write_cgsmiles_fragments
        aa = case['aa']
        try:
            F = read_fragments(case['s'], all_atom=aa)
        except Exception as exc:
            return {'skip': type(exc).__name__}
        if any(len(g) == 0 or not nx.is_connected(g) for g in F.values()):
            return {'skip': 'disconnected fragment'}
        out = {}
        with Recorder() as rec:
            try:
                out['s'] = write_cgsmiles_fragments(F, smiles_format=aa)
            except Exception as exc:
                out['write_exc'] = type(exc).__name__
        out['entries'] = entries_of(F, rec.rec if len(rec.rec) == len(F) else [], aa)
        if 's' in out:
            try:
                F2 = read_fragments(out['s'], all_atom=aa)
                out['reread'] = [[name, ser_graph(g)] for name, g in F2.items()]
                wits = []
                for name, g in F.items():
                    w = find_iso(g, F2[name], frag_label(aa)) if name in F2 else None
                    wits.append(w or [])
                out['wits'] = wits
                out['ok'] = list(F) == list(F2) and all(wits[i] or len(g) == 0 for i, g in enumerate(F.values()))
            except Exception as exc:
                out['read_exc'] = type(exc).__name__
        return out

    def impl_rfc(self, case):
        from cgsmiles.read_fragments import strip_bonding_descriptors
        from cgsmiles.cgsmiles_utils import read_fragment_cgsmiles
        try:
            smile, bd, _, attrs = strip_bonding_descriptors(case['text'])
            G = read_fragment_cgsmiles(smile, case['name'], bd, attrs)
        except Exception as exc:
            return {'exc': type(exc).__name__}
        return {'obs': lit.obs_graph(G)}

    def impl_whole(self, case):
        from cgsmiles.resolve import MoleculeResolver
        from cgsmiles.write_cgsmiles import write_cgsmiles
        aa = case['aa']
        try:
            r0 = MoleculeResolver.from_string(case['s'], last_all_atom=aa)
            base, fds = r0.molecule, r0.fragment_dicts
            if len(base) == 0 or not nx.is_connected(base) or \
                    any(len(g) == 0 or not nx.is_connected(g) for fd in fds for g in fd.values()):
                return {'skip': 'disconnected'}
        except Exception as exc:
            return {'skip': type(exc).__name__}
        out = {}
        with Recorder() as rec:
            try:
                out['s'] = write_cgsmiles(base, fds, last_all_atom=aa)
            except Exception as exc:
                out['write_exc'] = type(exc).__name__
        nwrites = 1 + sum(len(fd) for fd in fds)
        trs = rec.rec if len(rec.rec) == nwrites else None
        out['base'] = ser_graph(base)
        out['tr'] = trs[0] if trs else recompute_tr(base)
        layers = []
        pos = 1
        for li, fd in enumerate(fds):
            layer_aa = aa and li == len(fds) - 1
            layers.append(entries_of(fd, trs[pos:pos + len(fd)] if trs else [], layer_aa))
            pos += len(fd)
        out['layers'] = layers
        try:
            mol1 = MoleculeResolver.from_string(case['s'], last_all_atom=aa).resolve_all()[1]
            out['mol1'] = ser_graph(mol1)
        except Exception as exc:
            out['mol1_exc'] = type(exc).__name__
            return out
        if 's' in out:
            try:
                mol2 = MoleculeResolver.from_string(out['s'], last_all_atom=aa).resolve_all()[1]
                out['mol2'] = ser_graph(mol2)
                w = find_iso(mol1, mol2, mol_label,
                             label=lambda d: '%s|%s|%s' % (d.get('element'), d.get('charge', 0), bool(d.get('aromatic', False))))
                if w:
                    out['wit'] = w
            except Exception as exc:
                out['mol2_exc'] = type(exc).__name__
        return out

    # ---------------------------------------------------------------------------- Coq literal
    def coq_case(self, case, impl):
        kind = case['kind']
        if 'skip' in impl:
            return '(CFb [] [] (Some []) (Some []))'      # not a case of this property: trivially consistent
        if kind == 'fb':
            return '(CFb %s %s %s %s)' % (lit.s(case['atom']), lit.lst([lit.s(d) for d in case['L']]),
                                           lit.opt(impl.get('s'), lit.s),
                                           lit.opt(impl.get('back'), lambda l: lit.lst([lit.s(d) for d in l])))
        if kind == 'rfc':
            return '(CRfc %s %s [] %s)' % (lit.s(case['name']), lit.s(case['text']),
                                           'None' if 'obs' not in impl else '(Some %s)' % impl['obs'])
        if kind == 'frag':
            rr = lit.opt(impl.get('reread'), lambda l: lit.lst([lit.pair(lit.s(nm), coq_graph(g)) for nm, g in l]))
            wits = lit.lst([zpairs(w) for w in impl.get('wits', [])])
            return '(CFrag %s %s %s %s %s)' % (lit.b(case['aa']), coq_entries(impl['entries']),
                                                lit.opt(impl.get('s'), lit.s), rr, wits)
        layers = lit.lst([coq_entries(l) for l in impl['layers']])
        return '(CWhole %s %s %s %s %s %s %s %s)' % (
            coq_graph(impl['base']), zpairs(impl['tr']), layers, lit.b(case['aa']), lit.opt(impl.get('s'), lit.s),
            lit.opt(impl.get('mol1'), coq_graph), lit.opt(impl.get('mol2'), coq_graph), lit.opt(impl.get('wit'), zpairs))

    # ---------------------------------------------------------------------------- bookkeeping
    def known_class(self, case, impl, code):
        return CLASSES.get(code // 10)

    def python_oracle(self, case, impl):
        if 'skip' in impl:
            return 0
        if 'write_exc' in impl:
            return 1
        if case['kind'] == 'rfc':
            return 0
        if case['kind'] == 'fb':
            return 2 if 'read_exc' in impl else (0 if impl.get('back') == case['L'] else 3)
        if case['kind'] == 'frag':
            return 2 if 'read_exc' in impl else (0 if impl.get('ok') else 3)
        if 'mol1' not in impl:
            return 0
        return 4 if 'mol2' not in impl else (0 if 'wit' in impl else 5)

    def nontrivial(self, case, impl):
        return 'skip' not in impl and not (case['kind'] == 'whole' and 'mol1' not in impl)

    def case_class(self, case, impl):
        kind = case['kind'] + (':aa' if case.get('aa') else (':cg' if 'aa' in case else ''))
        if case['kind'] == 'rfc':
            return 'rfc:' + ('raised:' + impl['exc'] if 'exc' in impl else 'graph')
        if 'skip' in impl:
            return kind + ':skipped:' + impl['skip']
        if case['kind'] == 'whole' and 'mol1' not in impl:
            return kind + ':original-does-not-resolve'
        code = self.python_oracle(case, impl)
        return kind + (':roundtrip-ok' if code == 0 else ':fails-clause-%d' % code)


PROP = C08()
