"""C20 — malformed input is rejected, never silently resolved.
Fault enumeration: valid multi-resolution strings (own generator: base graph with branches, rings,
bond orders, node multipliers, annotations; all-atom, coarse and three-level fragment lists) and
each of the six faults injected at every possible position.  Oracle (evaluated in Coq,
Dialect/FaultCheck.v, on what the IMPLEMENTATION did): MoleculeResolver.from_string(s).resolve_all()
raises SyntaxError (TypeError for the non-numeric value), never returns a graph, never raises
anything else.  Models: annotation faults = the dialect model of C14; ring faults = the ring-table
fold AND the reader component's ReaderImpl.read_cgsmiles on the text the reader is called on; annotation faults inside
fragment definitions also = the strip component's character machine (Frag/StripImpl.strip_bonding_descriptors) on the
whole faulty fragment text; missing fragment = the loop of resolve_disconnected_molecule (Dialect/FaultModels.v); each is
compared with the implementation on every case.
Call histories: the faulty string is also read AFTER a valid string was resolved and the fragment dict of one of
its levels was extended in place (fragment_dict argument / item assignment) in the same process: the verdict must
not depend on that."""
import contextlib
import io
import itertools
import re

import common
import gens
import lit
from props import c14

BLOCK_RE = re.compile(r'\{[^\}]+\}')
NODE_RE = re.compile(r'\[#[^\]]*\]')
BRACKET_RE = re.compile(r'\[[^\]$><!#][^\]]*\]')
DESC_RE = re.compile(r'\[[$><!][^\]]*\]')
SAFE = dict(nums=c14.NUMS_PLAIN + ['inf', '1e-05'], freek=c14.SAFEK, freev=c14.SAFEV)
NPARAMS = {0: 3, 1: 2, 2: 3}
FLOATKEYS = {0: ['q', 'w'], 1: ['w'], 2: ['q', 'w']}
POSINDEX = {0: {'q': 1, 'w': 2}, 1: {'w': 0}, 2: {'q': 1, 'w': 2}}   # index among the positional entries


# ----------------------------------------------------------------------------- valid strings
def annotate_nodes(rng, text, p=0.4, lk=0):
    """give some [#name] tokens of a graph text an annotation (valid under the code's dialects)"""
    out, last = '', 0
    for m in NODE_RE.finditer(text):
        out += text[last:m.start()]
        tok = m.group(0)
        if rng.random() < p:
            name = tok[2:-1]
            assign, free = c14.rand_annot(rng, 0, fragname=name, **SAFE)
            if lk == 2:
                # keep the valid string clear of the known coarse-fragment dialect defect
                assign = [a for a in assign if a[0] != 'q']
                ws = [w for w in c14.writings(0, assign, free, rng=rng)
                      if w and w[0][0] == 'P' and sum(1 for e in w if e[0] == 'P') == 1]
                es = rng.choice(ws)
            else:
                es = c14.one_writing(rng, 0, assign, free, fragname_first=True)
            tok = '[#' + c14.render_ents(es) + ']'
        out += tok
        last = m.end()
    return out + text[last:]


def add_multipliers(rng, text, p=0.2):
    out, last = '', 0
    for m in NODE_RE.finditer(text):
        out += text[last:m.end()]
        last = m.end()
        nxt = text[m.end():m.end() + 1]
        if nxt in ('[', '}') and rng.random() < p:
            out += '|%d' % rng.randint(2, 3)
    return out + text[last:]


def marker_sites(text):
    """(start, end, value) of the ring markers of a graph text (outside brackets; multiplier digits excluded)"""
    out, i = [], 0
    while i < len(text):
        c = text[i]
        if c == '[':
            i = text.index(']', i) + 1
        elif c == '|':
            i += 1
            while i < len(text) and text[i].isdigit():
                i += 1
        elif c == '%':
            m = re.match(r'%(\d+)', text[i:])
            if not m:
                i += 1
                continue
            out.append((i, i + len(m.group(0)), int(m.group(1))))
            i += len(m.group(0))
        elif c.isdigit():
            out.append((i, i + 1, int(c)))
            i += 1
        else:
            i += 1
    return out


def zero_marker(rng, text, p=0.35):
    """rename one ring index of a valid graph text to 0, each occurrence spelled `0`, `%0` or `%00` (ring index 0 is a
    legal index: the reader must open and close it like any other)"""
    sites = marker_sites(text)
    vals = sorted({v for _, _, v in sites})
    if not vals or 0 in vals or rng.random() >= p:
        return text
    v = rng.choice(vals)
    out, last = '', 0
    for a, b, val in sites:
        out += text[last:a]
        if val == v:
            forms = ['0'] if text[b:b + 1].isdigit() else ['0', '%0', '%00']
            out += rng.choice(forms)
        else:
            out += text[a:b]
        last = b
    return out + text[last:]


def aa_fragment(rng):
    tmpl = rng.choice(c14.AA_TEMPLATES)
    t = ''
    for tok in tmpl:
        if isinstance(tok, tuple):
            if rng.random() < 0.7:
                assign, free = c14.rand_annot(rng, 1, strv=['R', 'S'], **SAFE)
                t += '[' + tok[0] + ';' + c14.render_ents(c14.one_writing(rng, 1, assign, free)) + ']'
            else:
                t += '[' + tok[0] + ']'
        else:
            t += tok
    return t


def frag_multiplier(rng, text, p=0.25):
    """a node multiplier `|2` / `|3` on one node token of a coarse fragment text (a token followed by another bracket
    token or by the end of the text; never next to a ring marker)"""
    sites = [m.end() for m in NODE_RE.finditer(text) if text[m.end():m.end() + 1] in ('[', '')]
    if not sites or rng.random() >= p:
        return text
    i = rng.choice(sites)
    return text[:i] + '|%d' % rng.randint(2, 3) + text[i:]


def cg_fragment(rng, names):
    tmpl = rng.choice(c14.CG_TEMPLATES)
    t = ''
    for tok in tmpl:
        if isinstance(tok, tuple):
            t += '[#%s]' % rng.choice(names)
        else:
            t += re.sub(r'\[#Z\]', lambda _: '[#%s]' % rng.choice(names), tok)
    return annotate_nodes(rng, frag_multiplier(rng, zero_marker(rng, t)), p=0.5, lk=2)


def rand_valid(rng):
    mode = rng.choice(['aa', 'aa', 'cg', 'three'])
    names = rng.sample(['A', 'B', 'C', 'D'], rng.randint(1, 3))
    base, _ = gens.rand_base_graph(rng, names, nmax=6, max_order=2, p_ring=0.45, p_zero=0.12)
    base = add_multipliers(rng, annotate_nodes(rng, zero_marker(rng, base)))
    unit_start = None
    if rng.random() < 0.4:
        # a multiplied unit `anchor(branch)|n` at the end of the chain; faults are placed inside it too (annotation
        # faults and missing fragments; ring faults inside a multiplied unit are the reader's ring_in_unit class)
        body = ''.join('[#%s]' % rng.choice(names) for _ in range(rng.randint(1, 2)))
        unit = annotate_nodes(rng, '[#%s](%s)' % (rng.choice(names), body), p=0.5) + '|%d' % rng.choice([2, 3])
        unit_start = len(base) - 1
        base = base[:-1] + unit + '}'
    used = sorted({m.group(0)[2:-1].split(';')[0] for m in NODE_RE.finditer(base)})
    bang = rng.random() < 0.15       # the cuts of the all-atom level are `!` bonds (shared atoms: squash_atoms merges them)
    sq = (lambda s: s.replace('[$]', '[!]')) if bang else (lambda s: s)
    if mode == 'aa':
        levels = ['{' + ','.join('#%s=%s' % (n, sq(aa_fragment(rng))) for n in used) + '}']
    else:
        sub = rng.sample(['X', 'Y', 'Z'], rng.randint(1, 3))
        lv1 = {n: cg_fragment(rng, sub) for n in used}
        levels = ['{' + ','.join('#%s=%s' % kv for kv in lv1.items()) + '}']
        if mode == 'three':
            used2 = sorted({m.group(0)[2:-1].split(';')[0] for t in lv1.values() for m in NODE_RE.finditer(t)})
            levels.append('{' + ','.join('#%s=%s' % (n, sq(aa_fragment(rng))) for n in used2) + '}')
    feat = ('bang-cuts:' if bang and mode != 'cg' else '') + \
           ('fragment-multiplier:' if mode != 'aa' and re.search(r'\]\|\d', levels[0]) else '')
    return {'parts': [base] + levels, 'aa': mode != 'cg', 'unit_start': unit_start, 'feat': feat}


# ----------------------------------------------------------------------------- structure
def events(text):
    """ring/node events of a graph text (the subset of the grammar the generator writes)"""
    evs, stack, prev, k, i = [], [], None, 0, 0
    tok_nodes = []                   # per node token: (start, end, first node, count)
    while i < len(text):
        c = text[i]
        if c == '[':
            j = text.index(']', i)
            n, i2 = 1, j + 1
            m = re.match(r'\|(\d+)', text[i2:])
            if m:
                n = int(m.group(1))
                i2 += len(m.group(0))
            tok_nodes.append((i, j + 1, k, n))
            for _ in range(n):
                evs.append(['N', k, prev])
                prev = k
                k += 1
            i = i2
        elif c == '(':
            stack.append(prev); i += 1
        elif c == ')':
            prev = stack.pop(); i += 1
            mm = re.match(r'[-=#$.]?\|\d+', text[i:])
            if mm:
                i += len(mm.group(0))          # branch multiplier: the unit is not written out here (see ring_faults)
        elif c.isdigit():
            evs.append(['R', prev, int(c)]); i += 1
        elif c == '%':
            m = re.match(r'%(\d+)', text[i:])
            evs.append(['R', prev, int(m.group(1))]); i += len(m.group(0))
        else:
            i += 1
    return evs, tok_nodes


def graph_edges(evs):
    """edges (u, v) of the graph the events describe, with the closing order of ring bonds"""
    edges, open_ = [], {}
    for e in evs:
        if e[0] == 'N' and e[2] is not None:
            edges.append((e[2], e[1]))
        elif e[0] == 'R':
            if e[2] in open_:
                edges.append((open_.pop(e[2]), e[1]))
            else:
                open_[e[2]] = e[1]
    return edges


def fragment_defs(part):
    """[(name, start, end)] spans of the fragment texts inside a '{#A=..,#B=..}' part"""
    out, pos = [], 1
    for frag in part[1:-1].split(','):
        d = frag.find('=')
        out.append((frag[1:d], pos + d + 1, pos + len(frag)))
        pos += len(frag) + 1
    return out


def graph_texts(valid):
    """(part index, start, end, cleaned?) of every text read by read_cgsmiles"""
    out = [(0, 1, len(valid['parts'][0]) - 1)]
    nparts = len(valid['parts'])
    for pi in range(1, nparts):
        if valid['aa'] and pi == nparts - 1:
            continue
        for _, a, b in fragment_defs(valid['parts'][pi]):
            out.append((pi, a, b))
    return out


def splice(valid, pi, a, b, new):
    parts = list(valid['parts'])
    parts[pi] = parts[pi][:a] + new + parts[pi][b:]
    return '.'.join(parts)


def blank_descriptors(text):
    """same length, descriptors replaced by blanks (positions stay valid)"""
    return DESC_RE.sub(lambda m: ' ' * len(m.group(0)), text)


def used_digits(text):
    return set(re.findall(r'\d', NODE_RE.sub('', DESC_RE.sub('', text))))


def free_digit(text):
    used = set(re.findall(r'\d', NODE_RE.sub('', DESC_RE.sub('', text))))
    free = [d for d in '123456789' if d not in used]
    return free[0] if free else None


# ----------------------------------------------------------------------------- fault enumeration
def reader_text(pi, new):
    """what read_cgsmiles is called on: the base graph with its braces and annotations; for a coarse fragment
    the text without descriptors and without annotations (strip_bonding_descriptors removes both)"""
    if pi == 0:
        return '{' + new + '}'
    t = DESC_RE.sub('', new)
    return NODE_RE.sub(lambda m: '[#' + m.group(0)[2:-1].split(';')[0] + ']', t)


def ring_faults(valid):
    out = []
    for pi, a, b in graph_texts(valid):
        text = valid['parts'][pi][a:b]
        clean = blank_descriptors(text)
        evs, toks = events(clean)
        if pi == 0 and valid.get('unit_start') is not None:
            lim = valid['unit_start'] - a
            toks = [t for t in toks if t[1] <= lim]
        d = free_digit(text)
        if d is None:
            continue
        # 1: unclosed ring index on every node token that carries no multiplier, written as one digit and in
        #    %nn form (the last node of a fragment text / brace-less pattern included: nothing follows the marker)
        pct = next(('%%%d' % v for v in (12, 10, 27, 33, 45) if str(v) not in text and all(ch not in used_digits(text) for ch in str(v))), None)
        # ring index 0 (a legal, falsy index) in all its spellings, when the text does not use it
        zero = ['0', '%0', '%00'] if 0 not in {v for _, _, v in marker_sites(clean)} else []
        for (s0, s1, k, n) in toks:
            if n == 1 and not clean[s1:s1 + 1] == '|':
                for mk in ([d, pct] if pct else [d]) + zero:
                    new = text[:s1] + mk + text[s1:]
                    if mk[0] == '%' and re.match(r'\d', text[s1:]):
                        continue                  # a digit after %nn would be read into the marker
                    out.append({'kind': 'ring', 'fault': 1, 's': splice(valid, pi, a, b, new), 'reader_text': reader_text(pi, new),
                                'graph_text': blank_descriptors(new).replace(' ', ''), 'm': int(mk.lstrip('%')),
                                'where': [pi, k], 'form': 'pct' if mk[0] == '%' else 'digit',
                                'last': bool(k == toks[-1][2]), 'trailing': text[s1:] != ''})
        # 2: ring bond duplicating every existing edge
        tok_of = {}
        for t in toks:
            if t[3] == 1:
                tok_of[t[2]] = t
        for (u, v) in graph_edges(evs):
            if u in tok_of and v in tok_of and u != v:
                tu, tv = sorted([tok_of[u], tok_of[v]])
                new = text[:tu[1]] + d + text[tu[1]:tv[1]] + d + text[tv[1]:]
                out.append({'kind': 'ring', 'fault': 2, 's': splice(valid, pi, a, b, new), 'reader_text': reader_text(pi, new),
                            'graph_text': blank_descriptors(new).replace(' ', ''), 'm': int(d), 'where': [pi, u, v]})
    return out


def frag_faults(valid):
    out = []
    for pi, a, b in graph_texts(valid):
        if pi == len(valid['parts']) - 1:
            continue                          # nodes of the last level are atoms/beads without a finer level
        text = valid['parts'][pi][a:b]
        for m in NODE_RE.finditer(text):
            inner = m.group(0)[2:-1]
            name = inner.split(';')[0]
            new = text[:m.start()] + '[#ZZ' + inner[len(name):] + ']' + text[m.end():]
            out.append({'kind': 'frag', 'fault': 3, 's': splice(valid, pi, a, b, new), 'level': pi, 'where': [pi, m.start()],
                        'in_unit': bool(pi == 0 and valid.get('unit_start') is not None and a + m.start() >= valid['unit_start'])})
    return out


VIRT_SKIP_RE = re.compile(r'\|\d+|%\d+|\d|\[[$><!][^\]]*\]')


def virtual_sites(text):
    """(position, inserted text) at which a node #ZZ attached by an order-0 bond only (a VIRTUAL node: it needs no
    fragment, resolve.py 245-251) can be written into a graph text: before the first node, as a branch after a node
    token (behind its multiplier, ring markers and bonding descriptors), at the end"""
    sites = []
    if text.startswith('[#'):
        sites.append((0, '[#ZZ].'))
    for m in NODE_RE.finditer(text):
        i = m.end()
        while True:
            mm = VIRT_SKIP_RE.match(text, i)
            if not mm:
                break
            i = mm.end()
        sites.append((i, '.([#ZZ])'))
    sites.append((len(text), '.[#ZZ]'))
    return sorted(set(sites))


def multi_frag_faults(valid):
    """the undefined name on SEVERAL nodes of one level.  (a) the valid string first gets a virtual node #ZZ (still a
    valid string: `valid` of the case is that string and must resolve), then a real node is renamed to ZZ - the virtual
    one earlier or later in node order; (b) two node tokens of the valid string renamed together (one of them may be
    virtual in the generated string).  The verdict is the same as for one node: a non-virtual ZZ without fragment."""
    out = []
    for pi, a, b in graph_texts(valid):
        if pi == len(valid['parts']) - 1:
            continue
        text = valid['parts'][pi][a:b]
        toks = list(NODE_RE.finditer(text))

        def renamed(m):
            inner = m.group(0)[2:-1]
            return '[#ZZ' + inner[len(inner.split(';')[0]):] + ']'
        for pos, ins in virtual_sites(text):
            vtext = text[:pos] + ins + text[pos:]
            for m in toks:
                if m.start() >= pos:
                    new = text[:pos] + ins + text[pos:m.start()] + renamed(m) + text[m.end():]
                    rel = 'virtual-first'
                else:
                    new = text[:m.start()] + renamed(m) + text[m.end():pos] + ins + text[pos:]
                    rel = 'virtual-later'
                out.append({'kind': 'frag', 'fault': 3, 's': splice(valid, pi, a, b, new), 'level': pi,
                            'where': [pi, m.start()], 'multi': rel, 'virtual_at': pos,
                            'valid': splice(valid, pi, a, b, vtext),
                            'in_unit': bool(pi == 0 and valid.get('unit_start') is not None and a + m.start() >= valid['unit_start'])})
        for i in range(len(toks)):
            for j in range(i + 1, len(toks)):
                mi, mj = toks[i], toks[j]
                new = text[:mi.start()] + renamed(mi) + text[mi.end():mj.start()] + renamed(mj) + text[mj.end():]
                out.append({'kind': 'frag', 'fault': 3, 's': splice(valid, pi, a, b, new), 'level': pi,
                            'where': [pi, mi.start(), mj.start()], 'multi': 'pair',
                            'in_unit': bool(pi == 0 and valid.get('unit_start') is not None and a + mj.start() >= valid['unit_start'])})
    return out


def annot_sites(valid):
    """(lk, part, start, end, head, entries)"""
    sites = []
    nparts = len(valid['parts'])
    for pi, a, b in graph_texts(valid):
        text = valid['parts'][pi]
        for m in NODE_RE.finditer(text, a, b):
            ents = m.group(0)[2:-1].split(';')
            sites.append((0 if pi == 0 else 2, pi, m.start(), m.end(), ents[0], ents[1:]))
    if valid['aa']:
        pi = nparts - 1
        for m in BRACKET_RE.finditer(valid['parts'][pi]):
            ents = m.group(0)[1:-1].split(';')
            sites.append((1, pi, m.start(), m.end(), ents[0], ents[1:]))
    return sites


# texts float() refuses: no number at all, and texts that BEGIN with, END with or CONTAIN a number
BAD_NUMBERS = ['abc', '1abc', '0.5.5', '1e', '2-', '1 000', 'a1', '1a1', '--1', '1_', '1.5x', '+-1', 'e5']


def annot_faults(valid):
    out = []
    bad = itertools.cycle(BAD_NUMBERS)
    for lk, pi, a, b, head, ents in annot_sites(valid):
        pre = '[#' if lk != 1 else '['

        def emit(fault, new_ents, p):
            tok = pre + ';'.join([head] + new_ents) + ']'
            text = ';'.join(([head] if lk != 1 else []) + new_ents)
            extra = {}
            if lk != 0:
                # the text of the fragment definition the faulty token stands in: what strip_bonding_descriptors is called on
                part = valid['parts'][pi][:a] + tok + valid['parts'][pi][b:]
                extra['frag_text'] = [part[fa:fb] for _, fa, fb in fragment_defs(part) if fa <= a < fb][0]
            out.append({'kind': 'annot', 'fault': fault, 'lk': lk, 'text': text, 's': splice(valid, pi, a, b, tok), **extra,
                        'in_unit': bool(pi == 0 and valid.get('unit_start') is not None and a >= valid['unit_start']),
                        'where': [pi, a, p]})
        npos_existing = sum(1 for e in ents if '=' not in e)
        for p in range(len(ents) + 1):
            emit(4, ents[:p] + ['a=b=c'] + ents[p:], p)
            emit(5, ents[:p] + ['1'] * (NPARAMS[lk] if lk != 1 else NPARAMS[lk] + 1) + ents[p:], p)
            for key in FLOATKEYS[lk]:
                idx = POSINDEX[lk][key] - (1 if lk != 1 else 0)     # index among the positional entries after the head
                if idx < npos_existing:
                    continue                                         # bound positionally: handled below
                kept = [e for e in ents if not e.startswith(key + '=')]
                if p <= len(kept):
                    emit(6, kept[:p] + [key + '=' + next(bad)] + kept[p:], p)
        # a positional value replaced by a non-number
        posn = [i for i, e in enumerate(ents) if '=' not in e]
        for key in FLOATKEYS[lk]:
            idx = POSINDEX[lk][key] - (1 if lk != 1 else 0)
            if idx < len(posn):
                new = list(ents)
                new[posn[idx]] = next(bad)
                emit(6, new, posn[idx])
    return out


def all_faults(valid):
    return ring_faults(valid) + frag_faults(valid) + multi_frag_faults(valid) + annot_faults(valid)


# ----------------------------------------------------------------------------- implementation
def resolve_all(s, aa, record=None, dicts=None):
    """from_string(s).resolve_all(); with `dicts` (fragment dicts the caller already holds, one per fragment block of
    s) the documented constructor from_fragment_dicts(<first block of s>, dicts) is used instead"""
    from cgsmiles.resolve import MoleculeResolver
    try:
        with contextlib.redirect_stdout(io.StringIO()):
            if dicts is None:
                r = MoleculeResolver.from_string(s, last_all_atom=aa)
            else:
                r = MoleculeResolver.from_fragment_dicts(BLOCK_RE.findall(s)[0], dicts, last_all_atom=aa)
            if record is not None:
                orig = r.resolve_disconnected_molecule

                def wrapped(fragment_dict):
                    mg = r.meta_graph
                    record.append({'nodes': [[n, mg.nodes[n].get('fragname')] for n in mg.nodes],
                                   'edges': [[u, v, mg.edges[(u, v)].get('order')] for u, v in mg.edges],
                                   'dict': list(fragment_dict)})
                    return orig(fragment_dict)
                r.resolve_disconnected_molecule = wrapped
            r.resolve_all()
        return None
    except Exception as exc:
        return c14.exc_desc(exc)


# ----------------------------------------------------------------------------- call histories
HIST_MODES = ('arg', 'item_lib', 'item_resolver')


def history_for(valid_parts, aa, level, mode):
    """what a user with a fragment library does BEFORE the faulty string is read, in the same process:
    the fragment list of `level`+1 is read (by read_fragments, or inside MoleculeResolver.from_string of the
    valid string) and the returned dict is extended in place by a fragment #ZZ - through the documented
    `fragment_dict` argument or by item assignment.  The string is the only input of from_string, so none of
    this may change what happens to the faulty string."""
    fpart = level + 1
    if fpart >= len(valid_parts):
        return None
    all_atom = bool(aa and fpart == len(valid_parts) - 1)
    if all_atom:
        extra = '{#ZZ=[$]O[$]}'
    else:
        nxt = [n for n, _, _ in fragment_defs(valid_parts[fpart + 1])] if fpart + 1 < len(valid_parts) else ['X']
        extra = '{#ZZ=[$][#%s][$]}' % nxt[0]
    return {'mode': mode, 'frag_text': valid_parts[fpart], 'index': level, 'all_atom': all_atom, 'extra': extra}


def shared_dicts_history(case):
    """history mode 'frag_dicts' (faults in the base block): the user reads the fragment blocks of the string ONCE
    (read_fragment_strings), resolves the VALID molecule (in which #ZZ, if present, is virtual) with these dicts
    through from_fragment_dicts, and then resolves the faulty molecule with the SAME dicts.  Returns (error of the
    history or None, the dicts)."""
    from cgsmiles.resolve import MoleculeResolver
    try:
        with contextlib.redirect_stdout(io.StringIO()):
            dicts = MoleculeResolver.read_fragment_strings(BLOCK_RE.findall(case['s'])[1:], last_all_atom=case['aa'])
            r = MoleculeResolver.from_fragment_dicts(BLOCK_RE.findall(case['valid'])[0], dicts, last_all_atom=case['aa'])
            r.resolve_all()
        return None, dicts
    except Exception as exc:
        return c14.exc_desc(exc), None


def play_history(case):
    """steps (a) and (b); returns an error description if the history itself fails"""
    from cgsmiles import read_fragments
    from cgsmiles.resolve import MoleculeResolver
    h = case['history']
    try:
        with contextlib.redirect_stdout(io.StringIO()):
            r = MoleculeResolver.from_string(case['valid'], last_all_atom=case['aa'])
            r.resolve_all()
            new = read_fragments(h['extra'], all_atom=h['all_atom'])['ZZ']
            if h['mode'] == 'arg':
                lib = read_fragments(h['frag_text'], all_atom=h['all_atom'])
                read_fragments(h['extra'], all_atom=h['all_atom'], fragment_dict=lib)
            elif h['mode'] == 'item_lib':
                lib = read_fragments(h['frag_text'], all_atom=h['all_atom'])
                lib['ZZ'] = new
            else:
                r2 = MoleculeResolver.from_string(case['valid'], last_all_atom=case['aa'])
                r2.fragment_dicts[h['index']]['ZZ'] = new
        return None
    except Exception as exc:
        return c14.exc_desc(exc)


def with_histories(rng, valid, faults, limit):
    """history variants: every missing-fragment fault (the fragment list text of its level is reused verbatim),
    and a few faults of the other kinds"""
    out = []
    frag = [f for f in faults if f['kind'] == 'frag']
    other = [f for f in faults if f['kind'] != 'frag']
    pick = frag + (rng.sample(other, min(len(other), 3)) if other else [])
    if len(pick) > limit:
        pick = rng.sample(frag, min(len(frag), limit - 2)) + pick[len(frag):][:2]
    for f in pick:
        level = f['level'] if f['kind'] == 'frag' else rng.randrange(0, max(1, len(valid['parts']) - 1))
        if f['kind'] == 'frag' and level == 0 and rng.random() < 0.5:
            out.append(dict(f, history={'mode': 'frag_dicts'}))
            continue
        h = history_for(valid['parts'], valid['aa'], level, rng.choice(HIST_MODES))
        if h:
            out.append(dict(f, history=h))
    return out


def mk_case(f, v, vs):
    """a fault of the valid string v (text vs); faults that first extend the valid string carry their own `valid`"""
    d = dict(f, aa=v['aa'])
    d.setdefault('valid', vs)
    if v.get('feat'):
        d['feat'] = v['feat']
    return d


class C20(common.Prop):
    id = 'C20'
    level = 'proof'
    technique = ('Coq proof (error theorems on the dialect model for every float oracle and every position of the '
                 'faulty entry; ring-table fold: a marker read an odd number of times / closed over an existing edge is '
                 'rejected wherever it stands; resolve_disconnected_molecule loop: a real node without fragment is '
                 'rejected wherever it stands) + per-case correspondence of the three models with the implementation '
                 '+ the property evaluated in Coq on the exception the implementation raised, for every fault kind at '
                 'every position of generated valid strings')
    vo_deps = ['theories/Dialect/FaultCheck.vo', 'theories/Reader/ReaderImpl.vo', 'theories/Frag/StripImpl.vo', 'theories/Dialect/DriverModel.vo']
    prop_file = 'theories/Properties/C20.v'
    case_requires = ('From Coq Require Import String.\nFrom Coq Require Import List Ascii ZArith Bool.\n'
                     'From CGV Require Import Base.PyBase Base.PyVal Dialect.DialectImpl Dialect.DialectDefs '
                     'Dialect.DialectCheck Dialect.FaultModels Dialect.FaultCheck.')
    case_type = 'fcase'
    shard = 150
    quick_cases = 720
    thorough_cases = 20000
    extended_cases = 3000
    fail_text = {1: 'the faulty string yielded a graph (no exception)',
                 2: 'the faulty string raised something other than SyntaxError',
                 3: 'the non-numeric charge/weight raised something other than TypeError',
                 90: 'internal: the injected fault is not present in the case (bug in tools/props/c20.py)',
                 101: 'coarse node inside a fragment definition: non-numeric q is accepted (read with the atom dialect)'}

    def corpus(self, ctx):
        out = []
        base = {'parts': ['{[#A;q=1]1[#B]([#C;foo=bar])[#A]1}', '{#A=[$]C[C;x=R;0.5][$],#B=[$]CO[$],#C=[$]C}'], 'aa': True}
        cg = {'parts': ['{[#A][#B]|2}', '{#A=[$][#X;w=2]1[#Y][#Z]1[$],#B=[$][#X][$]}'], 'aa': False}
        three = {'parts': ['{[#A]=[#B]}', '{#A=[$][#X][#Y;w=2][$],#B=[$][#Y][$]}', '{#X=[$]CC[$],#Y=[$][O;0.5]C[$]}'],
                 'aa': True}
        cg2 = {'parts': ['{[#A][#B]}', '{#A=[$][#X][$][#Y;w=2],#B=[$][$][#X][#Y]}'], 'aa': False}
        unit = {'parts': ['{[#A;q=1][#B][#A;w=2]([#B;foo=bar][#A])|3}', '{#A=[$]CC[$][$],#B=[$]CO[$]}'], 'aa': True, 'unit_start': 13}
        zero = {'parts': ['{[#A]0[#B][#A]%00}', '{#A=[$]CC[$],#B=[$]CO[$]}'], 'aa': True}
        zerocg = {'parts': ['{[#A][#B]}', '{#A=[$][#X]%0[#Y][#Z]0[$],#B=[$][#X][$]}'], 'aa': False}
        # the undefined name on a virtual node AND on a bonded node, either order, in a branch, in a multiplied unit, in
        # a ring of order-0 bonds, in a coarse fragment of a three-level string
        virt = {'parts': ['{[#A][#B][#A]}', '{#A=[$]CC[$],#B=[$]CO[$]}'], 'aa': True}
        virt2 = {'parts': ['{[#A].([#B])[#C]([#A][#B])|2}', '{#A=[$]CC[$],#B=[$]N,#C=[$]C([$])C[$]}'], 'aa': True, 'unit_start': 14}
        virt3 = {'parts': ['{[#S]1.2[#S].3[#R]1.[#T]23.[#S][#T]}', '{#S=OC[$]C[$]O,#R=[$]OC[$]CO,#T=[$]C}'], 'aa': True}
        cgm = {'parts': ['{[#A][#B]}', '{#A=[$][#X;w=2]|3[#Y][$],#B=[$][#Y][#X]|2[$]}'], 'aa': False, 'feat': 'fragment-multiplier:'}
        threem = {'parts': ['{[#A]|2}', '{#A=[$][#X]|2[#Y;w=2][$]}', '{#X=[$]CC[$],#Y=[$][O;0.5]C[$]}'], 'aa': True,
                  'feat': 'fragment-multiplier:'}
        bangs = {'parts': ['{[#A;q=1][#B][#A]}', '{#A=[!]C[C;x=R;0.5][!],#B=[!]CO[!]}'], 'aa': True, 'feat': 'bang-cuts:'}
        for v in (base, cg, three, cg2, unit, zero, zerocg, virt, virt2, virt3, cgm, threem, bangs):
            fs = all_faults(v)
            if v not in (virt, virt2, virt3):
                # the several-nodes family in full on the three strings above, every third case elsewhere
                multi = [f for f in fs if f.get('multi')]
                fs = [f for f in fs if not f.get('multi')] + multi[::3]
            for f in fs:
                out.append(mk_case(f, v, '.'.join(v['parts'])))
        # histories that re-use one list of fragment dicts (from_fragment_dicts)
        for v in (virt, virt2, virt3, base, three):
            fs = [f for f in frag_faults(v) + multi_frag_faults(v) if f['level'] == 0]
            for f in (fs if v is virt else fs[::2]):
                out.append(dict(mk_case(f, v, '.'.join(v['parts'])), history={'mode': 'frag_dicts'}))
        # call histories: a fragment library is built from the very fragment list of the string first
        lib = {'parts': ['{[#A][#A]([#A])[#A]}', '{#A=[$]CC[$][$]}'], 'aa': True}
        for v in (lib, cg, three, base):
            fr = frag_faults(v)
            for k, f in enumerate(fr):
                h = history_for(v['parts'], v['aa'], f['level'], HIST_MODES[k % 3])
                if h:
                    out.append(dict(f, aa=v['aa'], valid='.'.join(v['parts']), history=h))
        return out

    def generate(self, ctx, n):
        rng = ctx.rng
        out = []
        tries = 0
        per = 60 if not ctx.thorough() else 100000
        while len(out) < n and tries < 20 * n:
            tries += 1
            v = rand_valid(rng)
            vs = '.'.join(v['parts'])
            if resolve_all(vs, v['aa']) is not None:
                continue                      # not a valid string for the code: outside the domain
            fs = all_faults(v)
            vok = {}
            for f in fs:
                if 'valid' in f and f['valid'] not in vok:
                    vok[f['valid']] = resolve_all(f['valid'], v['aa']) is None
            fs = [f for f in fs if vok.get(f.get('valid'), True)]     # the extended valid string must itself resolve
            if len(fs) > per:
                # keep every kind represented, positions sampled
                by = {}
                for f in fs:
                    by.setdefault((f['kind'], f['fault'], f.get('m') == 0, f.get('multi') or ''), []).append(f)
                fs = []
                for k in sorted(by):
                    fs += rng.sample(by[k], min(len(by[k]), max(4, per // len(by))))
            fs = fs + with_histories(rng, v, fs, 8 if not ctx.thorough() else 40)
            for f in fs:
                out.append(mk_case(f, v, vs))
        return out[:n]

    def run_impl(self, case):
        if resolve_all(case['valid'], case['aa']) is not None:
            return {'skip': 'baseline string is not valid for the code'}
        dicts = None
        if case.get('history'):
            if case['history']['mode'] == 'frag_dicts':
                herr, dicts = shared_dicts_history(case)
            else:
                herr = play_history(case)
            if herr is not None:
                return {'skip': 'the history itself failed: ' + herr}
        rec = [] if case['kind'] == 'frag' else None
        exc = resolve_all(case['s'], case['aa'], record=rec, dicts=dicts)
        out = {'exc': exc}
        if case['kind'] == 'annot':
            cands = set(c14.candidates(case['text']))
            for m in re.finditer(r'\[[^\]]*\]', case.get('frag_text', '')):
                cands |= c14.candidates(m.group(0)[1:-1])
            out['table'] = c14.float_table(cands)
        if case['kind'] == 'ring':
            out['table'] = c14.float_table({c for m in NODE_RE.finditer(case['reader_text'])
                                            for c in c14.candidates(m.group(0)[2:-1])})
        if self.base_fault(case):
            out['base_table'] = c14.float_table({c for m in NODE_RE.finditer(case['s'].split('}')[0])
                                                 for c in c14.candidates(m.group(0)[2:-1])})
        if 'frag_text' in case:
            out['all_table'] = c14.float_table({c for m in re.finditer(r'\[[^\]]*\]', case['s'])
                                                for c in c14.candidates(m.group(0)[1:-1].lstrip('#'))})
        if case['kind'] == 'frag':
            hit = [r for r in rec if any(nm == 'ZZ' for _, nm in r['nodes'])]
            if not hit:
                return {'skip': 'renamed node never reached a resolve step'}
            r = hit[0]
            bad = [k for k, nm in r['nodes'] if nm == 'ZZ']
            real = [k for k in bad if any(o != 0 for u, v, o in r['edges'] if k in (u, v))]
            if not real:
                return {'skip': 'renamed node is virtual (all incident orders 0): not a fault'}
            if not all(isinstance(o, int) for _, _, o in r['edges']):
                return {'skip': 'non-integer order'}
            # the fragments the STRING defines for this level (the string is from_string's only input; the dict
            # the code actually used is r['dict'] and must be the same)
            blocks = BLOCK_RE.findall(case['s'])
            defined = [n for n, _, _ in fragment_defs(blocks[case['level'] + 1])] if case['level'] + 1 < len(blocks) else []
            out.update(nodes=r['nodes'], edges=r['edges'], dict=sorted(set(defined)), used_dict=r['dict'], bad=real[0])
        return out

    @staticmethod
    def base_fault(case):
        """a ring or annotation fault in the base block: also judged through the driver model (Pipeline.from_string)"""
        return (case['kind'] == 'ring' and case['where'][0] == 0) or (case['kind'] == 'annot' and case['lk'] == 0)

    def coq_case(self, case, impl):
        inner = self.coq_case1(case, impl)
        if 'skip' not in impl and self.base_fault(case):
            return '(FBase %s %s %s)' % (inner, c14.coq_table(impl['base_table']), lit.s(case['s']))
        if 'skip' not in impl and 'frag_text' in case:
            return '(FFragDrive %s %s %s %s)' % (inner, c14.coq_table(impl['all_table']), lit.s(case['s']),
                                                'true' if case['aa'] else 'false')
        return inner

    def coq_case1(self, case, impl):
        if 'skip' in impl:
            return '(FRing 1%nat [EvRing 0%Z 1%Z] 1%Z [] (S "{[#A]1}") (Some (ESyntax (S "dangling"))))'
        im = 'None' if impl['exc'] is None else '(Some %s)' % c14.coq_err(impl['exc'])
        if case['kind'] == 'annot' and 'frag_text' in case:
            # fragment atoms / coarse nodes of a fragment definition: also the strip component's character machine on the
            # whole faulty fragment text
            return '(FStrip %s %s %s %s %s %s)' % (lit.nat(case['lk']), lit.nat(case['fault']), c14.coq_table(impl['table']),
                                                  lit.s(case['text']), lit.s(case['frag_text']), im)
        if case['kind'] == 'annot':
            return '(FAnnot %s %s %s %s %s)' % (lit.nat(case['lk']), lit.nat(case['fault']), c14.coq_table(impl['table']),
                                               lit.s(case['text']), im)
        if case['kind'] == 'ring':
            evs, _ = events(case['graph_text'])
            ev = lit.lst(['(EvNode %s %s)' % (lit.z(e[1]), lit.opt(e[2], lit.z)) if e[0] == 'N'
                          else '(EvRing %s %s)' % (lit.z(e[1]), lit.z(e[2])) for e in evs])
            return '(FRing %s %s %s %s %s %s)' % (lit.nat(case['fault']), ev, lit.z(case['m']), c14.coq_table(impl['table']),
                                                 lit.s(case['reader_text']), im)
        nodes = lit.lst([lit.pair(lit.z(k), lit.s(nm if nm is not None else '')) for k, nm in impl['nodes']])
        edges = lit.lst(['(%s, %s, %s)' % (lit.z(u), lit.z(v), lit.z(o)) for u, v, o in impl['edges']])
        return '(FFrag %s %s %s %s %s)' % (nodes, edges, lit.lst([lit.s(d) for d in impl['dict']]), lit.z(impl['bad']), im)

    def known_class(self, case, impl, code):
        return 'coarse_fragment_nonnumeric_charge' if code == 101 else None

    def describe(self, case):
        return case

    def nontrivial(self, case, impl):
        return 'skip' not in impl

    def case_class(self, case, impl):
        if 'skip' in impl:
            return 'skipped:' + impl['skip']
        levels = case['valid'].count('}.{') + 1
        where = ''
        if case['kind'] == 'annot':
            where = ':%s' % {0: 'base-node', 1: 'atom', 2: 'coarse-fragment-node'}[case['lk']]
        elif case['kind'] in ('ring', 'frag'):
            where = ':level%d' % case['where'][0]
            if case['kind'] == 'ring' and case.get('m') == 0:
                where += ':marker0'
            if case.get('form') == 'pct':
                where += ':%nn' + (':last-node' + ('' if case.get('trailing') else ':at-end') if case.get('last') else '')
        hist = 'history:%s:' % case['history']['mode'] if case.get('history') else ''
        if case.get('in_unit'):
            hist += 'in-multiplied-unit:'
        if case.get('multi'):
            hist += 'name-on-several-nodes:%s:' % case['multi']
        hist += case.get('feat', '')
        return '%sfault%d%s:%dlevels:%s' % (hist, case['fault'], where, levels, impl['exc'] or 'GRAPH')


PROP = C20()
