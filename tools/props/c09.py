"""C09 — every atom of an atomistic result has a complete, standard valence.

Tie: rebuild_h_atoms and the pysmiles helpers it calls (valence / bonds_missing / fill_valence /
add_explicit_hydrogens) are hand-modelled in theories/Hydro/Hydrogens.v over a valence table that
tools/gen_hydro.py obtains by CALLING the installed pysmiles on every run.  The model is compared on
every run with the real call of rebuild_h_atoms made inside a real resolve_all() / sample(): the
harness wraps the function (no change to /repo), records the molecule when it is entered, the state
right after pysmiles' correct_aromatic_rings and the molecule when it returns.  correct_aromatic_rings /
dekekulize are modelled as well (theories/Hydro/Aromatic.v): from the entered molecule and two recorded answers of
networkx' enumeration (the kekulisation matching, the rings dekekulize marked) the model computes the state after
the step, which must equal the recorded one.
The property's clauses (theories/Hydro/HydroCheck.v) are evaluated in Coq on the molecule the
IMPLEMENTATION finally returns."""
import copy
import logging
import random as _random

import networkx as nx

import common
import gens
import lit

logging.getLogger('cgsmiles').setLevel(logging.ERROR)     # the 'H fragment' notice would clutter the check's output

ELEMENTS = set("H B C N O F Na Mg Si P S Cl Br I".split())
CHARGES = {-2, -1, 0, 1, 2}


# ------------------------------------------------------------------------------ recording
class Recorder:
    """wraps rebuild_h_atoms (as imported into resolve.py / sample.py) and, while it runs,
    pysmiles.smiles_helper.correct_aromatic_rings"""

    def __init__(self, with_utils=False):
        self.calls = []
        self.with_utils = with_utils      # also wrap the name compute_mass uses (helper stream only)

    def install(self):
        import pysmiles
        import cgsmiles.resolve as R
        import cgsmiles.sample as SA
        import cgsmiles.pysmiles_utils as PU
        self.mods = (R, SA, PU) if self.with_utils else (R, SA)
        self.orig = PU.rebuild_h_atoms
        self.saved = [(m, m.rebuild_h_atoms) for m in self.mods]
        helper = pysmiles.smiles_helper
        orig_car = helper.correct_aromatic_rings
        rec = self

        def car(mol, *a, **k):
            ev = {}
            rec.calls[-1]['car_args'] = (a, k)
            try:
                r = traced_car(orig_car, ev, mol, *a, **k)
            except SyntaxError:
                rec.calls[-1]['car'] = None
                rec.calls[-1].update(ev)
                raise
            rec.calls[-1]['car'] = copy.deepcopy(mol)
            rec.calls[-1].update(ev)
            return r

        def rebuild(mol, *a, **k):
            call = {'before': copy.deepcopy(mol), 'args': (a, k), 'car': 'not called'}
            rec.calls.append(call)
            helper.correct_aromatic_rings = car
            try:
                rec.orig(mol, *a, **k)
            except Exception as exc:
                call['exc'] = type(exc).__name__
                raise
            finally:
                helper.correct_aromatic_rings = orig_car
            call['after'] = copy.deepcopy(mol)
        for m in self.mods:
            m.rebuild_h_atoms = rebuild
        return self

    def remove(self):
        for m, f in self.saved:
            m.rebuild_h_atoms = f


_THRESHOLD = []


def estimation_threshold():
    """dekekulize's default estimation_threshold, read from the installed source (as tools/gen_hydro.py does)"""
    if not _THRESHOLD:
        import inspect
        import re
        from pysmiles import smiles_helper as SH
        m = re.findall(r'estimation_threshold = estimation_threshold if estimation_threshold is not None else (\d+)',
                       inspect.getsource(SH.dekekulize))
        _THRESHOLD.append(int(m[0]) if len(m) == 1 else 30)
    return _THRESHOLD[0]


def traced_car(orig_car, ev, mol, *a, **k):
    """run correct_aromatic_rings and record the two answers of networkx' enumeration the model takes as transcripts:
    ev['match'] = the first nx.max_weight_matching answer (the kekulisation matching), ev['rings'] = the rings
    dekekulize marked, in order, each with the flag `estimated` (ring system above the threshold: no alternation test)"""
    import networkx
    from pysmiles import smiles_helper as SH
    ev['match'] = None
    ev['rings'] = []
    o_mwm, o_ria, o_est = networkx.max_weight_matching, SH._ring_is_aromatic, SH._estimate_aromatic_cycles
    thr = k.get('estimation_threshold') or estimation_threshold()

    def mwm(G, *aa, **kk):
        r = o_mwm(G, *aa, **kk)
        if ev['match'] is None:
            ev['match'] = sorted(tuple(e) for e in r)
        return r

    def ria(m, nodes):
        r = o_ria(m, nodes)
        if r:
            ev['rings'].append((list(nodes), False))
        return r

    def est(m):
        r = o_est(m)
        if len(m) > thr:
            r = list(r)
            ev['rings'].extend((list(c), True) for c in r)
        return r
    networkx.max_weight_matching, SH._ring_is_aromatic, SH._estimate_aromatic_cycles = mwm, ria, est
    try:
        return orig_car(mol, *a, **k)
    finally:
        networkx.max_weight_matching, SH._ring_is_aromatic, SH._estimate_aromatic_cycles = o_mwm, o_ria, o_est


def lit_match(M):
    return lit.lst(['(%s, %s)' % (lit.z(u), lit.z(v)) for u, v in (M or [])])


def lit_rings(L):
    return lit.lst(['(%s, %s)' % (lit.lst([lit.z(x) for x in c]), lit.b(e)) for c, e in (L or [])])


def in_table(G):
    for _, d in G.nodes(data=True):
        e = d.get('element')
        q = d.get('charge', 0)
        if not isinstance(e, str) or e.capitalize() not in ELEMENTS:
            return False
        if isinstance(q, bool) or not isinstance(q, int) or q not in CHARGES:
            return False
    return True


def stereo_printable(d):
    """rs_isomer (a tuple of four node keys) and ez_isomer (a list of (key, key, key, key, 'cis'|'trans')) are carried by
    the model like any other attribute value; anything else under these names is outside the literal printers"""
    rs = d.get('rs_isomer')
    if 'rs_isomer' in d and not (isinstance(rs, (tuple, list)) and all(isinstance(x, int) and not isinstance(x, bool) for x in rs)):
        return False
    ez = d.get('ez_isomer')
    if 'ez_isomer' in d and not (isinstance(ez, (tuple, list)) and all(
            isinstance(e, (tuple, list)) and all(isinstance(x, (int, str)) and not isinstance(x, bool) for x in e) for e in ez)):
        return False
    return True


def modelable(G):
    """values the Gallina literal printers and the half-unit arithmetic cover"""
    for _, d in G.nodes(data=True):
        if not stereo_printable(d):
            return False
    for _, _, d in G.edges(data=True):
        o = d.get('order', 1)
        if isinstance(o, bool) or not isinstance(o, (int, float)) or o < 0 or (2 * o) != int(2 * o):
            return False
    return True


EXECUTED = []      # preludes that have run in this process, in order of first execution
PRELUDES = ['mass-plain', 'rebuild-plain', 'mass-fragment', 'sampler-ctor', 'resolve-other', 'rebuild-custom-attrs']


def run_prelude(name):
    """a HISTORY: something else happens in the same process before the judged call (shared state such as
    mutable default arguments or module globals must not leak into it).  Nothing is restored afterwards."""
    import pysmiles
    import cgsmiles.pysmiles_utils as PU
    from cgsmiles.resolve import MoleculeResolver
    from cgsmiles.sample import MoleculeSampler
    try:
        if name == 'mass-plain':            # the use compute_mass' docstring describes: a plain pysmiles graph
            PU.compute_mass(pysmiles.read_smiles('CCO'))
        elif name == 'rebuild-plain':
            PU.rebuild_h_atoms(pysmiles.read_smiles('c1ccccc1N', explicit_hydrogen=False))
        elif name == 'mass-fragment':
            g = pysmiles.read_smiles('CC(=O)O')
            nx.set_node_attributes(g, 'X', 'fragname')
            PU.compute_mass(g)
        elif name == 'sampler-ctor':
            MoleculeSampler.from_fragment_string('{#A=[$]CC[$],#B=[$]O}', polymer_reactivities={'$': 1.0}, seed=3)
        elif name == 'resolve-other':
            MoleculeResolver.from_string('{[#Q]|2}.{#Q=[$]CO[$]}').resolve_all()
        elif name == 'rebuild-custom-attrs':
            PU.rebuild_h_atoms(pysmiles.read_smiles('CN'), copy_attrs=['fragid'])
    except Exception:          # noqa: BLE001 - the prelude's own outcome is not judged
        pass


def drive(case):
    """run the implementation; returns (recorder.calls, final graph or None, exception name or None)"""
    from cgsmiles.resolve import MoleculeResolver
    from cgsmiles.sample import MoleculeSampler
    # what ran earlier in this process is part of the input: it is recorded in the case so that a replay
    # (fresh process) re-creates the same history before the judged call
    if 'process_history' not in case:
        case['process_history'] = list(EXECUTED)
    for name in [p for p in case['process_history'] if p not in EXECUTED] + list(case.get('prelude', [])):
        run_prelude(name)
        if name not in EXECUTED:
            EXECUTED.append(name)
    rec = Recorder().install()
    final, exc = None, None
    try:
        if case['kind'] == 'resolve':
            resolver = MoleculeResolver.from_string(case['s'], legacy=case.get('legacy', True))
            meta, final = resolver.resolve_all()
            # the coarse graph that comes back with the molecule: node key -> fragname (for the own-fragment clause)
            case['_coarse'] = [[k, d.get('fragname')] for k, d in meta.nodes(data=True)
                               if isinstance(k, int) and isinstance(d.get('fragname'), str)]
        else:
            st = _random.getstate()
            try:
                sampler = MoleculeSampler.from_fragment_string(case['s'], polymer_reactivities=case['react'],
                                                               fragment_reactivities=case.get('freact', {}),
                                                               terminal_bonds=case.get('terminal', []),
                                                               seed=case['seed'])
                final = sampler.sample(case['w'], start_fragment=case.get('start'))
            finally:
                _random.setstate(st)
    except Exception as exc_:      # noqa: BLE001 - every exception class is part of the observable
        exc = type(exc_).__name__
    finally:
        rec.remove()
    return rec.calls, final, exc


def summarise(G):
    if G is None:
        return None
    heavy = [n for n, d in G.nodes(data=True) if d.get('element') != 'H']
    return {'atoms': len(G), 'heavy': len(heavy), 'H': len(G) - len(heavy), 'bonds': G.number_of_edges()}


# ------------------------------------------------------------------------------ generators
POLY = [
    ('{[#A]|%d}', ['#A=[$]CC[$]', '#A=[>]CC(C)[<]', '#A=[$]COC[$][$]', '#A=[$]C=C[$]', '#A=[>]CC(c1ccccc1)[<]',
                   '#A=[$]CC(C(=O)OC)[$]', '#A=[<]N[$]C(=O)[>]', '#A=[$]C([$])C[$]', '#A=[$]=CC=[$]']),
    ('{[#E][#A]|%d[#E]}', ['#A=[$]CC[$],#E=[$]C', '#A=[>]COC[<],#E=[<][>]O', '#A=[$]CC[$],#E=[$][H]',
                            '#A=[>]CC[<],#E=[$]F', '#A=[$]C[Si](C)(C)O[$],#E=[$]C[$]']),
]
RINGS = ['{[#A]1[#A][#A]1}.{#A=[$]cc[$]}', '{[#A]1[#A][#A][#A]1}.{#A=[$]CO[$]}', '{[#A]1[#A][#A]1}.{#A=[>]CC[<]}',
         '{[#A]1[#A][#A][#A][#A]1}.{#A=[$]C[$]}', '{[#A]1[#A][#A]1}.{#A=[$]C(C)N[$]}', '{[#A]1[#A][#A]1}.{#A=[$]c[$]c}',
         '{[#A]1[#B][#A][#B]1}.{#A=[$]C=C[$],#B=[$]O[$]}', '{[#A]1[#A]|4[#A]1}.{#A=[$]C[$]}']
GRAFTS = ['{[#A]([#B][#B])[#A]([#B])[#A]}.{#A=[$]CC([<])[$],#B=[>]COC[<]}',
          '{[#A]([#B])([#B])[#A]}.{#A=[$]C([<])([<])[$],#B=[>]CC}',
          '{[#A]([#B]|3)[#A]([#B]|2)[#A]}.{#A=[$]CC([$g])[$],#B=[$g]CO[$g]}',
          '{[#A]([#B]([#C])[#C])[#A]}.{#A=[$]C[$][$],#B=[$]N([$])[$],#C=[$]C(=O)C}',
          '{[#A]([#B])[#A]([#B])[#A]([#B])}.{#A=[>]CC[<][$],#B=[$]c1ccccc1}']
CHARGED = ['C[NH3+]', 'C(=O)[O-]', 'C[N+](C)(C)C', '[NH4+]', '[O-]C', 'C[N+](=O)[O-]', '[Na+]', '[Cl-]', 'C[S-]',
           'C[NH2+]C', '[CH2-]C', 'C[O+](C)C', 'CS(=O)(=O)[O-]', 'OP(=O)([O-])O', '[NH3+]CC(=O)[O-]', 'c1cc[nH+]cc1',
           '[BH4-]', 'C[B-](C)(C)C', '[Mg+2]', '[OH-]', 'C[P+](C)(C)C', 'C=[N+]=[N-]', '[N-]=[N+]=NC', '[C-]#[O+]',
           'C[Si](C)(C)C', 'CBr', 'CI', 'FC(F)F', 'ClC(Cl)Cl', 'CS(C)=O', 'CP(C)C', 'B(C)(C)C', 'N#CC', 'O=C=O']
AROM_SPLIT = ['{[#A]=[#B]}.{#A=[$]ccc[$],#B=[$]ccc[$]}', '{[#R][#M]}.{#R=c1ccccc1[$],#M=[$]C}',
              '{[#A]=[#B]}.{#A=[$]cnc[$],#B=[$]ccc[$]}', '{[#A]=[#B]}.{#A=[$]c[nH]c[$],#B=[$]cc[$]}',
              '{[#A]=[#B]}.{#A=[$]csc[$],#B=[$]cc[$]}', '{[#A]=[#B]}.{#A=[$]c1ccc2c(c1)[$],#B=[$]cccc2[$]}',
              '{[#A][#B]}.{#A=c1ccccc1[$],#B=[$]c1ccccc1}', '{[#A]=[#B]}.{#A=[$]c(C)cc[$],#B=[$]c(O)c(N)c[$]}',
              '{[#A]=[#B]}.{#A=[$]cc[$],#B=[$]cccc[$]}', '{[#A]=[#B]}.{#A=[$]coc[$],#B=[$]cc[$]}',
              '{[#A]=[#B]=[#C]}.{#A=[$]cc[$],#B=[$]c[$]c[$][$],#C=[$]cccc[$]}',
              '{[#A][#B][#A]}.{#A=[$]c1ccccc1,#B=[$]c1ccc([$])cc1}', '{[#A]=[#B]}.{#A=[$]c[n+](C)c[$],#B=[$]ccc[$]}',
              '{[#A]#[#B]}.{#A=[$]c[$]c[$],#B=[$]cc[$]c[$]c}', '{[#A]=[#B]}.{#A=[$]C=CC=[$],#B=[$]=CC=C[$]}',
              '{[#A][#B]}.{#A=c1ccccc1[>],#B=[<]c1ccncc1}', '{[#A]1[#B][#C]1}.{#A=[$]cc[$],#B=[$]cn[$],#C=[$]cc[$]}']
EXPLICIT_H = ['{[#A][#H]}.{#A=CC[$],#H=[$][H]}', '{[#H][#A][#H]}.{#A=[$]CC[$],#H=[$][H]}', '{[#A]}.{#A=C[H;w=0.5]}',
              '{[#A]}.{#A=[H]C([H])([H])C}', '{[#A][#B]}.{#A=[H]C([H])[$],#B=[$]O[H]}', '{[#A][#H]}.{#A=[$]N(C)C,#H=[$][H]}',
              '{[#A][#H]}.{#A=c1ccccc1[$],#H=[$][H]}', '{[#H][#O][#H]}.{#O=[$]O[$],#H=[$][H]}',
              '{[#A]([#H])[#H]}.{#A=[$]C[$]C,#H=[$][H]}', '{[#A]}.{#A=[CH2]C}', '{[#A]}.{#A=[CH4]}', '{[#A]}.{#A=[H]O[H]}',
              '{[#A][#B]}.{#A=C([H;w=2])[$],#B=[$]C}', '{[#A]}.{#A=C([H;x=a])O}', '{[#A][#H]}.{#A=[$][NH3+],#H=[$][H]}']
SAMPLER = [
    {'s': '{#A=[$]CC[$],#B=[$]C(C)C[$]}', 'react': {'$': 1.0}},
    {'s': '{#PEO=[>]COC[<],#PE=[>]CC[<]}', 'react': {'>': 0.5, '<': 0.5}},
    {'s': '{#A=[$]CC[$],#T=[$]O}', 'react': {'$': 1.0}, 'terminal': []},
    {'s': '{#S=[>]CC(c1ccccc1)[<],#M=[>]CC(C(=O)OC)[<]}', 'react': {'>': 0.4, '<': 0.6}},
    {'s': '{#A=[$]C([$])C[$]}', 'react': {'$': 1.0}},
    {'s': '{#A=[$]CC[$],#N=[$]C[NH3+]}', 'react': {'$': 1.0}},
    {'s': '{#A=[$A]CC[$B],#B=[$A]N[$B]C(=O)}', 'react': {'$A': 0.5, '$B': 0.5}},
    {'s': '{#A=[$]cc[$],#B=[$]c(C)c[$]}', 'react': {'$': 1.0}},
    {'s': '{#A=[$]=CC=[$],#B=[$]=C(C)C=[$]}', 'react': {'$2': 1.0}},
]
# terminal_bonds: attaching a terminal fragment deletes the `bonding` attribute of the source atom, so
# rebuild_h_atoms meets atoms WITHOUT `bonding` that carry a stale hcount
SAMPLER_TERMINAL = [
    {'s': '{#PMA=[>]CC[<]C(=O)OC[>A],#PEG=[<A]COC[>A][$A],#OH=[$B]O}', 'terminal': ['$A', '$B'],
     'react': {'<': 0.1, '>': 0.1, '>A': 0.8, '<A': 0.8, '$A': 0.3, '$B': 0.0},
     'freact': {'$A': {'$A': 0, '$B': 1.0}}, 'start': 'PMA', 'wts': [150, 300, 700]},
    {'s': '{#VDF=[<]CC[>][$T],#FL=[$T]F}', 'terminal': ['$T'], 'react': {'<': 0.4, '>': 0.4, '$T': 0.2},
     'start': 'VDF', 'wts': [100, 200, 400]},
    {'s': '{#A=[<]CC[>][$T],#OH=[$T]O}', 'terminal': ['$T'], 'react': {'<': 0.3, '>': 0.3, '$T': 0.4},
     'start': 'A', 'wts': [60, 120, 250]},
    {'s': '{#S=[<]CC([>])c1ccccc1[$X],#M=[$X]C}', 'terminal': ['$X'], 'react': {'<': 0.35, '>': 0.35, '$X': 0.3},
     'start': 'S', 'wts': [200, 400]},
    {'s': '{#A=[<]NC([$R])C(=O)[>],#R=[$R]C[NH3+],#Q=[$R]CC(=O)[O-]}', 'terminal': ['$R'],
     'react': {'<': 0.3, '>': 0.3, '$R': 0.4}, 'start': 'A', 'wts': [150, 300]},
]
# ':' (order 1.5) bonds between atoms that are NOT written aromatic, Kekule-written rings, and no lower-case atom
# anywhere in the string (a shortcut that skips the aromaticity pass for "aliphatic" input would leave 1.5 orders)
COLON_KEKULE = ['{[#A]}.{#A=CC:CC}', '{[#A]|3}.{#A=[>]C:C[<]}', '{[#A][#B]}.{#A=[$]CC(:O):O,#B=[$]C}',
                '{[#A][#B]}.{#A=OC:C[$][$],#B=[$]N}', '{[#A]}.{#A=C1=CC=CC=C1}', '{[#A][#B]}.{#A=C1=CC=CC=C1[$],#B=[$]C}',
                '{[#A]=[#B]}.{#A=[$]C=CC=[$],#B=[$]=CC=C[$]}', '{[#A]}.{#A=C:1:C:C:C:C:C1}', '{[#A]}.{#A=N:C}',
                '{[#A]|2}.{#A=[$]C:C:C[$]}', '{[#A][#B]}.{#A=C1=CC=CN=C1[$],#B=[$]O}', '{[#A]}.{#A=O:C:O}',
                '{[#A][#B]}.{#A=[$]C(:O)N,#B=[$]CC:C}', '{[#A]}.{#A=C1=CC=C2C=CC=CC2=C1}', '{[#A]}.{#A=C1=COC=C1}',
                '{[#A][#B]}.{#A=C:C[$],#B=[$]C1=CC=CC=C1}', '{[#A]}.{#A=[NH3+]C:C}', '{[#A]}.{#A=C:N:C}']
COLON_SAMPLER = [{'s': '{#A=[>]C:C[<]}', 'react': {'>': 0.5, '<': 0.5}},
                 {'s': '{#A=[$]C:CC[$],#B=[$]C(:O)[$]}', 'react': {'$': 1.0}},
                 {'s': '{#A=[$]CC[$],#K=[$]C1=CC=CC=C1}', 'react': {'$': 1.0}}]
# falsy attribute values on hydrogen-bearing atoms (weight 0 / 0.0) and on explicit hydrogens
ZERO_WEIGHT = ['{[#SP4]1[#SP4][#SP1r]1}.{#SP4=[OH;0.5][C;0.1][$]C[$]O,#SP1r=[$]OC[$]CO}',
               '{[#A][#B]}.{#A=CC[C;0][$],#B=[$][C;0]CO}', '{[#A][#B]}.{#A=CC[C;w=0][$],#B=[$]CO}',
               '{[#A][#B]}.{#A=OC[C;w=0][!],#B=[!][C;w=0]CC}', '{[#A][#B]}.{#A=N[C;0]([$])[$],#B=[$]CC}',
               '{[#A]}.{#A=[C;0]}', '{[#A]}.{#A=C[N;w=0.0]}', '{[#A]|3}.{#A=[$][C;0]C[$]}', '{[#A]}.{#A=C[H;0]}',
               '{[#A][#B]}.{#A=C([H;w=0])[$],#B=[$][O;0]}', '{[#A][#H]}.{#A=[C;0][$],#H=[$][H]}',
               '{[#A]}.{#A=[c;0]1ccccc1}', '{[#A][#B]}.{#A=[$][c;0]1ccccc1,#B=[$][N;0]}', '{[#A]}.{#A=[OH;0]C}',
               '{[#A][#B]}.{#A=C[C;0.0][$],#B=[$][C;w=0.5]}']


def rand_smiles_fragment(rng, charged_p=0.3):
    if rng.random() < charged_p:
        return rng.choice(CHARGED)
    return rng.choice(gens.AA_SKELETONS + ['C(=O)N', 'CC(=O)OC', 'c1ccsc1', 'C1CCOC1', 'CC#N', 'OP(=O)(O)O', 'CSC', 'NC(N)=O'])


# (written before the shared atom, written after it): the atom next to the shared atom is a carbon / the hetero atom itself
SQ_SUBS = [('C', 'C'), ('O', 'O'), ('N', 'N'), ('Cl', 'Cl'), ('F', 'F'), ('CC', 'CC'), ('OC', 'CO'), ('O=C', 'C=O'), ('S', 'S'),
           ('NC', 'CN'), ('C#C', 'C#C')]


def squash_chain(rng):
    """one atom shared by three or more fragments that FOLLOW each other in the sequence: the middle fragments
    carry two `[!]` on the shared atom; the shared atom (C, Si or N+) still needs hydrogens"""
    el, cap = rng.choice([('C', 4), ('C', 4), ('C', 4), ('[Si]', 4), ('[N+]', 4)])
    n = rng.randint(3, 5)
    room = cap - 1 - (1 if rng.random() < 0.7 else 0)      # substituents in total; usually leave a hydrogen
    subs = []
    for i in range(n):
        if room > 0 and rng.random() < 0.75:
            subs.append(rng.choice(SQ_SUBS))
            room -= 1
        else:
            subs.append(('', ''))
    lab = rng.choice(['', '', 'a'])
    bang = '[!%s]' % lab
    frs = []
    names = ['A', 'B', 'C', 'D', 'E'][:n]
    for i, (pre, post) in enumerate(subs):
        if i == 0:
            frs.append('#%s=%s%s%s' % (names[i], pre, el, bang))
        elif i == n - 1:
            frs.append('#%s=%s%s%s' % (names[i], bang, el, post))
        else:
            frs.append('#%s=%s%s(%s)%s' % (names[i], bang, el, bang, post) if post else '#%s=%s%s%s' % (names[i], bang, el, bang))
    # a tail on the last fragment through an ordinary descriptor, sometimes
    base = ''.join('[#%s]' % nm for nm in names)
    if rng.random() < 0.3:
        frs[-1] = frs[-1] + 'C[$]'
        frs.append('#T=[$]C%s' % rng.choice(['', 'O', 'N']))
        base += '[#T]'
    return '{' + base + '}.{' + ','.join(frs) + '}'


def squash_hcap(rng):
    """a single-hydrogen fragment (#H=[$h][H]) bonded by a descriptor to an atom that two, three or four fragments
    share through `!` (chain or star), the cap written on any of the copies; sometimes two caps"""
    n = rng.randint(2, 4)
    star = n >= 3 and rng.random() < 0.4
    names = ['A', 'B', 'C', 'D'][:n]
    ncaps = 1 if rng.random() < 0.8 else 2
    room = 4 - 1 - ncaps
    subs = []
    for i in range(n):
        if room > 0 and rng.random() < 0.7:
            subs.append(rng.choice(SQ_SUBS))
            room -= 1
        else:
            subs.append(('', ''))
    caps = {}
    for c in range(ncaps):
        j = rng.randrange(n)
        caps.setdefault(j, []).append('[$h%d]' % c)
    frs = []
    for i, (pre, post) in enumerate(subs):
        cap = ''.join(caps.get(i, []))
        if star:
            bangs = '[!]' * (n - 1) if i == 0 else '[!]'
        else:
            bangs = '[!]' if i in (0, n - 1) else '[!][!]'
        # descriptors directly after the shared atom; a substituent before it (first fragment) or after it
        if i == 0:
            frs.append('#%s=%sC%s%s' % (names[i], pre, bangs, cap))
        else:
            frs.append('#%s=C%s%s%s' % (names[i], bangs, cap, post))
    hnames = []
    for c in range(ncaps):
        hn = 'H%d' % c if ncaps > 1 else rng.choice(['H', 'Hter'])
        hnames.append(hn)
        frs.append('#%s=[$h%d][H]' % (hn, c))
    # coarse graph: chain A-B-C-D or star A(-B)(-C)(-D); every cap a branch on the fragment that carries it
    where = {}
    for j, ds in caps.items():
        for d in ds:
            where.setdefault(j, []).append(hnames[int(d[3:-1])])

    def node(i):
        return '[#%s]' % names[i] + ''.join('([#%s])' % h for h in where.get(i, []))
    if star:
        base = node(0) + ''.join('(%s)' % node(i) for i in range(1, n - 1)) + node(n - 1)
    else:
        base = ''.join(node(i) for i in range(n))
    if rng.random() < 0.3:      # the hydrogen fragment first in the sequence, as in the documented end-cap pattern
        j = next(iter(where))
        h = where[j].pop(0)
        if not star and j == 0:
            base = '[#%s]' % h + ''.join(node(i) for i in range(n))
        else:
            where[j].insert(0, h)
    return '{' + base + '}.{' + ','.join(frs) + '}'


# cis/trans marks ('/' and '\') in fragments.  strip_bonding_descriptors files a mark under the index of the atom
# written before it AND under the index of the atom expected after it; when the mark stands directly in front of a
# bonding descriptor (or is the last token of the fragment) that second index names no written atom -- it is the
# index pysmiles gives the first implicit hydrogen.  The head atom (the first hydrogen-bearing atom of the fragment)
# is taken both from atoms that end up fully substituted in the chain (in-chain O / S, N with two links, quaternary
# C / Si) and from atoms that still need hydrogens.
EZ_HEADS_FULL = ['O', 'S', 'N(C)', 'C(C)(C)', 'C(F)(F)', '[Si](C)(C)', 'N(CC)', 'C(C)(F)', '[N+](C)(C)']
EZ_HEADS_OPEN = ['C', 'N', 'CC', 'C(C)', 'OC', 'CO', '[NH2+]', 'CS']
EZ_CORES = ['C=C', 'C=C', 'C(C)=C', 'C=C(C)', 'C(F)=C', 'C=C(Cl)', 'C=N']
EZ_TAILS = ['', '', '', 'C', 'O', 'N(C)', 'CC', 'S']
EZ_FIXED = ['{[#A][#B]}.{#A=C\\C=C/[$],#B=[$]/C=C/C}', '{[#A][#B]}.{#A=CC(/F)=[$],#B=[$]=C(\\F)C}',
            '{[#A][#B]}.{#A=F/C=C/[$],#B=[$]O}', '{[#A]}.{#A=F/C=C/F}', '{[#A]}.{#A=C/C=C\\C}',
            '{[#A][#B][#C]}.{#A=OC(/F)=[$],#B=[$]=C(\\F)/[$a],#C=[$a]C}',
            '{[#T][#SV]([#T])[#SV][#T]}.{#SV=[>]S/C=C(/[<])[<],#T=[>]C[<]}',
            '{[#T][#A]([#T])[#A][#T]}.{#A=[>]O/C=C(/[<])[<],#T=[>]C[<]}',
            '{[#A][#B]}.{#A=C/C=C/[$],#B=[$]\\C=C\\O}', '{[#A][#B]}.{#A=[$]/C=C/Cl,#B=CO[$]}']
EZ_SAMPLER = [{'s': '{#OV=[>]O/C=C/[<],#EO=[>]OCC[<]}', 'react': {'>': 0.5, '<': 0.5}},
              {'s': '{#SV=[$]S/C=C/[$],#E=[$]CC[$]}', 'react': {'$': 1.0}},
              {'s': '{#A=[>]C/C=C/[<],#B=[>]N(C)\\C=C/[<]}', 'react': {'>': 0.5, '<': 0.5}},
              {'s': '{#A=[>]C(C)(C)/C=C/C[<],#B=[>]O/C=C\\[<]}', 'react': {'>': 0.5, '<': 0.5}}]


def ez_unit(rng, left, right):
    """one fragment text: <left descriptor> head mark core mark tail <right descriptor>"""
    head = rng.choice(EZ_HEADS_FULL if rng.random() < 0.65 else EZ_HEADS_OPEN)
    m1, m2 = rng.choice(['/', '\\']), rng.choice(['/', '\\'])
    core, tail = rng.choice(EZ_CORES), rng.choice(EZ_TAILS)
    r = rng.random()
    if r < 0.15:                   # the second mark in a branch, in front of a descriptor of its own
        return '%s%s%s%s(%s%s)%s' % (left, head, m1, core.replace('=C(C)', '=C').replace('=C(Cl)', '=C'), m2, right, right)
    if r < 0.22 and tail:          # no second mark at all
        return '%s%s%s%s%s%s' % (left, head, m1, core, tail, right)
    return '%s%s%s%s%s%s%s' % (left, head, m1, core, m2, tail, right)


def ez_slash(rng):
    if rng.random() < 0.2:
        return rng.choice(EZ_FIXED)
    kind = rng.choice(['><', '$', '$'])
    left, right = ('[>]', '[<]') if kind == '><' else ('[$]', '[$]')
    n = rng.randint(1, 3)
    frs = ['#V=' + ez_unit(rng, left, right)]
    body = '[#V]' if n == 1 else '[#V]|%d' % n
    if rng.random() < 0.3:         # a second, plain or marked, unit in the chain
        frs.append('#W=' + (ez_unit(rng, left, right) if rng.random() < 0.5 else left + rng.choice(['OCC', 'CC', 'C(=O)N']) + right))
        body = body + '[#W]' if rng.random() < 0.5 else '[#W]' + body
    r = rng.random()
    if r < 0.6:                    # both ends capped
        cap = rng.choice(['C', 'O', 'CC', 'N', '[H]', 'F'])
        if kind == '><':
            frs.append('#T=[>]%s[<]' % cap if cap not in ('[H]', 'F') else '#T=[>][<]%s' % cap)
        else:
            frs.append('#T=[$]%s' % cap)
        body = '[#T]' + body + '[#T]'
    elif r < 0.8:                  # one end capped
        cap = rng.choice(['C', 'O', 'CC'])
        frs.append(('#T=[<]%s' % cap) if kind == '><' else ('#T=[$]%s' % cap))
        body = body + '[#T]'
    return '{' + body + '}.{' + ','.join(frs) + '}'


# tetrahedral centres written with @ / @@ (pysmiles stores `rs_isomer`, a tuple of the four neighbour keys, one of which
# may be an implicit hydrogen) on atoms that carry no descriptor, and the `x=` annotation on atoms that do
CHIRAL_UNITS = ['C[C@H](N)O', 'C[C@@H](N)O', 'N[C@@H](C)C(=O)O', 'F[C@](Cl)(Br)I', 'C[C@H]1CCCO1', '[C@H](F)(Cl)Br', 'O[C@@H](C)CC',
                'C[C@@](N)(O)CC', 'N[C@H](CS)C(=O)O', 'C[C@H](c1ccccc1)N', 'C[S@](=O)CC', 'C[P@](N)(O)=O', 'OC[C@H]1OC(O)[C@H](O)[C@@H](O)[C@@H]1O']
CHIRAL_FIXED = ['{[#A]}.{#A=C[C@H](N)O}', '{[#A]}.{#A=F[C@](Cl)(Br)I}', '{[#A][#B]}.{#A=N[C@@H](C)C(=O)[$],#B=[$]O}',
                '{[#A]|3}.{#A=[>]N[C@@H](C)C(=O)[<]}', '{[#A][#B]}.{#A=C[C@H](N)C[$],#B=[$]O}', '{[#A][#B]}.{#A=[$]C[C@H]1CCCO1,#B=[$]C}',
                '{[#A][#B]}.{#A=C[C;x=S](N)[$],#B=[$]O}', '{[#A]|2}.{#A=[>][C;x=R](C)(F)[<]}', '{[#A][#H]}.{#A=C[C@H](N)C[$],#H=[$][H]}',
                '{[#A][#B]}.{#A=C[C@H](N)C[!],#B=[!]CO}', '{[#A][#B]}.{#A=C[C@]([H])(N)C[$],#B=[$]O}']


def chiral_case(rng):
    if rng.random() < 0.4:
        return rng.choice(CHIRAL_FIXED)
    unit = rng.choice(CHIRAL_UNITS)
    r = rng.random()
    if r < 0.3:
        return '{[#A]}.{#A=%s}' % unit
    # a descriptor on a terminal atom that is not the centre: prepend / append a carbon that carries it
    kind = rng.choice(['$', '$', '><'])
    left, right = ('[$]', '[$]') if kind == '$' else ('[>]', '[<]')
    if r < 0.65:
        return '{[#A][#T]}.{#A=%sC%s,#T=%s%s}' % (unit, right if kind == '$' else '[>]', left if kind == '$' else '[<]',
                                                  rng.choice(['C', 'O', 'N', '[H]', 'CC']))
    n = rng.randint(2, 3)
    return '{[#A]|%d}.{#A=%sC(%s)C%s}' % (n, left, unit if not unit.startswith('[C@') else 'C', right)


def layered_string(rng):
    """three or more levels ({base}.{coarse fragments}...{atom fragments}): the hydrogens are completed once, after the
    last level, on a molecule whose bonds come from descriptors of several levels (generator shared with C06 / C10)"""
    import molgen
    for _ in range(200):
        c = molgen.layered_case(rng, nmax=8, squash=(rng.random() < 0.3))
        if c is not None and not c.get('coarse_last'):
            return c['layered']
    return '{[#X][#Y]}.{#X=[#a][#b][$],#Y=[$][#b][#c]}.{#a=CC[$],#b=[$]CO[$],#c=[$]CN}'


def gen_case(rng):
    if rng.random() < 0.05:
        return {'kind': 'resolve', 'cls': 'chiral', 's': chiral_case(rng), 'legacy': True}
    if rng.random() < 0.05:
        return {'kind': 'resolve', 'cls': 'layered', 's': layered_string(rng), 'legacy': True}
    if rng.random() < 0.09:
        if rng.random() < 0.2:
            c = dict(rng.choice(EZ_SAMPLER))
            c.update({'kind': 'sample', 'cls': 'ez-slash-sampler', 'seed': rng.randint(0, 10 ** 6), 'w': rng.choice([80, 150, 300])})
            return small_target(rng, c)
        return {'kind': 'resolve', 'cls': 'ez-slash', 's': ez_slash(rng), 'legacy': True}
    if rng.random() < 0.07:
        return {'kind': 'resolve', 'cls': 'squash-hcap', 's': squash_hcap(rng), 'legacy': True}
    if rng.random() < 0.08:
        return {'kind': 'resolve', 'cls': 'squash-chain', 's': squash_chain(rng), 'legacy': True}
    r = rng.random()
    if r < 0.22:        # ambiguous / surplus descriptors on random base graphs (shared generator)
        names = rng.sample(['A', 'B', 'C', 'D'], rng.randint(1, 3))
        base, _ = gens.rand_base_graph(rng, names, nmax=5, max_order=3)
        frs = gens.rand_fragment_set(rng, names, all_atom=True, max_desc=4, kinds=rng.choice(['$$$><', '$', '><']),
                                     labels=rng.choice([('',), ('', 'A'), ('', '', 'A', 'B', '1')]))
        return {'kind': 'resolve', 'cls': 'ambiguous', 's': base + '.' + frs, 'legacy': rng.random() < 0.6}
    if r < 0.34:
        tmpl, frs = rng.choice(POLY)
        return {'kind': 'resolve', 'cls': 'polymer', 's': (tmpl % rng.randint(1, 6)) + '.{' + rng.choice(frs) + '}',
                'legacy': rng.random() < 0.5}
    if r < 0.42:
        return {'kind': 'resolve', 'cls': 'ring-identical', 's': rng.choice(RINGS), 'legacy': rng.random() < 0.5}
    if r < 0.50:
        return {'kind': 'resolve', 'cls': 'graft', 's': rng.choice(GRAFTS), 'legacy': rng.random() < 0.5}
    if r < 0.68:        # charged atoms, with random descriptors
        names = rng.sample(['A', 'B', 'C'], rng.randint(1, 3))
        base, _ = gens.rand_base_graph(rng, names, nmax=4, max_order=2, p_zero=0.05)
        defs = []
        for nm in names:
            sk = rand_smiles_fragment(rng, 0.7)
            defs.append('#%s=%s' % (nm, gens.decorate(rng, sk, rng.randint(0, 3), kinds='$$><', labels=('',),
                                                       syms=('', '', '', '='))))
        return {'kind': 'resolve', 'cls': 'charged', 's': base + '.{' + ','.join(defs) + '}', 'legacy': True}
    if r < 0.80:
        return {'kind': 'resolve', 'cls': 'aromatic-split', 's': rng.choice(AROM_SPLIT), 'legacy': True}
    if r < 0.86:
        return {'kind': 'resolve', 'cls': 'explicit-H', 's': rng.choice(EXPLICIT_H), 'legacy': True}
    if r < 0.91:
        return {'kind': 'resolve', 'cls': 'zero-weight', 's': rng.choice(ZERO_WEIGHT), 'legacy': True}
    if r < 0.955:
        if rng.random() < 0.25:
            c = dict(rng.choice(COLON_SAMPLER))
            c.update({'kind': 'sample', 'cls': 'colon-kekule-sampler', 'seed': rng.randint(0, 10 ** 6), 'w': rng.choice([40, 80, 120])})
            return small_target(rng, c)
        return {'kind': 'resolve', 'cls': 'colon-kekule', 's': rng.choice(COLON_KEKULE), 'legacy': True}
    if rng.random() < 0.5:
        c = dict(rng.choice(SAMPLER_TERMINAL))
        c.update({'kind': 'sample', 'cls': 'sampler-terminal', 'seed': rng.randint(0, 10 ** 6), 'w': rng.choice(c.pop('wts'))})
        return c
    c = dict(rng.choice(SAMPLER))
    c.update({'kind': 'sample', 'cls': 'sampler', 'seed': rng.randint(0, 10 ** 6), 'w': rng.choice([30, 60, 100, 150])})
    return small_target(rng, c)


def small_target(rng, c):
    """sometimes: a target weight below / around the mass of ONE fragment (the chain may end after the start fragment),
    and the start fragment named"""
    import re
    r = rng.random()
    if r < 0.45:
        c['w'] = rng.choice([1, 10, 20, 28, 30, 31, 40, 45, 46, 50, 58, 72, 100, 104, 105])
        c['cls'] = c['cls'] + '-small-target'
    if rng.random() < 0.4 and 'start' not in c:
        names = re.findall(r'#(\w+)=', c['s'])
        if names:
            c['start'] = rng.choice(names)
    return c


# ------------------------------------------------------------------------------ helper stream
# Direct validation of the modelled third-party helpers (pysmiles valence / bonds_missing / fill_valence /
# add_explicit_hydrogens / remove_explicit_hydrogens) against the installed library, and of
# read_fragment_smiles' post-processing and compute_mass against the implementation, on small random
# graphs / fragment texts derived from the case's seed.
FRAG_TEXTS = ['CC', 'C[H]', '[H]C([H])([H])C', '[H]', 'H', 'O', '[OH2]', 'C[NH3+]', 'C(=O)[O-]', 'c1ccccc1', 'c1cc[nH]c1',
              '[$]CC[$]', '[>]CC(C)[<]', 'C[H;w=0.5]', 'C([H;x=a])O', '[C;0][$]', '[C;w=0.25]C[$]=', '[H][H]', '[2H]C',
              '[H]O[H]', 'C[H:1]', '[H+]', 'C#C[H]', '[H]C=O', '[$][H]', 'N[H;q=1]', '[OH;0.5][C;0.1][$]C[$]O', '[CH3][H]',
              'C1CC1[H]', '[$]c1ccccc1[H;w=0]', 'F/C=C/F', '[>]O/C=C/[<]', 'C\\C=C/[$]', '[>]S/C=C(/[<])[<]', '[$]N(C)/C=C\\[$]',
              '[H]/C=C/F', 'OC=C/', 'C/C=C/[$]C', '[$]=CC=[$]', 'C(=[$])[$]', '[>]#CC', 'N[$]C[$]=', '[$]=C[$]', 'c1ccccc1[$]', '[<]=N[>]', '[Na+]', 'C[N+](C)(C)[H]', '[H]N([H])C(=O)C']


AROM_TEXTS = ['c1ccccc1', 'c1ccc2ccccc2c1', 'c1ccc2c(c1)[nH]cc2', 'c1ccsc1', 'c1cc[nH]c1', 'c1ccncc1', 'c1ccoc1', 'c1cnc[nH]1',
              'c1ccc2cc3ccccc3cc2c1', 'c1cc2cccc3ccc4cccc1c4c32', 'c1ccc2c(c1)c1ccccc1c1ccccc21', 'c1cc2ccc1CC2', 'C1=CC=CC=C1',
              'C1=CC=C2C=CC=CC2=C1', 'c1ccccc1c1ccccc1', 'c1ccc(cc1)C=C', 'c1cccc1', 'c1ccc1', 'c1cc[n+](C)cc1', 'c1cc[nH+]cc1',
              'c1ccc2ccc2c1', 'c1cccc2cccc2c1', 'c1c[nH]c2ccccc12', 'O=c1cc[nH]cc1', 'c1ccc2[nH]c3ccccc3c2c1', 'cc', 'ccc', 'c1ccccc1C',
              'C1=CC=CN=C1', 'c1nc2ccccc2s1', 'c1ccc2occc2c1', 'C:1:C:C:C:C:C1', 'C1=COC=C1', 'c1ccc2c(c1)Cc1ccccc12', 'c1cscn1',
              'n1ccccc1O', 'c1ccc2c(c1)ccc1ccccc12', '[cH-]1cccc1', 'c1cc2cc3ccc4cc5ccc6cc1c1c2c3c4c5c61', 'C1=CC2=CC=CC2=C1', 'c1cocc1',
              'c1ccbcc1', 'c1ccpcc1', 'c1cc[se]c1', 'C12=C3C4=C1C1=C2C3=C41', 'c1ccc2c(c1)C=CC=C2', 'c1ccc2c(c1)CC=C2', '*1ccccc1', 'c1c*cc1']

def rand_helper_graph(rng, for_fill=True):
    n = rng.randint(1, 6)
    keys = sorted(rng.sample(range(0, 12), n))
    rng.shuffle(keys)
    G = nx.Graph()
    for k in keys:
        d = {}
        r = rng.random()
        if r < 0.85:
            d['element'] = rng.choice(['C', 'C', 'C', 'N', 'O', 'H', 'H', 'S', 'P', 'B', 'F', 'Cl', 'Na', 'Mg', 'Si', 'Br', 'I'])
            if not for_fill and rng.random() < 0.1:
                d['element'] = d['element'].lower()
        elif r < 0.93:
            d['element'] = '*'
        if rng.random() < 0.7:
            d['charge'] = rng.choice([0, 0, 0, 1, -1, 2, -2])
        if rng.random() < 0.6:
            d['hcount'] = rng.choice([0, 0, 1, 2, 3])
        if rng.random() < 0.5:
            d['aromatic'] = rng.random() < 0.3
        if d.get('element') == 'H' and rng.random() < 0.1:
            d[rng.choice(['isotope', 'class'])] = rng.choice([0, 1, 2])
        if rng.random() < 0.15:
            d['bonding'] = ['$1']
        G.add_node(k, **d)
    for _ in range(rng.randint(0, n + 2)):
        a, b = rng.choice(keys), rng.choice(keys)
        if a == b and rng.random() < 0.9:
            continue
        o = rng.choice([None, 1, 1, 1, 2, 3, 1.5, 1.5, 0])
        if o is None:
            G.add_edge(a, b)
        else:
            G.add_edge(a, b, order=o)
    if rng.random() < 0.15:
        k = rng.choice(keys)
        G.nodes[k]['rs_isomer'] = tuple(rng.choice(keys + [k, k]) for _ in range(4))
    return G


def call(f, *a, **k):
    try:
        return f(*a, **k), None
    except Exception as exc:       # noqa: BLE001
        return None, type(exc).__name__


def helper_extras(seed):
    """list of Gallina `extra` terms + a short summary (counts by constructor)"""
    import pysmiles
    from pysmiles import smiles_helper as SH
    import cgsmiles.pysmiles_utils as PU
    import sys as _sys
    import cgsmiles  # noqa: F401
    RF = _sys.modules['cgsmiles.read_fragments']   # the package re-exports a function of the same name
    rng = _random.Random(seed)
    out, summary = [], {}

    def add(tag, term):
        out.append(term)
        summary[tag] = summary.get(tag, 0) + 1

    def ores(G, err):
        return 'None' if err else '(Some %s)' % lit.obs_graph(G)
    for _ in range(3):
        G = rand_helper_graph(rng, for_fill=False)
        for k in list(G.nodes)[:3]:
            a = dict(G.nodes[k])
            q = a.get('charge', 0)
            e = a.get('element', '*')
            if e != '*' and (e.capitalize() not in ELEMENTS or q not in CHARGES):
                continue
            v, err = call(SH.valence, a)
            add('valence', '(XValence %s %s)' % (lit.attrs(a), 'None' if err else '(Some %s)' % lit.lst([lit.z(x) for x in v])))
    for _ in range(3):
        G = rand_helper_graph(rng)
        if not in_table_or_star(G):
            continue
        k = rng.choice(list(G.nodes))
        v, err = call(SH.bonds_missing, G, k)
        add('bonds_missing', '(XMissing %s %s %s)' % (lit.nxgraph(G), lit.z(k), 'None' if err else '(Some %s)' % lit.z(v)))
        respect = rng.random() < 0.5
        H = copy.deepcopy(G)
        _, err = call(SH.fill_valence, H, respect_hcount=respect)
        add('fill_valence', '(XFill %s %s %s)' % (lit.b(respect), lit.nxgraph(G), ores(H, err)))
        H = copy.deepcopy(G)
        _, err = call(SH.add_explicit_hydrogens, H)
        add('add_explicit_hydrogens', '(XAddH %s %s)' % (lit.nxgraph(G), ores(H, err)))
        H = copy.deepcopy(G)
        if not any(d.get('ez_isomer') for _, d in H.nodes(data=True)):
            _, err = call(SH.remove_explicit_hydrogens, H)
            add('remove_explicit_hydrogens', '(XRemoveH %s %s)' % (lit.nxgraph(G), ores(H, err)))
    # correct_aromatic_rings called directly: random small graphs (wildcards, 1.5 / 0 orders, stale flags) and ring
    # systems read from SMILES text as a fragment is read (aromatic flags and 1.5 orders as written)
    for _ in range(3):
        if rng.random() < 0.5:
            G = rand_helper_graph(rng, for_fill=False)
            for _n, d in G.nodes(data=True):
                d.pop('rs_isomer', None)
        else:
            try:
                G = pysmiles.read_smiles(rng.choice(AROM_TEXTS), explicit_hydrogen=False, reinterpret_aromatic=False, strict=False)
            except Exception:      # noqa: BLE001
                continue
            for _n, d in G.nodes(data=True):
                for key in ('_atom_str', '_pos', 'rs_isomer', 'ez_isomer'):
                    d.pop(key, None)
                if rng.random() < 0.15:
                    d.pop('hcount', None)
            for _u, _v, d in G.edges(data=True):
                for key in ('_bond_str', '_pos'):
                    d.pop(key, None)
        if not in_table_or_star(G) or not modelable(G):
            continue
        strict = rng.random() < 0.7
        H = copy.deepcopy(G)
        ev = {}
        _, err = call(traced_car, SH.correct_aromatic_rings, ev, H, strict=strict)
        add('correct_aromatic_rings', '(XCar %s %s %s %s %s)' % (lit.b(strict), lit.nxgraph(G), lit_match(ev.get('match')),
                                                               lit_rings(ev.get('rings')), ores(H, err)))
    # read_fragment_smiles: everything after pysmiles.read_smiles (its result is the transcript)
    for _ in range(3):
        text = rng.choice(FRAG_TEXTS)
        name = rng.choice(['A', 'PEO', 'H'])
        try:
            smile, bonding, ez, attributes = RF.strip_bonding_descriptors(text)
        except Exception:          # noqa: BLE001
            continue
        seen = {}
        orig = pysmiles.read_smiles

        def wrapped(*a, **k):
            g = orig(*a, **k)
            seen['g0'] = copy.deepcopy(g)
            return g
        pysmiles.read_smiles = wrapped
        try:
            res, err = call(PU.read_fragment_smiles, smile, name, bonding, ez, attributes)
        finally:
            pysmiles.read_smiles = orig
        if 'g0' not in seen:
            continue
        g0 = seen['g0']
        if any(d.get('element') == 'H' and d.get('ez_isomer') for _, d in g0.nodes(data=True)):
            continue                # E/Z bookkeeping of remove_explicit_hydrogens is outside the model
        try:
            term = ('(XFragment %s %s %s %s %s %s)'
                    % (lit.nxgraph(g0), lit.s(name),
                       lit.lst([lit.pair(lit.z(k), lit.pyval(v)) for k, v in bonding.items()]),
                       lit.lst([lit.pair(lit.z(k), lit.pyval(v)) for k, v in ez.items()]),
                       lit.lst([lit.pair(lit.z(k), lit.attrs(v)) for k, v in attributes.items()]),
                       ores(res, err)))
        except (TypeError, ValueError):
            continue
        add('read_fragment_smiles', term)
        # rebuild_h_atoms called directly on the fragment that was just read, with both settings of keep_bonding and
        # other copy_attrs (the resolver and the sampler only ever use the defaults)
        if res is not None and in_table(res) and modelable(res):
            kb = rng.random() < 0.6
            ca = rng.choice([['fragid', 'fragname', 'weight'], ['fragname'], [], ['weight', 'atomname', 'nope']])
            H = copy.deepcopy(res)
            ev = {}
            orig_car = SH.correct_aromatic_rings

            def car_(mol, *a, _o=orig_car, _ev=ev, **k):
                return traced_car(_o, _ev, mol, *a, **k)
            SH.correct_aromatic_rings = car_
            try:
                _, err = call(PU.rebuild_h_atoms, H, keep_bonding=kb, copy_attrs=list(ca))
            finally:
                SH.correct_aromatic_rings = orig_car
            add('rebuild_h_atoms', '(XRebuild %s %s %s %s %s %s)' % (lit.b(kb), lit.lst([lit.s(x) for x in ca]), lit.nxgraph(res),
                                                                  lit_match(ev.get('match')), lit_rings(ev.get('rings')), ores(H, err)))
        # compute_mass of the fragment that was just read
        if res is not None and in_table(res) and modelable(res):
            rec = Recorder(with_utils=True).install()
            try:
                m, err = call(PU.compute_mass, res)
            finally:
                rec.remove()
            if len(rec.calls) == 1 and rec.calls[0]['car'] != 'not called':
                car = rec.calls[0]['car']
                add('compute_mass', '(XMass %s %s %s)'
                    % (lit.nxgraph(res), 'None' if car is None else '(Some %s)' % lit.nxgraph(car),
                       'None' if err else '(Some (%s)%%float)' % float(m).hex()))
    return out, summary


def in_table_or_star(G):
    for _, d in G.nodes(data=True):
        e = d.get('element', '*')
        q = d.get('charge', 0)
        if e == '*':
            continue
        if not isinstance(e, str) or e.capitalize() not in ELEMENTS or q not in CHARGES:
            return False
    return True



# ------------------------------------------------------------------------------ second oracle (Python)
def own_fragment(d, coarse):
    """mirror of HydroCheck.own_fragment"""
    mp, fid, fn = d.get('mapping'), d.get('fragid'), d.get('fragname')
    if not (isinstance(mp, list) and mp and isinstance(fid, list) and len(fid) == 1 and isinstance(fid[0], int)
            and not isinstance(fid[0], bool) and isinstance(fn, str)):
        return False
    for m in mp:
        if not (isinstance(m, (tuple, list)) and len(m) >= 1 and m[0] == fn):
            return False
    if coarse:
        names = dict((k, n) for k, n in coarse)
        return names.get(fid[0]) == fn
    return True


def py_holds_c09(before, final, coarse=()):
    """mirror of HydroCheck.holds_C09, used only when the Coq side cannot be built (common.run_prop)"""
    from pysmiles.smiles_helper import valence

    def is_h(d):
        return d.get('element') == 'H'

    def half(d):
        return int(2 * d.get('order', 1))
    if any(n in final[n] for n in final.nodes):
        return 7              # an atom is its own neighbour (self-loop): no bond of a molecule
    for n, d in final.nodes(data=True):
        if is_h(d):
            continue
        e, q = d.get('element', '*'), d.get('charge', 0)
        if not isinstance(e, str) or e == '*' or e.capitalize() not in ELEMENTS or q not in CHARGES:
            continue
        try:
            val = valence(d)
        except ValueError:
            continue
        if not val:
            continue
        heavy = [m for m in final[n] if m != n and not is_h(final.nodes[m])]     # bonds to OTHER heavy atoms
        hs = [m for m in final[n] if is_h(final.nodes[m])]
        b2 = sum(half(final.edges[n, m]) for m in heavy)
        if 2 * max(val + [0]) < b2:
            continue
        if b2 % 2 and not d.get('aromatic', False):
            return 2          # a left-over 1.5 order on a non-aromatic atom: the orders cannot add up
        v = next((x for x in val if b2 <= 2 * x), None)
        if v is None:
            continue
        if len(hs) != (2 * v - b2) // 2:
            return 1
        tot = b2 + sum(half(final.edges[n, m]) for m in hs)
        if tot != (2 * v if b2 % 2 == 0 else 2 * v - 1):
            return 2
    for n, d in final.nodes(data=True):
        if not is_h(d):
            continue
        nb = list(final[n])
        if len(nb) != 1 or half(final.edges[n, nb[0]]) != 2:
            return 3
        a = final.nodes[nb[0]]
        same = True
        for k in ('fragid', 'fragname', 'weight'):
            if k in d and k in a:
                if d[k] != a[k]:
                    same = False
            elif k in d and d[k] is None and k not in a:
                continue
            elif (k in d) != (k in a):
                same = False
        # a hydrogen written in a fragment may keep its own membership, but then consistently (own fragment)
        if not same and not ('mapping' in d and own_fragment(d, coarse)):
            return 4
    for n, d in before.nodes(data=True):
        if is_h(d) and 'mapping' in d:
            same = [x for _, x in final.nodes(data=True) if is_h(x) and x.get('mapping') == d['mapping']
                    and x.get('fragid') == d.get('fragid')]
            if not same:
                return 5
            x = same[0]
            for k in ('fragid', 'fragname', 'weight'):
                if (k in d) != (k in x) or (k in d and d[k] != x[k]):
                    return 6
    return 0


# ------------------------------------------------------------------------------ the property object
class C09(common.Prop):
    id = 'C09'
    level = 'proof'
    technique = ('Coq proof (arithmetic over half-unit bond orders from the well-formedness of the valence table that '
                 'is regenerated by calling pysmiles; fold invariants of hydrogen attachment and attribute inheritance) '
                 '+ per-run correspondence of the hand-written rebuild_h_atoms model with the real call inside '
                 'resolve_all()/sample(); pysmiles\' aromaticity correction is modelled too (Hydro/Aromatic.v), only the '
                 'matching networkx returns and the rings dekekulize marks enter as transcripts under enforced contracts')
    vo_deps = ['theories/Hydro/HydroCheck.vo']
    prop_file = 'theories/Properties/C09.v'
    case_requires = ('From Coq Require Import String.\nFrom Coq Require Import List Ascii ZArith Bool.\nFrom Coq Require Import Floats.PrimFloat.\n'
                     'From CGV Require Import Base.PyBase Base.PyVal Base.NxGraph Hydro.Hydrogens Hydro.HydroCheck.')
    shard = 12
    quick_cases = 150
    thorough_cases = 2500
    extended_cases = 600
    fail_text = {1: 'a non-hydrogen atom whose heavy-atom bonds fit its valence does not carry exactly the missing hydrogens',
                 2: 'the bond orders of a completed atom do not add up to the smallest fitting valence',
                 3: 'a hydrogen is not bonded to exactly one atom by a single bond',
                 4: 'a hydrogen neither carries its anchor\'s fragid / fragname / weight nor is consistently a fragment of its own',
                 5: 'an explicitly written hydrogen was lost',
                 6: 'an explicitly written hydrogen did not keep its own fragid / fragname / weight',
                 7: 'an atom is bonded to itself (self-loop in the returned molecule)'}

    def corpus(self, ctx):
        out = [{'kind': 'resolve', 'cls': 'corpus', 's': s, 'legacy': True} for s in
               ['{[#A][#B]}.{#A=[$]CC[$],#B=[$]OC}', '{[#A]|4}.{#A=[$]CC[$][$]}', '{[#A][#B]}.{#A=CC[!],#B=[!]CO}',
                '{[#A][#B]}.{#A=C[$][NH3+],#B=[$]C(=O)[O-]}', '{[#A]=[#B]}.{#A=[$]ccc[$],#B=[$]ccc[$]}',
                '{[#A][#H]}.{#A=CC[$],#H=[$][H]}', '{[#A]1[#A][#A]1}.{#A=[$]cc[$]}',
                '{[#A]=[#B]}.{#A=[$]c1ccc2c(c1)[$],#B=[$]cccc2[$]}',
                '{[#A][#B][#C]}.{#A=CC[!],#B=[!]C([!])O,#C=[!]CN}', '{[#A][#B][#C]}.{#A=OC[!],#B=[!]C[!],#C=[!]CN}',
                '{[#A][#B][#C][#D]}.{#A=CC[!],#B=[!]C[!],#C=[!]C([!])C,#D=[!]CCl}',
                # a single-hydrogen fragment capping a shared atom (kept copy, removed copy, three-fold shared atom)
                '{[#H][#A][#B]}.{#H=[$][H],#A=OC[$][!],#B=[!]CC}', '{[#A][#B][#H]}.{#A=OC[!],#B=[!]C([$])C,#H=[$][H]}',
                '{[#A]([#B])([#B])[#H]}.{#A=OC[!][!][$],#B=[!]CC,#H=[$][H]}', '{[#A][#B]}.{#A=OC([H])[!],#B=[!]CC}']]
        out.append({'kind': 'sample', 'cls': 'corpus', 's': '{#A=[$]CC[$],#B=[$]C(C)C[$]}', 'react': {'$': 1.0},
                    'seed': 1, 'w': 60})
        out += [{'kind': 'resolve', 'cls': 'corpus', 's': s, 'legacy': True} for s in ZERO_WEIGHT[:5]]
        out += [{'kind': 'resolve', 'cls': 'corpus', 's': s, 'legacy': True} for s in COLON_KEKULE[:8]]
        out.append(dict(COLON_SAMPLER[0], kind='sample', cls='corpus', seed=1, w=60))
        # cis/trans marks: in front of an atom, in front of a descriptor, in a branch; head atom open / fully substituted
        out += [{'kind': 'resolve', 'cls': 'corpus', 's': s, 'legacy': True} for s in EZ_FIXED[:3] +
                ['{[#T][#V]|2[#T]}.{#V=[$]S\\C=C/[$],#T=[$]C}', '{[#V]|3}.{#V=[>]N(C)/C=C/[<]}',
                 '{[#T][#V][#W][#T]}.{#V=[>]C(C)(C)/C=C/[<],#W=[>]O/C=C/C[<],#T=[>]C[<]}']]
        out.append(dict(EZ_SAMPLER[0], kind='sample', cls='corpus', seed=7, w=300))
        out += [{'kind': 'resolve', 'cls': 'corpus', 's': s, 'legacy': True} for s in CHIRAL_FIXED[:6]]
        # target weights below / around the mass of one fragment, start fragment given or drawn (seed C09-11)
        out += [{'kind': 'sample', 'cls': 'corpus', 's': '{#PEO=[>]COC[<],#PE=[>]CC[<]}', 'react': {'>': 0.5, '<': 0.5}, 'seed': 3, 'w': 40},
                {'kind': 'sample', 'cls': 'corpus', 's': '{#PEO=[>]COC[<],#PE=[>]CC[<]}', 'react': {'>': 0.5, '<': 0.5}, 'seed': 4, 'w': 20,
                 'start': 'PEO'},
                {'kind': 'sample', 'cls': 'corpus', 's': '{#PS=[>]CC(c1ccccc1)[<],#M=[>]CC(C(=O)OC)[<]}', 'react': {'>': 0.4, '<': 0.6},
                 'seed': 5, 'w': 100, 'start': 'PS'},
                {'kind': 'sample', 'cls': 'corpus', 's': '{#A=[$]CC[$],#B=[$]C(C)C[$]}', 'react': {'$': 1.0}, 'seed': 6, 'w': 1}]
        # histories: a disturbing call first, then the judged call in the same process
        out.append({'kind': 'resolve', 'cls': 'corpus+history', 's': '{[#A][#B]}.{#A=[$]CC[$],#B=[$]OC}', 'legacy': True,
                    'prelude': ['mass-plain']})
        out.append({'kind': 'resolve', 'cls': 'corpus+history', 's': '{[#A]|3}.{#A=[$]CC[$]}', 'legacy': True,
                    'prelude': ['rebuild-plain', 'resolve-other']})
        out.append({'kind': 'sample', 'cls': 'corpus+history', 's': '{#A=[$]CC[$],#B=[$]C(C)C[$]}', 'react': {'$': 1.0},
                    'seed': 2, 'w': 60, 'prelude': ['mass-fragment', 'sampler-ctor']})
        for k, spec in enumerate(SAMPLER_TERMINAL[:3]):
            for seed in (0, 1, 2):
                c = dict(spec)
                c.update({'kind': 'sample', 'cls': 'corpus', 'seed': seed, 'w': c.pop('wts')[1]})
                out.append(c)
        return out

    def generate(self, ctx, n):
        out = []
        for _ in range(n):
            if ctx.rng.random() < 0.25:
                out.append({'kind': 'helpers', 'cls': 'helpers', 'seed': ctx.rng.randint(0, 10 ** 9)})
            else:
                c = gen_case(ctx.rng)
                if ctx.rng.random() < 0.3:
                    c['prelude'] = [ctx.rng.choice(PRELUDES) for _ in range(ctx.rng.randint(1, 2))]
                    c['cls'] = c['cls'] + '+history'
                out.append(c)
        return out

    def run_impl(self, case):
        if case['kind'] == 'helpers':
            terms, summary = helper_extras(case['seed'])
            return {'helpers': terms, 'summary': summary}
        calls, final, exc = drive(case)
        if not calls and isinstance(final, nx.Graph) and in_table(final) and modelable(final):
            # a molecule came back although the hydrogen completion never ran: nothing to compare, but the molecule is
            # an all-atom result of the resolver / sampler and is judged like any other
            return {'before': lit.nxgraph(final), 'car': None, 'nocorr': True, 'match': '[]', 'rings': '[]', 'after': None,
                    'exc': None, 'later_exc': exc, 'final': lit.obs_graph(final),
                    'summary': {'before': summarise(final), 'final': summarise(final)}, 'coarse': case.get('_coarse', []),
                    'py_code': py_holds_c09(final, final, case.get('_coarse', [])), 'no_rebuild': True}
        if not calls:
            return {'skip': exc or 'rebuild_h_atoms not reached'}
        # more than one call (no current code path does that): the last one produced the molecule that is returned; it
        # is judged, but not compared with the model
        call = calls[-1]
        before = call['before']
        # a call the model does not cover (other arguments, aromaticity pass not run) is not COMPARED with the
        # model, but the molecule that comes back is still JUDGED
        nocorr = (len(calls) != 1 or call['args'] != ((), {}) or call['car'] == 'not called'
                  or not (call.get('car_args', ((), {}))[0] == () and set(call.get('car_args', ((), {}))[1]) == {'strict'}
                          and isinstance(call['car_args'][1]['strict'], bool)))
        if not in_table(before):
            return {'skip': 'element/charge outside the generated valence table'}
        graphs = [before] + [g for g in (call.get('car'), call.get('after')) if isinstance(g, nx.Graph)]
        if not all(modelable(g) for g in graphs):
            return {'skip': 'stereo annotation or non half-integral order (outside the model)'}
        out = {'before': lit.nxgraph(before),
               'car': None if (call['car'] is None or call['car'] == 'not called') else lit.nxgraph(call['car']),
               'nocorr': nocorr, 'match': lit_match(call.get('match')), 'rings': lit_rings(call.get('rings')),
               'n_rings': len(call.get('rings') or []), 'n_match': len(call.get('match') or []),
               'after': lit.obs_graph(call['after']) if 'after' in call else None,
               'exc': call.get('exc'), 'later_exc': exc,
               'final': lit.obs_graph(final) if final is not None else None,
               'summary': {'before': summarise(before), 'final': summarise(final)},
               'coarse': case.get('_coarse', []),
               'py_code': py_holds_c09(before, final, case.get('_coarse', [])) if final is not None else 0}
        return out

    def python_oracle(self, case, impl):
        return impl.get('py_code', 0)

    def nontrivial(self, case, impl):
        if 'helpers' in impl:
            return bool(impl['helpers'])
        return 'skip' not in impl and impl.get('final') is not None

    def case_class(self, case, impl):
        if 'helpers' in impl:
            return 'helpers(' + ','.join('%s:%d' % kv for kv in sorted(impl['summary'].items())) + ')'
        if 'skip' in impl:
            return 'skipped:' + str(impl['skip'])
        if impl.get('no_rebuild'):
            return case['cls'] + ':returned-without-hydrogen-completion'
        if impl.get('nocorr'):
            return case['cls'] + ':not-compared(call outside the model)'
        if impl.get('exc'):
            return case['cls'] + ':raises-' + impl['exc']
        if impl.get('later_exc'):
            return case['cls'] + ':later-' + impl['later_exc']
        return case['cls']

    def describe(self, case):
        return {k: v for k, v in case.items() if k not in ('cls', '_coarse')}

    def coq_case(self, case, impl):
        if 'helpers' in impl:
            return ('{| c_skip := true; c_before := []; c_car := None; c_after := None; c_final := None; c_extra := %s; c_nocorr := false; c_coarse := []; c_match := []; c_rings := [] |}'
                    % lit.lst(impl['helpers']))
        if 'skip' in impl:
            return '{| c_skip := true; c_before := []; c_car := None; c_after := None; c_final := None; c_extra := []; c_nocorr := false; c_coarse := []; c_match := []; c_rings := [] |}'
        return ('{| c_skip := false; c_before := %s; c_car := %s; c_after := %s; c_final := %s; c_extra := []; c_nocorr := %s; c_coarse := %s; c_match := %s; c_rings := %s |}'
                % (impl['before'], lit.opt(impl['car'], lambda x: x), lit.opt(impl['after'], lambda x: x),
                   lit.opt(impl['final'], lambda x: x), lit.b(impl.get('nocorr', False)),
                   lit.lst(['(%s, %s)' % (lit.z(k), lit.s(n)) for k, n in impl.get('coarse', [])]),
                   impl.get('match', '[]'), impl.get('rings', '[]')))


PROP = C09()
