"""C07 — writing a graph and reading it back is the identity.
Tie: write_graph is hand-modelled (Write/WriteImpl.v; format_bonding and the order table are
regenerated from write_cgsmiles.py by py2v) and compared with the implementation on every run on
the same input graphs.  The only thing the model takes from the run is the iteration order of the
Python set `total_edges - edges` (recorded from the implementation's own call of `list(...)`, or
recomputed the same way in the same interpreter); its contract is checked in Coq on every case.
The property itself (read_cgsmiles(write_cgsmiles_graph(G)) isomorphic to G, names and orders) is
evaluated in Coq on the IMPLEMENTATION's read-back graph with an isomorphism witness."""
import itertools

import networkx as nx

import common
import lit

NAMES = ['A', 'B', 'C', 'PEO', 'N3', 'x_1', 'a1B', 'PS', 'OH', 'Z9']
# classes 1 (branch_edge_order), 2 (ring_edge_order) and 3 (pct_marker_then_digit) were repaired in /repo (be4ff6e,
# dd9a0c2, b681517): they excuse nothing any more; their witnesses stay in the corpus that runs first.  No class is open.
CLASSES = {}
CLAUSES = {1: 'the writer raised an exception',
           2: 'the reader rejected (raised on) the string the writer produced',
           3: 'the graph read back is not isomorphic to the original (names and bond orders)'}

_ATLAS = None


def shapes():
    """all non-isomorphic connected graphs with 1..6 nodes (the networkx atlas): 143 shapes"""
    global _ATLAS
    if _ATLAS is None:
        from networkx.generators.atlas import graph_atlas_g
        _ATLAS = [(A.number_of_nodes(), sorted(tuple(sorted(e)) for e in A.edges)) for A in graph_atlas_g()
                  if 1 <= A.number_of_nodes() <= 6 and nx.is_connected(A)]
    return _ATLAS


def build(case):
    G = nx.Graph()
    for k, name in case['nodes']:
        G.add_node(k, fragname=name)
    for u, v, o in case['edges']:
        G.add_edge(u, v, order=o)
    return G


def make_case(rng, n, edges, orders, relabel=True, names=None):
    """node keys, node insertion order, edge insertion order and orientation are all varied"""
    if relabel:
        keys = rng.sample(range(-2, 3 * n + 2), n) if rng.random() < 0.5 else rng.sample(range(n), n)
    else:
        keys = list(range(n))
    names = names or [rng.choice(NAMES[:rng.choice([2, 4, len(NAMES)])]) for _ in range(n)]
    nodes = [[keys[i], names[i]] for i in range(n)]
    es = [[keys[u], keys[v], o] if rng.random() < 0.5 else [keys[v], keys[u], o] for (u, v), o in zip(edges, orders)]
    if relabel:
        rng.shuffle(nodes)
        rng.shuffle(es)
    return {'nodes': nodes, 'edges': es}


def rand_orders(rng, m):
    r = rng.random()
    if r < 0.25:
        return [1] * m
    if r < 0.5:
        return [rng.choice([0, 1, 2, 3, 4]) for _ in range(m)]
    if r < 0.8:
        o = [1] * m
        for _ in range(rng.randint(1, 2)):
            if m:
                o[rng.randrange(m)] = rng.choice([0, 2, 3, 4])
        return o
    return [rng.choice([1, 1, 2]) for _ in range(m)]


def rand_connected(rng, n, extra):
    """random labelled tree plus `extra` chords"""
    edges = []
    for i in range(1, n):
        edges.append((rng.randrange(i) if rng.random() < 0.5 else max(0, i - rng.randint(1, 3)), i))
    have = set(map(frozenset, edges))
    tries = 0
    while extra > 0 and tries < 10 * extra + 20:
        tries += 1
        if n < 3:
            break
        u, v = rng.sample(range(n), 2)
        if frozenset((u, v)) not in have:
            have.add(frozenset((u, v)))
            edges.append((min(u, v), max(u, v)))
            extra -= 1
    return edges


def traversal_order(G):
    """candidate numbering: nodes in the order the writer emits them (only a witness candidate)"""
    start = min(G)
    succ = nx.dfs_successors(G, source=start)
    out, stack = [], [start]
    while stack:
        cur = stack.pop()
        out.append(cur)
        stack.extend(succ.get(cur, []))
    return out


def is_iso_by(G, H, m):
    if len(G) != len(H) or G.number_of_edges() != H.number_of_edges() or len(set(m.values())) != len(G):
        return False
    for k in G:
        if k not in m or m[k] not in H or H.nodes[m[k]].get('fragname') != G.nodes[k]['fragname']:
            return False
    for u, v, o in G.edges(data='order'):
        if not H.has_edge(m[u], m[v]) or H.edges[m[u], m[v]].get('order') != o:
            return False
    return True


class C07(common.Prop):
    id = 'C07'
    level = 'proof'
    technique = ('Coq model of write_graph (DFS, ring markers, branch stack; format_bonding/order table regenerated '
                 'from write_cgsmiles.py) compared with the implementation on every run over all connected shapes '
                 'up to 6 nodes x order assignments x relabelings and random graphs to 40 nodes; the round-trip '
                 'clause is evaluated in Coq on the implementation\'s read-back graph; unbounded theorems for '
                 'chains, bounded exhaustive theorem for small graphs, refuted/partial for the listed defect classes')
    vo_deps = ['theories/Write/WriteCheck.vo']
    prop_file = 'theories/Properties/C07.v'
    case_requires = ('From Coq Require Import String.\nFrom Coq Require Import List Ascii ZArith Bool.\n'
                     'From CGV Require Import Base.PyBase Base.PyVal Base.NxGraph Write.WriteImpl Write.WriteDefs Write.WriteCheck.')
    shard = 200
    quick_cases = 1300
    thorough_cases = 60000
    extended_cases = 3000
    fail_text = dict([(k, v) for k, v in CLAUSES.items()] +
                     [(k + 10 * c, '%s [input in known defect class %s]' % (v, CLASSES[c]))
                      for k, v in CLAUSES.items() for c in CLASSES])

    # ---------------------------------------------------------------------------- inputs
    def corpus(self, ctx):
        c = [
            # witnesses of the three REPAIRED classes (a return of the defect is a VIOLATION)
            {'nodes': [[0, 'A'], [1, 'B'], [2, 'C']], 'edges': [[0, 1, 1], [0, 2, 2]]},
            {'nodes': [[0, 'A'], [1, 'B'], [2, 'C']], 'edges': [[0, 1, 1], [1, 2, 1], [0, 2, 2]]},
            PCT_WITNESS,
            # plain examples: chain with all orders, star, ring, fused rings, nested branches
            {'nodes': [[0, 'A'], [1, 'B'], [2, 'C'], [3, 'D'], [4, 'E']],
             'edges': [[0, 1, 0], [1, 2, 2], [2, 3, 3], [3, 4, 4]]},
            {'nodes': [[3, 'A'], [1, 'B'], [2, 'C'], [0, 'D']], 'edges': [[3, 1, 1], [3, 2, 1], [3, 0, 1]]},
            {'nodes': [[0, 'A'], [1, 'A'], [2, 'A'], [3, 'A']], 'edges': [[0, 1, 2], [1, 2, 1], [2, 3, 3], [3, 0, 1]]},
            {'nodes': [[0, 'A'], [1, 'B'], [2, 'C'], [3, 'D'], [4, 'E'], [5, 'F']],
             'edges': [[0, 1, 1], [1, 2, 1], [2, 0, 1], [2, 3, 1], [3, 4, 1], [4, 5, 1], [5, 2, 1], [1, 4, 1]]},
            {'nodes': [[0, 'A'], [1, 'B'], [2, 'C'], [3, 'D'], [4, 'E'], [5, 'F'], [6, 'G']],
             'edges': [[0, 1, 1], [0, 2, 1], [2, 3, 1], [2, 4, 1], [4, 5, 1], [4, 6, 1]]},
            {'nodes': [[5, 'A']], 'edges': []},
        ]
        return c

    def generate(self, ctx, n):
        rng = ctx.rng
        out = []
        sh = shapes()
        if ctx.thorough():
            # exhaustive: every shape with <= 5 edges x every order assignment from {0,1,2,3,4}
            for nn, edges in sh:
                if len(edges) <= 5:
                    for orders in itertools.product([0, 1, 2, 3, 4], repeat=len(edges)):
                        out.append(make_case(rng, nn, edges, list(orders), relabel=rng.random() < 0.7))
            # all labelled connected graphs up to 5 nodes (identity keys), orders sampled
            for nn in range(1, 6):
                pairs = list(itertools.combinations(range(nn), 2))
                for mask in range(1 << len(pairs)):
                    edges = [p for i, p in enumerate(pairs) if mask >> i & 1]
                    T = nx.Graph()
                    T.add_nodes_from(range(nn))
                    T.add_edges_from(edges)
                    if nx.is_connected(T):
                        out.append(make_case(rng, nn, edges, rand_orders(rng, len(edges)), relabel=False))
        reps = 6 if not ctx.thorough() else 40
        for nn, edges in sh:
            for _ in range(reps if len(edges) > 5 or not ctx.thorough() else 4):
                out.append(make_case(rng, nn, edges, rand_orders(rng, len(edges))))
        # random larger graphs
        k = max(150, n - len(out)) if not ctx.thorough() else max(3000, n - len(out))
        for _ in range(k):
            nn = rng.randint(2, 40) if rng.random() < 0.7 else rng.randint(5, 14)
            extra = rng.choice([0, 0, 1, 1, 2, 3, 5, 8, 12, 20, 30])
            edges = rand_connected(rng, nn, extra)
            out.append(make_case(rng, nn, edges, rand_orders(rng, len(edges))))
        return out

    # ---------------------------------------------------------------------------- implementation
    def run_impl(self, case):
        import cgsmiles.write_cgsmiles as W
        from cgsmiles.read_cgsmiles import read_cgsmiles
        G = build(case)
        rec = []

        def rec_list(x=()):
            r = list(x)
            if isinstance(x, (set, frozenset)):
                rec.append([tuple(e) for e in r])
            return r
        out = {}
        W.list = rec_list
        try:
            s = W.write_cgsmiles_graph(G)
            out['s'] = s
        except Exception as exc:
            out['write_exc'] = type(exc).__name__
        finally:
            del W.list
        if len(rec) == 1 and all(len(e) == 2 for e in rec[0]):
            out['tr'] = [list(e) for e in rec[0]]
        else:
            # the implementation no longer calls list(<set>) exactly once: recompute the same way
            try:
                succ = nx.dfs_successors(G, source=min(G))
                edges = set()
                for i, js in succ.items():
                    for j in js:
                        edges.add(frozenset((i, j)))
                total = set(map(frozenset, G.edges))
                out['tr'] = [list(tuple(e)) for e in list(total - edges)]
            except Exception:
                out['tr'] = []
            out['tr_recomputed'] = True
        if 's' in out:
            try:
                H = read_cgsmiles(out['s'])
                out['read'] = {'nodes': [[k, H.nodes[k].get('fragname')] for k in H.nodes],
                               'edges': [[u, v, o] for u, v, o in H.edges(data='order')]}
                cand = {k: i for i, k in enumerate(traversal_order(G))}
                if is_iso_by(G, H, cand):
                    out['wit'] = [[k, v] for k, v in cand.items()]
                elif len(G) <= 12:
                    gm = nx.algorithms.isomorphism.GraphMatcher(
                        G, H, node_match=lambda a, b: a.get('fragname') == b.get('fragname'),
                        edge_match=lambda a, b: a.get('order') == b.get('order'))
                    if gm.is_isomorphic():
                        out['wit'] = [[k, v] for k, v in gm.mapping.items()]
            except Exception as exc:
                out['read_exc'] = type(exc).__name__
        return out

    def coq_case(self, case, impl):
        G = build(case)
        tr = lit.lst([lit.pair(lit.z(a), lit.z(b)) for a, b in impl['tr']])
        outs = lit.opt(impl.get('s'), lit.s)
        rd = impl.get('read')
        if rd is not None and all(isinstance(nm, str) for _, nm in rd['nodes']) \
                and all(isinstance(o, int) and not isinstance(o, bool) for _, _, o in rd['edges']):
            read = '(Some (%s, %s))' % (lit.lst([lit.pair(lit.z(k), lit.s(nm)) for k, nm in rd['nodes']]),
                                       lit.lst(['(%s, %s, %s)' % (lit.z(u), lit.z(v), lit.z(o)) for u, v, o in rd['edges']]))
        elif rd is not None:
            # a non-integer order or a missing name can never be isomorphic to the input: empty graph
            read = '(Some ([], []))'
        else:
            read = 'None'
        wit = lit.opt(impl.get('wit'), lambda w: lit.lst([lit.pair(lit.z(a), lit.z(b)) for a, b in w]))
        return '{| c_g := %s; c_tr := %s; c_out := %s; c_read := %s; c_wit := %s |}' % (lit.nxgraph(G), tr, outs, read, wit)

    # ---------------------------------------------------------------------------- bookkeeping
    def known_class(self, case, impl, code):
        return CLASSES.get(code // 10)

    def python_oracle(self, case, impl):
        if 'write_exc' in impl:
            return 1
        if 'read_exc' in impl:
            return 2
        return 0 if 'wit' in impl else 3

    def nontrivial(self, case, impl):
        return len(case['nodes']) >= 2

    def case_class(self, case, impl):
        n, m = len(case['nodes']), len(case['edges'])
        size = 'n<=6' if n <= 6 else ('n<=15' if n <= 15 else 'n<=40')
        shape = 'tree' if m == n - 1 else ('1ring' if m == n else 'rings>=2')
        orders = 'single' if all(o == 1 for _, _, o in case['edges']) else 'mixed-orders'
        res = 'roundtrip-ok' if 'wit' in impl else ('reader-raised' if 'read_exc' in impl else
                                                     ('writer-raised' if 'write_exc' in impl else 'not-isomorphic'))
        return '%s:%s:%s:%s' % (size, shape, orders, res)


# smallest input found by the search (seeded random graphs, then greedy edge/node deletion) on which
# a `%nn` marker is directly followed by a one-digit marker; see known_findings.d/C07.json
PCT_WITNESS = {'nodes': [[0, 'A'], [1, 'A'], [2, 'A'], [3, 'A'], [4, 'A'], [5, 'A'], [6, 'A']], 'edges': [[1, 0, 1], [2, 0, 1], [5, 3, 1], [0, 6, 1], [5, 1, 1], [5, 6, 1], [4, 6, 1], [3, 0, 1], [6, 2, 1], [1, 3, 1], [2, 1, 1], [4, 1, 1], [3, 6, 1], [4, 3, 1], [1, 6, 1], [5, 2, 1]]}

PROP = C07()
