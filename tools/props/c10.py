"""C10 — shared atoms: the squash operator merges exactly the two marked atoms.

Metamorphic check.  A random molecule is cut into connected fragments; it is described twice:
DISJOINT (every cut bond a uniquely labelled `$` pair) and OVERLAPPING (a subset of the cuts replaced by
sharing one end atom: the fragment on the other side additionally contains a copy of that atom, both
marked with a uniquely labelled `!` pair).  Both strings are resolved by the implementation; the
generator knows which original atom every fragment atom is a copy of, so "same molecule", "one atom
fewer per shared pair", "belongs to both coarse nodes", "keeps the bonds of both" are decided in Coq
(theories/Hydro/SquashCheck.v) through that explicit correspondence.
Tie: squash_atoms + networkx.contracted_nodes are hand-modelled (theories/Hydro/Squash.v, constants
regenerated from resolve.py) and compared on every run with the real call inside resolve_all()."""
import copy
import string

import networkx as nx

import common
import gens
import lit

CAP = {('C', 0): 4, ('N', 0): 3, ('O', 0): 2, ('S', 0): 2, ('F', 0): 1, ('Cl', 0): 1, ('N', 1): 4, ('O', -1): 1,
       ('Si', 0): 4, ('P', 0): 3, ('B', 0): 3, ('Na', 1): 0, ('K', 1): 0, ('Li', 1): 0}
# order 0 (written '.'): an ionic contact / virtual edge; it is a bond of the described graph like any other
SYM = {0: '.', 1: '', 2: '=', 3: '#'}


def label(i):
    s = ''
    i += 1
    while i:
        i, r = divmod(i - 1, 26)
        s = string.ascii_lowercase[r] + s
    return s


# ------------------------------------------------------------------------------ molecules
def rand_molecule(rng, aromatic_p=0.45, ion_p=0.22):
    """atoms: list of dicts (el, q, arom); bonds: {(a, b): order} with a < b; orders 1, 2, 3 or 1.5"""
    atoms, bonds = [], {}
    used = []           # valence used, in half units

    def spare(a):
        if atoms[a]['arom']:
            return (1 if atoms[a]['el'] == 'C' else 0) * 2 - atoms[a].get('sub', 0)
        return 2 * CAP[(atoms[a]['el'], atoms[a]['q'])] - used[a]

    def add_atom(el, q=0, arom=False):
        atoms.append({'el': el, 'q': q, 'arom': arom})
        used.append(0)
        return len(atoms) - 1

    def add_bond(a, b, o):
        bonds[(min(a, b), max(a, b))] = o
        for x in (a, b):
            if atoms[x]['arom'] and o != 1.5:
                atoms[x]['sub'] = atoms[x].get('sub', 0) + 2
            used[x] += int(2 * o)

    def new_element(leaf_ok=True):
        r = rng.random()
        if r < 0.55:
            return ('C', 0)
        if r < 0.70:
            return ('N', 0)
        if r < 0.82:
            return ('O', 0)
        if r < 0.87:
            return ('S', 0)
        if r < 0.91:
            return ('N', 1)
        if r < 0.94:
            return ('Si', 0)
        if leaf_ok:
            return rng.choice([('F', 0), ('Cl', 0), ('O', -1)])
        return ('C', 0)

    def add_ring(anchor):
        het = rng.random() < 0.3
        ring = [add_atom('N' if (het and i == 3) else 'C', 0, True) for i in range(6)]
        for i in range(6):
            add_bond(ring[i], ring[(i + 1) % 6], 1.5)
        if anchor is not None:
            add_bond(anchor, ring[0], 1)
        return ring

    n = rng.randint(3, 9)
    want_ring = rng.random() < aromatic_p
    if want_ring and rng.random() < 0.4:
        add_ring(None)
        want_ring = rng.random() < 0.25
    else:
        add_atom(*new_element(False))
    while len(atoms) < n or want_ring:
        cands = [a for a in range(len(atoms)) if spare(a) >= 2]
        if not cands:
            break
        p = rng.choice(cands[-4:] if rng.random() < 0.5 else cands)
        if want_ring and rng.random() < 0.5:
            add_ring(p)
            want_ring = False
            continue
        if len(atoms) >= n + 6:
            break
        el, q = new_element()
        a = add_atom(el, q)
        omax = min(spare(p), 2 * CAP[(el, q)]) // 2
        if atoms[p]['arom']:
            omax = 1
        o = 1
        if omax >= 2 and rng.random() < 0.2:
            o = rng.randint(2, min(3, omax))
        add_bond(p, a, o)
    # aliphatic ring closure (single bond between two non-aromatic atoms with spare valence)
    if rng.random() < 0.3:
        G = nx.Graph(list(bonds))
        cands = [a for a in range(len(atoms)) if not atoms[a]['arom'] and spare(a) >= 2]
        rng.shuffle(cands)
        done = False
        for a in cands:
            for b in cands:
                if a < b and (a, b) not in bonds and a in G and b in G and nx.shortest_path_length(G, a, b) >= 2 \
                        and all(bonds[(min(x, y), max(x, y))] == 1
                                for x, y in zip(*(lambda p: (p[:-1], p[1:]))(nx.shortest_path(G, a, b)))):
                    add_bond(a, b, 1)
                    done = True
                    break
            if done:
                break
    # ionic contacts: a cation joined by an order-0 bond ('.') to an anionic oxygen (an existing O- or a new one)
    if rng.random() < ion_p:
        for _ in range(rng.choice([1, 1, 2])):
            oxy = [a for a in range(len(atoms)) if (atoms[a]['el'], atoms[a]['q']) == ('O', -1)
                   and not any(bonds[e] == 0 for e in bonds if a in e)]
            if oxy and rng.random() < 0.5:
                o_ = rng.choice(oxy)
            else:
                cands = [a for a in range(len(atoms)) if spare(a) >= 2 and atoms[a]['el'] in ('C', 'Si', 'S', 'N')
                         and atoms[a]['q'] == 0]
                if not cands:
                    break
                p = rng.choice(cands)
                o_ = add_atom('O', -1)
                add_bond(p, o_, 1)
            cat = add_atom(rng.choice(['Na', 'Na', 'K', 'Li']), 1)
            add_bond(o_, cat, 0)
    # no multiple bonds inside rings (ring-closure bond symbols are outside the generator's syntax subset)
    G = nx.Graph(list(bonds))
    bridges = {(min(a, b), max(a, b)) for a, b in nx.bridges(G)} if len(G) else set()
    for e, o in list(bonds.items()):
        if o in (2, 3) and e not in bridges:
            bonds[e] = 1
    return atoms, bonds


BEADS = ['P', 'Q', 'R', 'S', 'T', 'U', 'W']


def rand_bead_graph(rng):
    """a tree of coarse beads (resolved with last_all_atom=False); edges of order 1 or 0 ('.', a virtual edge)"""
    n = rng.randint(3, 8)
    atoms = [{'el': rng.choice(BEADS), 'q': 0, 'arom': False, 'bead': True} for _ in range(n)]
    bonds = {}
    zero = set()        # every bead touches at most one order-0 edge
    for b in range(1, n):
        a = rng.randrange(max(0, b - 3), b)
        o = 0 if (rng.random() < 0.35 and a not in zero) else 1
        if o == 0:
            zero.update((a, b))
        bonds[(a, b)] = o
    return atoms, bonds


def rand_partition(rng, atoms, bonds, k):
    G = nx.Graph()
    G.add_nodes_from(range(len(atoms)))
    G.add_edges_from(bonds)
    seeds = rng.sample(range(len(atoms)), k)
    part = {s: i for i, s in enumerate(seeds)}
    while len(part) < len(atoms):
        frontier = [(a, b) for a in part for b in G[a] if b not in part]
        a, b = rng.choice(frontier)
        part[b] = part[a]
    return part


# ------------------------------------------------------------------------------ fragment SMILES
def atom_token(at):
    if at.get('bead'):
        return '[#%s]' % at['el']
    el = at['el'].lower() if at['arom'] else at['el']
    if el == 'Si':
        return '[Si]'
    if at['q']:
        return '[%s%s]' % (el, '+' if at['q'] > 0 else '-')
    return el


def write_fragment(rng, nodes, edges, desc):
    """nodes: {local: atom dict}; edges: {(a, b): order}; desc: {local: [descriptor text incl. symbol]}.
    Returns (smiles, order of the local nodes in the string)."""
    adj = {a: [] for a in nodes}
    for (a, b), o in edges.items():
        adj[a].append((b, o))
        adj[b].append((a, o))
    for a in adj:
        rng.shuffle(adj[a])
        adj[a].sort(key=lambda bo: bo[1] == 0)      # an order-0 neighbour last: '.' is not written first in a branch
    root = rng.choice(sorted(nodes))
    seen, order, tree, closures = set(), [], {a: [] for a in nodes}, []

    def dfs(a, parent):
        seen.add(a)
        order.append(a)
        for b, o in adj[a]:
            if b == parent:
                continue
            if b in seen:
                if not any({a, b} == {x, y} for x, y, _ in closures):
                    closures.append((b, a, o))          # b was visited earlier
                continue
            tree[a].append((b, o))
            dfs(b, a)
    dfs(root, None)
    pos = {a: i for i, a in enumerate(order)}
    digits = {a: [] for a in nodes}
    free = list(range(1, 10))
    open_at = {}
    for a in order:
        for (x, y, o) in closures:
            early, late = (x, y) if pos[x] < pos[y] else (y, x)
            if late == a and (early, late) in open_at:
                d = open_at.pop((early, late))
                digits[a].append(str(d))
                free.append(d)
                free.sort()
        for (x, y, o) in closures:
            early, late = (x, y) if pos[x] < pos[y] else (y, x)
            if early == a:
                if not free:
                    raise ValueError('too many ring closures')
                d = free.pop(0)
                open_at[(early, late)] = d
                # a single bond between two aromatic atoms must be written explicitly
                sym = '-' if (o == 1 and nodes[early]['arom'] and nodes[late]['arom']) else ''
                digits[a].append(sym + str(d))

    def bond_sym(a, b, o):
        if o == 1.5:
            return ''
        if o == 1:
            return '-' if nodes[a]['arom'] and nodes[b]['arom'] else ''
        return SYM[o]

    def emit(a):
        t = atom_token(nodes[a]) + ''.join(digits[a]) + ''.join(desc.get(a, []))
        ch = tree[a]
        for i, (b, o) in enumerate(ch):
            s = bond_sym(a, b, o) + emit(b)
            t += '(' + s + ')' if i < len(ch) - 1 else s
        return t
    return emit(root), order


# ------------------------------------------------------------------------------ the two descriptions
def describe(rng, atoms, bonds, part, share, mode):
    """share: {cut (a, b): shared end atom}.  Returns dict with the two strings and the bookkeeping,
    or None when the case leaves the syntax subset (base edge order > 4, > 9 ring closures)."""
    k = max(part.values()) + 1
    cuts = [e for e in bonds if part[e[0]] != part[e[1]]]
    lab = {e: label(i) for i, e in enumerate(sorted(cuts))}
    # base graph: spanning tree from fragment 0 with random child order
    def build(shared):
        frag_nodes = [dict() for _ in range(k)]      # local id -> atom dict (with 'orig')
        frag_edges = [dict() for _ in range(k)]
        desc = [dict() for _ in range(k)]
        local = {}
        for a, f in sorted(part.items()):
            local[a] = len(frag_nodes[f])
            frag_nodes[f][local[a]] = dict(atoms[a], orig=a)
        for (a, b), o in bonds.items():
            if part[a] == part[b]:
                frag_edges[part[a]][(local[a], local[b])] = o
        pair_count = {}     # (f, g) f < g -> number of descriptor pairs (base edge order)

        def bump(f, g):
            key = (min(f, g), max(f, g))
            pair_count[key] = pair_count.get(key, 0) + 1
        copies = {}         # (shared atom s, fragment F) -> local id of the copy in F
        npairs = 0
        nl = len(cuts)
        groups = {}         # shared atom -> list of fragments holding a copy, in creation order
        for e in sorted(cuts):
            a, b = e
            o = bonds[e]
            s = shared.get(e)
            if s is None:
                sym = SYM.get(o, '')
                for x in (a, b):
                    desc[part[x]].setdefault(local[x], []).append('%s[$%s]' % (sym, lab[e]))
                bump(part[a], part[b])
                continue
            u = b if s == a else a
            F = part[u]
            if (s, F) not in copies:
                cid = len(frag_nodes[F])
                frag_nodes[F][cid] = dict(atoms[s], orig=s)
                copies[(s, F)] = cid
                groups.setdefault(s, []).append(F)
            cid = copies[(s, F)]
            frag_edges[F][(local[u], cid)] = o
        # the `!` pairs: star (every copy with the original), chain (copy with the previous copy),
        # clique (all pairs: redundant description of one atom shared by several fragments)
        for s, Fs in groups.items():
            members = [(part[s], local[s])] + [(F, copies[(s, F)]) for F in Fs]
            if mode == 'star' or len(members) == 2:
                pairs = [(members[0], m) for m in members[1:]]
            elif mode == 'chain':
                pairs = list(zip(members[:-1], members[1:]))
            else:
                pairs = [(members[i], members[j]) for i in range(len(members)) for j in range(i + 1, len(members))]
            for (f, x), (g, y) in pairs:
                lb = label(nl)
                nl += 1
                desc[f].setdefault(x, []).append('[!%s]' % lb)
                desc[g].setdefault(y, []).append('[!%s]' % lb)
                bump(f, g)
            npairs += len(members) - 1
        if any(v > 4 for v in pair_count.values()):
            return None
        # base graph text
        B = nx.Graph()
        B.add_nodes_from(range(k))
        for (f, g), c in pair_count.items():
            B.add_edge(f, g, order=c)
        if not nx.is_connected(B):
            return None
        children = {f: [] for f in range(k)}
        orders, ring_edges, seen = {}, [], {0}
        order_seen = []

        def visit(f):
            order_seen.append(f)
            nb = sorted(B[f])
            rng.shuffle(nb)
            for g in nb:
                if g not in seen:
                    seen.add(g)
                    children[f].append(g)
                    orders[(f, g)] = B.edges[f, g]['order']
                    visit(g)
        visit(0)
        tree_edges = {frozenset(e) for e in orders}
        for f, g in B.edges:
            if frozenset((f, g)) not in tree_edges:
                ring_edges.append((f, g, B.edges[f, g]['order']))
        names = ['F%d' % f for f in range(k)]
        try:
            base = '{' + gens.render_base(rng, names, children, orders, ring_edges) + '}'
        except IndexError:
            return None
        # render_base visits children in list order: coarse key = preorder position
        coarse = {}

        def pre(f):
            coarse[f] = len(coarse)
            for g in children[f]:
                pre(g)
        pre(0)
        defs, phi = [], []
        for f in range(k):
            try:
                smi, order = write_fragment(rng, frag_nodes[f], frag_edges[f], desc[f])
            except ValueError:
                return None
            defs.append('#F%d=%s' % (f, smi))
            for idx, loc in enumerate(order):
                phi.append([names[f], idx, frag_nodes[f][loc]['orig']])
        owners = {}
        for f in range(k):
            for loc, at in frag_nodes[f].items():
                owners.setdefault(at['orig'], []).append(coarse[f])
        return {'s': base + '.{' + ','.join(defs) + '}', 'phi': phi,
                'owners': [[a, sorted(set(fs))] for a, fs in sorted(owners.items())],
                'frag_heavy': sum(len(fn) for fn in frag_nodes), 'npairs': npairs}
    d = build({})
    sh = build(share)
    if d is None or sh is None:
        return None
    return {'disjoint': d, 'shared': sh}


def gen_case(rng, force=None, coarse=None, ions=None):
    if coarse is None:
        coarse = rng.random() < 0.12
    for _ in range(200):
        if coarse:
            atoms, bonds = rand_bead_graph(rng)
        else:
            atoms, bonds = rand_molecule(rng, ion_p=(0.22 if ions is None else ions))
        if len(atoms) < 3:
            continue
        k = rng.randint(2, min(4, len(atoms)))
        part = rand_partition(rng, atoms, bonds, k)
        cuts = sorted(e for e in bonds if part[e[0]] != part[e[1]])
        p = rng.choice([0.4, 0.7, 1.0])
        share = {}
        for e in cuts:
            if rng.random() < p:
                share[e] = rng.choice(e)
        if not share:
            e = rng.choice(cuts)
            share[e] = rng.choice(e)
        r = rng.random()
        mode = force or ('star' if r < 0.6 else ('chain' if r < 0.88 else 'clique'))
        if rng.random() < 0.35:
            # favour one atom shared by several fragments: share the hub of the highest-degree cut atom
            deg = {}
            for a, b in cuts:
                deg[a] = deg.get(a, 0) + 1
                deg[b] = deg.get(b, 0) + 1
            hub = max(deg, key=lambda a: (deg[a], a))
            for e in cuts:
                if hub in e:
                    share[e] = hub
        both = describe(rng, atoms, bonds, part, share, mode)
        if both is None:
            continue
        groups = {}
        for e, s in share.items():
            u = e[0] if e[1] == s else e[1]
            groups.setdefault(s, set()).add(part[u])
        multi = max(len(v) for v in groups.values())
        tags = []
        if multi >= 2:
            tags.append('atom-in-%d-fragments-%s' % (multi + 1, mode))
        if any(atoms[s]['arom'] for s in share.values()):
            tags.append('aromatic-shared')
        if any(s in e2 and e2 not in share for s in share.values() for e2 in cuts):
            tags.append('shared+$')
        per_frag = {}
        for e, s in share.items():
            u = e[0] if e[1] == s else e[1]
            per_frag[part[u]] = per_frag.get(part[u], set()) | {s}
        if any(len(v) >= 2 for v in per_frag.values()):
            tags.append('several-per-fragment')
        zero = [e for e, o in bonds.items() if o == 0]
        if zero:
            tags.append('order0-at-shared' if any(s in e for e in zero for s in share.values()) else 'order0')
        case = {'shared': both['shared'], 'disjoint': both['disjoint'], 'mode': mode,
                'cls': '+'.join(tags) if tags else 'single-share'}
        if coarse:
            case['coarse'] = True
            case['cls'] = 'coarse:' + case['cls']
        return case
    raise RuntimeError('generator did not produce a case')


# ------------------------------------------------------------------------------ ambiguous descriptors
# The descriptions above use a unique label per descriptor pair, so at most one pair is ever compatible.  The variants
# below make SEVERAL pairs compatible: the labels are dropped (legacy convention: equal text) or kept but resolved with
# legacy=False (labels are not compared), and the descriptors written on one atom are shuffled (`C[$][!]` / `C[!][$]`).
# Which pair then bonds is decided by the documented scan of match_bonding_descriptors: atoms of the first fragment of
# the coarse edge in written order, for each the atoms of the second fragment in written order, for each the descriptors
# of the first atom in written order, for each the descriptors of the second atom; the first compatible pair wins.
# A variant is only used when a REFERENCE implementation of that documented rule (below; it reads the fragments and
# the coarse edges as the package parsed them, nothing of resolve.py) pairs exactly the same atoms as in the uniquely
# labelled description - then the overlapping variant must still denote the molecule of the disjoint description.
import re as _re

_DESC_RUN = _re.compile(r'(?:[=#.]?\[[$!][a-z]*\])+')
_DESC_TOK = _re.compile(r'[=#.]?\[[$!][a-z]*\]')


def ref_compatible(left, right, legacy):
    if legacy:
        if left == right and left[0] not in '<>':
            return True
        if {left[0], right[0]} == {'<', '>'}:
            return left[1:] == right[1:]
        return False
    if left[0] == right[0] and left[0] in '$!':
        return True
    return {left[0], right[0]} == {'<', '>'}


def ref_pairs(s, legacy, coarse):
    """the descriptor pairs the documented first-match rule consumes, as a sorted list of
    (sorted [(coarse node, atom), (coarse node, atom)], kind, order text); None when the string does not parse"""
    from cgsmiles.resolve import MoleculeResolver
    try:
        r = MoleculeResolver.from_string(s, last_all_atom=not coarse, legacy=legacy)
        frags = r.fragment_dicts[0]
        mg = r.molecule            # before resolve() the coarse graph sits here; resolve() makes it the meta graph
        if mg.number_of_edges() == 0 and len(mg) > 1:
            return None
        state = {}
        for c in mg.nodes:
            g = frags[mg.nodes[c]['fragname']]
            state[c] = [(a, list(d)) for a, d in nx.get_node_attributes(g, 'bonding').items()]
        edges = [(p, n, mg.edges[p, n]['order']) for p, n in list(mg.edges)]
    except Exception:          # noqa: BLE001
        return None
    out = []
    for p, n, o in edges:
        for _ in range(o):
            hit = None
            for a, ds in state[p]:
                for b, dt in state[n]:
                    for x in ds:
                        for y in dt:
                            if ref_compatible(x, y, legacy):
                                hit = (a, ds, x, b, dt, y)
                                break
                        if hit:
                            break
                    if hit:
                        break
                if hit:
                    break
            if hit is None:
                continue
            a, ds, x, b, dt, y = hit
            ds.remove(x)
            dt.remove(y)
            out.append((sorted([(p, a), (n, b)]), x[0], x[-1]))
    return sorted(out)


def ambiguate(rng, case):
    """a variant of the overlapping description with several compatible descriptor pairs, or None when the documented
    rule does not pair the same atoms as in the uniquely labelled description"""
    if case.get('kind') == 'layered':
        return None
    coarse = case.get('coarse', False)
    s = case['shared']['s']
    cut = s.index('}.{') + 2
    base, frs = s[:cut], s[cut:]

    def shuffle_run(m):
        toks = _DESC_TOK.findall(m.group(0))
        rng.shuffle(toks)
        return ''.join(toks)
    frs = _DESC_RUN.sub(shuffle_run, frs)
    labelled = base + frs
    kind = rng.choice(['unlabelled', 'unlabelled', 'nolegacy'])
    if kind == 'unlabelled':
        variant, legacy = base + _re.sub(r'\[([$!])[a-z]*\]', r'[\1]', frs), True
    else:
        variant, legacy = labelled, False
    want = ref_pairs(labelled, True, coarse)
    got = ref_pairs(variant, legacy, coarse)
    if want is None or got is None or want != got:
        return None
    if kind == 'unlabelled' and variant == labelled:
        return None
    out = copy.deepcopy(case)
    out['shared']['s'] = variant
    out['legacy'] = legacy
    out['cls'] = case['cls'] + '+ambiguous-' + kind
    return out


def shared_plus_ordinary(rng):
    """a molecule cut so that the SHARED atom s (fragment 0, shared with fragment 1) also carries one or two ordinary
    cut bonds (to fragments 2, 4), while fragment 1 owns an ordinary cut bond of its own (to fragment 3) on one of
    its other atoms: branch-shaped coarse graphs 0(-1(-3))(-2)"""
    def el(leaf):
        return rng.choice(['C', 'C', 'C', 'N', 'O'] if leaf else ['C', 'C', 'C', 'N'])
    atoms, bonds, part = [], {}, {}

    def add(e, f, q=0):
        atoms.append({'el': e, 'q': q, 'arom': False})
        part[len(atoms) - 1] = f
        return len(atoms) - 1

    def bond(a, b):
        bonds[(min(a, b), max(a, b))] = 1
    s_el = rng.choice([('C', 0), ('C', 0), ('C', 0), ('Si', 0), ('N', 1), ('N', 0)])
    room = CAP[s_el] - 1          # one bond goes to fragment 1
    s = add(s_el[0], 0, s_el[1])
    prev = s
    for _ in range(rng.randint(0, 2) if room >= 2 else 0):      # the rest of fragment 0: a chain from s
        a = add('C', 0)
        bond(prev, a)
        if prev == s:
            room -= 1
        prev = a
    b_atoms = []
    prev = s
    for i in range(rng.randint(1, 3)):             # fragment 1: a chain bonded to s
        b = add('C' if i < 2 else el(False), 1)
        bond(prev, b)
        b_atoms.append(b)
        prev = b
    n_ord = 1 if room < 2 or rng.random() < 0.7 else 2
    if room < 1:
        return None
    for j in range(n_ord):                          # ordinary cut bonds on s
        c = add(el(True), 2 if j == 0 else 4)
        bond(s, c)
        if rng.random() < 0.3:
            bond(c, add('C', part[c]))
    anchor = rng.choice(b_atoms)
    d = add(el(True), 3)                           # ordinary cut bond on fragment 1
    bond(anchor, d)
    if rng.random() < 0.3:
        bond(d, add('C', 3))
    share = {(min(s, b_atoms[0]), max(s, b_atoms[0])): s}
    both = describe(rng, atoms, bonds, part, share, 'star')
    if both is None:
        return None
    return {'shared': both['shared'], 'disjoint': both['disjoint'], 'mode': 'star', 'cls': 'shared+$:branch'}


def gen_ambiguous(rng):
    for _ in range(40):                # the targeted shape first
        if rng.random() < 0.35:
            break
        c = shared_plus_ordinary(rng)
        if c is None:
            continue
        for _ in range(3):
            v = ambiguate(rng, c)
            if v is not None:
                return v
    for _ in range(60):
        c = gen_case(rng, coarse=(rng.random() < 0.1))
        if 'shared+$' not in c['cls'] and rng.random() < 0.8:
            continue
        for _ in range(4):
            v = ambiguate(rng, c)
            if v is not None:
                return v
    return gen_case(rng)


# ------------------------------------------------------------------------------ driving the implementation
def resolve(s, record=None, coarse=False, legacy=True):
    from cgsmiles.resolve import MoleculeResolver
    resolver = MoleculeResolver.from_string(s, last_all_atom=not coarse, legacy=legacy)
    if record is not None:
        orig = resolver.squash_atoms

        def wrapped():
            record['sq0'] = copy.deepcopy(resolver.molecule)
            try:
                orig()
            except Exception as exc:       # noqa: BLE001
                record['sq_exc'] = type(exc).__name__
                raise
            record['sq1'] = copy.deepcopy(resolver.molecule)
        resolver.squash_atoms = wrapped
    _, mol = resolver.resolve_all()
    return mol


def literal_ok(G):
    try:
        lit.nxgraph(G)
        return True
    except (TypeError, ValueError):
        return False


# ------------------------------------------------------------------------------ layered inputs
def gen_layered(rng):
    """a layered string (>= 2 resolve() calls of one resolver) with `!` at a level that is NOT the last,
    and its flat two-level counterpart (tools/molgen.py, shared with C06)"""
    import molgen
    for _ in range(400):
        c = molgen.layered_case(rng, nmax=8, squash=True)
        if c is None or not c.get('squash') or c.get('coarse_last'):
            continue
        return {'kind': 'layered', 'layered': c['layered'], 'flat': c['flat'], 'levels': c['levels'],
                'cls': 'layered-%d-levels' % c['levels']}
    raise RuntimeError('no layered case with a squash operator generated')


def run_layered(case):
    import re
    from cgsmiles.resolve import MoleculeResolver
    try:
        flat = MoleculeResolver.from_string(case['flat']).resolve_all()[1]
    except Exception as exc:           # noqa: BLE001
        return {'skip': 'flat description raises ' + type(exc).__name__}
    blocks = re.findall(r"\{[^\}]+\}", case['layered'])
    calls, levels, exc = [], [], None
    try:
        resolver = MoleculeResolver.from_string(case['layered'])
        orig = resolver.squash_atoms

        def wrapped():
            rec = {'sq0': copy.deepcopy(resolver.molecule)}
            calls.append(rec)
            try:
                orig()
            except Exception as exc_:      # noqa: BLE001
                rec['exc'] = type(exc_).__name__
                raise
            rec['sq1'] = copy.deepcopy(resolver.molecule)
        resolver.squash_atoms = wrapped
        for _, mol in resolver.resolve_iter():
            levels.append(copy.deepcopy(mol))
    except Exception as exc_:          # noqa: BLE001
        exc = type(exc_).__name__
    if not calls:
        return {'skip': 'squash_atoms not reached: ' + str(exc)}
    if not all(literal_ok(c['sq0']) for c in calls) or not literal_ok(flat):
        return {'skip': 'attribute value without a Gallina literal'}
    final = levels[-1] if exc is None and len(levels) == len(blocks) - 1 else None
    # explicit atom correspondence: (last-level fragment name, index in it) names an atom in both descriptions
    keys = {}
    for _, d in flat.nodes(data=True):
        for nm, i in d.get('mapping', []):
            keys.setdefault((nm, i), len(keys))
    phi = [[nm, i, k] for (nm, i), k in keys.items()]
    npairs = [blocks[j + 1].count('[!') // 2 for j in range(len(levels))]
    only = ('element', 'charge', 'fragid', 'mapping')
    last = calls[-1]
    return {'layered': True, 'exc': exc, 'sq_exc': last.get('exc'),
            'sq0': lit.nxgraph(last['sq0']), 'sq1': lit.obs_graph(last['sq1']) if 'sq1' in last else None,
            'more_sq': [(lit.nxgraph(c['sq0']), lit.obs_graph(c['sq1']) if 'sq1' in c else None) for c in calls[:-1]],
            'shared': lit.obs_graph(final, only_node=only, only_edge=('order',)) if final is not None else None,
            'disjoint': lit.obs_graph(flat, only_node=only, only_edge=('order',)),
            'levels': [(lit.obs_graph(g, only_node=('fragid',), only_edge=()), n) for g, n in zip(levels, npairs)],
            'phi': phi, 'heavy': sum(1 for _, d in flat.nodes(data=True) if d.get('element') != 'H'),
            'pairs': [], 'summary': {'levels': len(levels), 'pairs_per_level': npairs,
                                     'multi_member_per_level': [sum(1 for _, d in g.nodes(data=True) if len(d.get('fragid', [])) > 1)
                                                                for g in levels],
                                     'shared_atoms': None if final is None else len(final), 'disjoint_atoms': len(flat)},
            'py_code': py_layered(levels, npairs, final, flat)}


def py_layered(levels, npairs, final, flat):
    """second oracle for layered cases (mirror of SquashCheck.levels_ok + the final comparison)"""
    if final is None:
        return 1
    for g, n in zip(levels, npairs):
        if sum(1 for _, d in g.nodes(data=True) if len(d.get('fragid', [])) > 1) != n:
            return 8

    def sig(G):
        key = {}
        for n, d in G.nodes(data=True):
            if d.get('element') != 'H':
                ms = {tuple(m) for m in d.get('mapping', [])}
                if len(ms) != 1:
                    return None
                key[n] = ms.pop()
        atoms = sorted((key[n], G.nodes[n].get('element'), G.nodes[n].get('charge'),
                        sum(1 for x in G[n] if G.nodes[x].get('element') == 'H')) for n in key)
        bonds = sorted((min(key[u], key[v]), max(key[u], key[v]), int(2 * d.get('order', 1)))
                       for u, v, d in G.edges(data=True) if u in key and v in key)
        return atoms, bonds
    a, b = sig(final), sig(flat)
    if b is None:
        return 0
    if a is None:
        return 2
    if a[1] != b[1]:
        return 5
    if a[0] != b[0] or len(final) != len(flat):
        return 6
    return 0


# ------------------------------------------------------------------------------ second oracle (Python)
def py_fail_c10(case, sq0, sq1, shared, dis):
    """mirror of SquashCheck.prop_fail (incl. the class codes), used only when the Coq side cannot be built"""
    def heavy(G):
        return [n for n, d in G.nodes(data=True) if d.get('element') != 'H']

    def origin(G, phi):
        table = {(nm, i): o for nm, i, o in phi}
        out = {}
        for n in heavy(G):
            try:
                os_ = {table[(nm, i)] for nm, i in G.nodes[n]['mapping']}
            except (KeyError, TypeError, ValueError):
                return None
            if len(os_) != 1:
                return None
            out[n] = os_.pop()
        return out

    def bonds(G, m):
        return sorted((min(m[u], m[v]), max(m[u], m[v]), int(2 * d.get('order', 1)))
                      for u, v, d in G.edges(data=True) if u in m and v in m)

    def sig(G, m):
        return sorted((m[n], G.nodes[n].get('element', G.nodes[n].get('atomname')), G.nodes[n].get('charge'),
                       sum(1 for x in G[n] if G.nodes[x].get('element') == 'H')) for n in m)

    def base():
        if shared is None:
            return 1
        md = origin(dis, case['disjoint']['phi'])
        if md is None:
            return 0
        ms = origin(shared, case['shared']['phi'])
        if ms is None:
            return 2
        if len(set(md.values())) != len(md):
            return 0
        if len(set(ms.values())) != len(ms):
            return 3
        if len(ms) != case['shared']['frag_heavy'] - case['shared']['npairs']:
            return 4
        if bonds(shared, ms) != bonds(dis, md):
            return 5
        if sig(shared, ms) != sig(dis, md):
            return 6
        owners = {a: sorted(fs) for a, fs in case['shared']['owners']}
        for n, a in ms.items():
            fl = shared.nodes[n].get('fragid')
            if not isinstance(fl, list) or len(set(fl)) != len(fl) or sorted(fl) != owners.get(a):
                return 7
        if len(shared) != len(dis):
            return 6
        return 0
    code = base()
    if code == 0:
        return 0
    return code


class C10(common.Prop):
    id = 'C10'
    level = 'proof'
    technique = ('Coq proof (node count, neighbourhoods and membership lists over the fold of contractions, for every '
                 'graph and every list of `!` pairs forming a forest over atoms) + per-run correspondence of the '
                 'hand-written squash_atoms / contracted_nodes model with the real call inside resolve_all(), and a '
                 'metamorphic search (overlapping vs. disjoint description of random molecules) judged in Coq')
    vo_deps = ['theories/Hydro/SquashCheck.vo']
    prop_file = 'theories/Properties/C10.v'
    case_requires = ('From Coq Require Import String.\nFrom Coq Require Import List Ascii ZArith Bool.\n'
                     'From CGV Require Import Base.PyBase Base.PyVal Base.NxGraph Hydro.Squash Hydro.SquashCheck.')
    shard = 12
    quick_cases = 160
    thorough_cases = 2500
    extended_cases = 600
    fail_text = {1: 'the overlapping description does not resolve although the disjoint one does',
                 2: 'atoms were merged that are not copies of the same atom (or an atom lost its origin)',
                 3: 'two copies of one atom were not merged',
                 4: 'the number of heavy atoms is not (atoms of all fragments) - (shared pairs)',
                 5: 'the bonds differ from the molecule resolved from disjoint fragments (a bond was lost, added or changed order)',
                 6: 'element, charge or hydrogen count of an atom differ from the molecule resolved from disjoint fragments',
                 7: 'the fragid list of an atom is not exactly the coarse nodes whose fragments contain it',
                 8: 'at some level the number of nodes that belong to more than one coarser node is not the number of `!` pairs written at that level'}

    def corpus(self, ctx):
        import random
        rng = random.Random(12345)
        out = []
        kf = common.load_known_findings()
        for f in kf.get('findings', []) + kf.get('fixed', []):
            if f.get('property') == 'C10' and isinstance(f.get('witness'), dict):
                out.append(dict(f['witness'], cls='known-finding-witness' if 'commit' not in f else 'fixed-finding-witness'))
        out.append({'kind': 'layered', 'cls': 'layered-corpus', 'levels': 2,
                    'layered': '{[#X][#Y]}.{#X=[#a][#b][!],#Y=[!][#b][#c]}.{#a=CC[$],#b=[$]CO[$],#c=[$]CN}',
                    'flat': '{[#a][#b][#c]}.{#a=CC[$],#b=[$]CO[$],#c=[$]CN}'})
        # two DISTINCT shared atoms that are directly bonded (both atoms of the middle fragment are shared): the merge
        # classes are the components of the `!` pairs, not of the bonded shared atoms (seed C10-5)
        out.append({'shared': {'s': '{[#A][#B][#C]}.{#A=OC[!a],#B=[!a]CC[!b],#C=[!b]CO}',
                               'phi': [['A', 0, 0], ['A', 1, 1], ['B', 0, 1], ['B', 1, 2], ['C', 0, 2], ['C', 1, 3]],
                               'owners': [[0, [0]], [1, [0, 1]], [2, [1, 2]], [3, [2]]], 'frag_heavy': 6, 'npairs': 2},
                    'disjoint': {'s': '{[#A][#B][#C]}.{#A=O[$a],#B=[$a]CC[$b],#C=[$b]O}',
                                 'phi': [['A', 0, 0], ['B', 0, 1], ['B', 1, 2], ['C', 0, 3]],
                                 'owners': [[0, [0]], [1, [1]], [2, [1]], [3, [2]]], 'frag_heavy': 4, 'npairs': 0},
                    'mode': 'star', 'cls': 'bonded-shared-atoms'})
        # an order-0 bond ('.') on the REMOVED copy of a shared atom, all-atom and one level up (seed C10-7)
        out.append({'shared': {'s': '{[#A][#B]}.{#A=CC(=O)[O-][!],#B=[!][O-].[Na+]}',
                               'phi': [['A', 0, 0], ['A', 1, 1], ['A', 2, 2], ['A', 3, 3], ['B', 0, 3], ['B', 1, 4]],
                               'owners': [[0, [0]], [1, [0]], [2, [0]], [3, [0, 1]], [4, [1]]], 'frag_heavy': 6, 'npairs': 1},
                    'disjoint': {'s': '{[#A][#B]}.{#A=CC(=O)[$],#B=[$][O-].[Na+]}',
                                 'phi': [['A', 0, 0], ['A', 1, 1], ['A', 2, 2], ['B', 0, 3], ['B', 1, 4]],
                                 'owners': [[0, [0]], [1, [0]], [2, [0]], [3, [1]], [4, [1]]], 'frag_heavy': 5, 'npairs': 0},
                    'mode': 'star', 'cls': 'order0-on-removed-copy'})
        out.append({'shared': {'s': '{[#A0][#B0]}.{#A0=[#P][#Q][!],#B0=[!][#Q].[#R]}',
                               'phi': [['A0', 0, 0], ['A0', 1, 1], ['B0', 0, 1], ['B0', 1, 2]],
                               'owners': [[0, [0]], [1, [0, 1]], [2, [1]]], 'frag_heavy': 4, 'npairs': 1},
                    'disjoint': {'s': '{[#A0][#B0]}.{#A0=[#P][#Q].[$],#B0=[$].[#R]}',
                                 'phi': [['A0', 0, 0], ['A0', 1, 1], ['B0', 0, 2]],
                                 'owners': [[0, [0]], [1, [0]], [2, [1]]], 'frag_heavy': 3, 'npairs': 0},
                    'mode': 'star', 'coarse': True, 'cls': 'coarse:order0-on-removed-copy'})
        # several compatible descriptor pairs (labels dropped / legacy=False), descriptors of one atom in both orders; the
        # shared atom also carries an ordinary descriptor and the partner fragment an open compatible one (seed C10-10)
        out.append({'shared': {'s': '{[#A]([#B][#D])[#C]}.{#A=CC[$][!],#B=[!]CC[$],#C=[$]O,#D=[$]N}',
                               'phi': [['A', 0, 0], ['A', 1, 1], ['B', 0, 1], ['B', 1, 2], ['C', 0, 3], ['D', 0, 4]],
                               'owners': [[0, [0]], [1, [0, 1]], [2, [1]], [3, [3]], [4, [2]]], 'frag_heavy': 6, 'npairs': 1},
                    'disjoint': {'s': '{[#A]([#B][#D])[#C]}.{#A=CC[$c][$b],#B=[$b]C[$d],#C=[$c]O,#D=[$d]N}',
                                 'phi': [['A', 0, 0], ['A', 1, 1], ['B', 0, 2], ['C', 0, 3], ['D', 0, 4]],
                                 'owners': [[0, [0]], [1, [0]], [2, [1]], [3, [3]], [4, [2]]], 'frag_heavy': 5, 'npairs': 0},
                    'mode': 'star', 'cls': 'shared+$:branch+ambiguous-unlabelled'})
        arng = random.Random(2718)
        out += [gen_ambiguous(arng) for _ in range(6)]
        out += [gen_layered(rng) for _ in range(3)]
        out += [gen_case(rng, force='star', coarse=False, ions=1.0), gen_case(rng, force='chain', coarse=True)]
        return out + [gen_case(rng, force=m) for m in ('star', 'chain', 'clique', 'star', 'chain')]

    def generate(self, ctx, n):
        out = []
        for _ in range(n):
            r = ctx.rng.random()
            out.append(gen_layered(ctx.rng) if r < 0.2 else (gen_ambiguous(ctx.rng) if r < 0.45 else gen_case(ctx.rng)))
        return out

    def run_impl(self, case):
        if case.get('kind') == 'layered':
            return run_layered(case)
        try:
            dis = resolve(case['disjoint']['s'], coarse=case.get('coarse', False))
        except Exception as exc:           # noqa: BLE001
            return {'skip': 'disjoint description raises ' + type(exc).__name__}
        rec = {}
        shared, exc = None, None
        try:
            shared = resolve(case['shared']['s'], rec, coarse=case.get('coarse', False), legacy=case.get('legacy', True))
        except Exception as exc_:          # noqa: BLE001
            exc = type(exc_).__name__
        if 'sq0' not in rec:
            return {'skip': 'squash_atoms not reached: ' + str(exc)}
        if not literal_ok(rec['sq0']) or not literal_ok(dis):
            return {'skip': 'attribute value without a Gallina literal'}
        return {'sq0': lit.nxgraph(rec['sq0']), 'sq1': lit.obs_graph(rec['sq1']) if 'sq1' in rec else None,
                'sq_exc': rec.get('sq_exc'), 'exc': exc,
                'shared': lit.obs_graph(shared, only_node=('element', 'charge', 'fragid', 'mapping'), only_edge=('order',))
                if shared is not None else None,
                'disjoint': lit.obs_graph(dis, only_node=('element', 'charge', 'fragid', 'mapping'), only_edge=('order',)),
                'pairs': [[u, v] for (u, v), b in nx.get_edge_attributes(rec['sq0'], 'bonding').items()
                          if b[0].startswith('!')],
                'summary': {'shared_atoms': None if shared is None else len(shared), 'disjoint_atoms': len(dis)},
                'py_code': py_fail_c10(case, rec['sq0'], rec.get('sq1'), shared, dis)}

    def python_oracle(self, case, impl):
        return impl.get('py_code', 0)

    def nontrivial(self, case, impl):
        return 'skip' not in impl

    def case_class(self, case, impl):
        if 'skip' in impl:
            return 'skipped:' + impl['skip']
        c = case.get('cls', '?')
        if impl.get('exc'):
            c += ':raises-' + impl['exc']
        return c

    def describe(self, case):
        return {k: v for k, v in case.items() if k != 'cls'}

    @staticmethod
    def _is_layered(case):
        return case.get('kind') == 'layered'

    def known_class(self, case, impl, code):
        """the class predicates are evaluated in Coq (SquashCheck.raise_code) and arrive as the code"""
        return None        # no open defect class (all three repaired in /repo)

    def coq_case(self, case, impl):
        if 'skip' in impl:
            return ('{| c_skip := true; c_sq0 := []; c_sq1 := None; c_shared := None; c_disjoint := ([], []); '
                    'c_phi_s := []; c_phi_d := []; c_owners := []; c_frag_heavy := 0; c_npairs := 0; '
                    'c_layered := false; c_levels := []; c_more_sq := [] |}')

        def phi(p):
            return lit.lst(['((%s, %s), %s)' % (lit.s(n), lit.z(i), lit.z(o)) for n, i, o in p])
        if impl.get('layered'):
            return ('{| c_skip := false; c_sq0 := %s; c_sq1 := %s; c_shared := %s; c_disjoint := %s; c_phi_s := %s; '
                    'c_phi_d := %s; c_owners := []; c_frag_heavy := %s; c_npairs := 0; c_layered := true; c_levels := %s; '
                    'c_more_sq := %s |}'
                    % (impl['sq0'], lit.opt(impl['sq1'], lambda x: x), lit.opt(impl['shared'], lambda x: x), impl['disjoint'],
                       phi(impl['phi']), phi(impl['phi']), lit.z(impl['heavy']),
                       lit.lst(['(%s, %s)' % (g, lit.z(n)) for g, n in impl['levels']]),
                       lit.lst(['(%s, %s)' % (g, lit.opt(o, lambda x: x)) for g, o in impl['more_sq']])))
        sh = case['shared']
        return ('{| c_skip := false; c_sq0 := %s; c_sq1 := %s; c_shared := %s; c_disjoint := %s; c_phi_s := %s; '
                'c_phi_d := %s; c_owners := %s; c_frag_heavy := %s; c_npairs := %s; c_layered := false; c_levels := []; c_more_sq := [] |}'
                % (impl['sq0'], lit.opt(impl['sq1'], lambda x: x), lit.opt(impl['shared'], lambda x: x), impl['disjoint'],
                   phi(sh['phi']), phi(case['disjoint']['phi']),
                   lit.lst(['(%s, %s)' % (lit.z(a), lit.lst([lit.z(f) for f in fs])) for a, fs in sh['owners']]),
                   lit.z(sh['frag_heavy']), lit.z(sh['npairs'])))


PROP = C10()
