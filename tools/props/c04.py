"""C04 — the graph reader implements the documented grammar.
Tie: hand-written Impl model theories/Reader/ReaderImpl.v (over the tables and `_find_next_character`
regenerated from read_cgsmiles.py) compared with the implementation on every run; the oracle
`prop_fail` (theories/Reader/ReaderCheck.v) compares what the IMPLEMENTATION returned with the
denotation of the grammar AST (theories/Reader/Grammar.v), inside Coq.
Generator classes: random grammar ASTs (with and without braces, with node multipliers), the
exhaustive list of small ASTs, fault-injected ASTs (unclosed ring, ring bond duplicating a chain edge, two ring bonds between the same nodes) and token
soups (the last two: correspondence only)."""
import re

import common
import grammar as G
import lit

CLASSES_C04 = {}   # no known defect class is left (pct_at_end, nodemult_sym, double_close are repaired)

REPO_TEST_STRINGS = [
    "{[#PMA][#PEO][#PMA]}", "{[#PMA]=[#PEO]$[#PMA]}", "{[#PMA;q=1]=[#PEO]$[#PMA]}", "{[#PMA]([#PEO][#PEO])[#PMA]}",
    "{[#PMA]([#PEO]=[#PEO])[#PMA]}", "{[#PMA]|3}", "{[#PMA]|3[#PEO]|2}", "{[#PMA]([#PEO][#PEO])|2}",
    "{[#PMA]([#PEO]|3)|2}", "{[#PMA]([#PEO][#PEO]([#OH])[#PEO])|2}", "{[#PMA][#PMA]([#PEO][#PEO]([#OH])[#PEO])[#PMA]}",
    "{[#PMA][#PMA]([#PEO][#PEO]([#OH]|2)[#PEO])[#PMA]}", "{[#PMA][#PMA]([#PEO][#PQ]([#OH])[#PEO])[#PMA]}",
    "{[#PMA]([#PEO][#PQ]([#OH])[#PEO])|2}", "{[#PMA]([#PEO][#PQ]([#OH])[#PEO])|3}", "{[#PMA]1[#PEO][#PMA]1}",
    "{[#PMA]1[#PEO]([#PEO][#OHter])[#PMA]1}", "{[#PMA]1=[#PEO]([#PEO]=[#OHter])[#PMA]1}", "{[#PMA]=1[#PEO]([#PEO]=[#OHter])[#PMA]1}",
    "{[#PMA]1[#PEO]2[#PMA]1[#PEO]2}", "{[#PMA]1[#PEO]2[#PMA]2[#PEO]1}", "{[#PMA]%123[#PEO]2[#PMA]2[#PEO]%123}",
    "{[#PMA]12[#PEO][#PMA]1[#PEO]2}", "{[#A]1[#B]1}", "{[#A]1[#B]}", "{[#A]([#B])=|3#[#C]}", "{[#A][#B]([#C])=|2.[#D]}",
]


def err_name(exc):
    if isinstance(exc, SyntaxError):
        m = str(exc)
        if 'dangling' in m:
            return 'ESyntax (S "dangling")'
        if 'two edges' in m:
            return 'ESyntax (S "double")'
        if 'contains too many' in m:
            return 'ESyntax (S "toomany_eq")'
        if 'too many positional' in m:
            return 'ESyntax (S "bind")'
        return 'ESyntax (S "other")'
    return {'TypeError': 'EType', 'KeyError': 'EKey', 'IndexError': 'EIndex', 'ValueError': 'EValue',
            'UnboundLocalError': 'EUnbound'}.get(type(exc).__name__, 'EName')


def read(text):
    """observable outcome of read_cgsmiles(text), JSON-able"""
    from cgsmiles.read_cgsmiles import read_cgsmiles
    try:
        g = read_cgsmiles(text)
    except Exception as exc:             # every exception class is part of the observable
        return {'err': err_name(exc), 'exc': type(exc).__name__}
    return {'nodes': [[n, dict(d)] for n, d in g.nodes(data=True)],
            'edges': [[u, v, dict(d)] for u, v, d in g.edges(data=True)]}


def outcome_lit(o):
    if 'err' in o:
        return '(inr (%s))' % o['err']
    nodes = lit.lst([lit.pair(lit.z(n), lit.attrs(d)) for n, d in o['nodes']])
    edges = lit.lst(['(%s, %s, %s)' % (lit.z(u), lit.z(v), lit.attrs(d)) for u, v, d in o['edges']])
    return '(inl (%s, %s))' % (nodes, edges)


def fo_table(*texts):
    """float() as the running interpreter computes it, on every annotation piece of the texts"""
    pieces = set()
    for s in texts:
        for m in re.finditer(r"\[\#.*?\]", s):
            for e in m.group(0)[2:-1].split(';'):
                for p in e.split('='):
                    pieces.add(p)
    out = []
    for p in sorted(pieces):
        try:
            out.append('(%s, Some %s)' % (lit.s(p), lit.s(lit.float_repr(float(p)))))
        except ValueError:
            out.append('(%s, None)' % lit.s(p))
    return lit.lst(out)


def printable(text):
    return all(32 <= ord(c) <= 126 for c in text)


SOUP = ['[#A]', '[#B]', '[#C;q=1]', '(', ')', '|2', '|3', '|', '1', '2', '%12', '%', '=', '#', '.', '$', '-', '{', '}', '[',
        ']', '[#', '+', ' ', '|1', '0', ')|2', ')=|2', '))']


def soup(rng):
    n = rng.randint(1, 12)
    s = ''.join(rng.choice(SOUP) if rng.random() < 0.8 else rng.choice(SOUP[:3]) for _ in range(n))
    return '{' + s + '}' if rng.random() < 0.6 else s


def ast_case(a, braces=True, judge=True, mode='random'):
    return {'mode': mode, 'braces': braces, 'ast': a, 'text': G.print_ast(a, braces), 'judge': judge}


def raw_case(text, mode='raw'):
    return {'mode': mode, 'braces': text.startswith('{'), 'ast': None, 'text': text, 'judge': False}


def small_asts(thorough):
    """the exhaustive list (same parameters as the enumerator behind C04_small, see ReaderEnum.v)"""
    out = list(G.enum_asts(max_nodes=4 if thorough else 3, syms=(None, '='), max_rings=1, markers=('1', '%10'),
                           ring_syms=(None, '='), node_mults=(), branch_mults=(), max_depth=3, max_branches=2))
    out += list(G.enum_asts(max_nodes=3, syms=(None, '#'), max_rings=0, node_mults=('2', '3'), max_mults=2))
    # a ring id closed and reopened behind the same node (two rings sharing a node), in every spelling pair
    out += [a for a in G.enum_asts(max_nodes=5, syms=(None,), max_rings=0, ring_syms=(None, '='), max_depth=2, max_branches=1,
                                   reuse=(('1', '1', '1'), ('1', '%01', '1'), ('%12', '%12', '%12'), ('%01', '1', '%01')))
            if any(len(it['r']) >= 2 for it in G.items_in_order(a))]
    return out


class C04(common.Prop):
    id = 'C04'
    level = 'proof'
    technique = ('Coq: unbounded simulation theorem ReaderImpl(print a) = denote a for the grammar outside the defect classes '
                 '(C04_partial, both text kinds), ring-table invariant, bounded-exhaustive theorem over the enumerated small ASTs, '
                 'refutation witnesses for the known defect classes; per-run correspondence of '
                 'the hand-written reader model with read_cgsmiles and evaluation of the Coq denotation on the '
                 "implementation's output")
    vo_deps = ['theories/Reader/ReaderCheck.vo']
    prop_file = 'theories/Properties/C04.v'
    case_requires = ('From Coq Require Import String.\nFrom Coq Require Import List Ascii ZArith Bool.\n'
                     'From CGV Require Import Base.PyBase Base.PyVal Base.NxGraph Reader.Grammar Reader.ReaderCheck.')
    shard = 200
    quick_cases = 2000
    thorough_cases = 24000
    extended_cases = 3000
    fail_text = {1: 'the graph returned differs from the graph the grammar denotes',
                 2: 'the reader raised an exception on a valid string of the grammar',
                 7: 'harness error: a judged case is outside the grammar'}

    def corpus(self, ctx):
        known = common.load_known_findings()
        out = [dict(f['witness']) for f in known.get('findings', []) + known.get('fixed', []) if f['property'] == self.id]
        out += [raw_case(s, 'repo-tests') for s in REPO_TEST_STRINGS]
        return out

    def generate(self, ctx, n):
        rng = ctx.rng
        out = []
        if not getattr(ctx, '_small_done', False):
            ctx._small_done = True
            out += [ast_case(a, True, True, 'exhaustive-small') for a in small_asts(ctx.thorough())]
        for _ in range(n):
            r = rng.random()
            size = rng.choice([3, 5, 8, 8, 12, 16])
            if r < 0.45:
                out.append(ast_case(G.rand_ast(rng, size=size), True, True, 'random'))
            elif r < 0.55:
                out.append(ast_case(G.rand_ast(rng, size=size), False, True, 'random-nobraces'))
            elif r < 0.70:
                out.append(ast_case(G.rand_ast(rng, size=size, p_nmult=0.3), rng.random() < 0.8, True, 'random-nodemult'))
            elif r < 0.88:
                a = G.rand_ast(rng, size=size, p_nmult=0.1)
                f = rng.choice([G.inject_unclosed_ring, G.inject_duplicate_edge, G.inject_double_ring])(rng, a)
                out.append(ast_case(f or a, rng.random() < 0.8, False, 'fault-injected'))
            else:
                out.append(raw_case(soup(rng), 'soup'))
        return out

    def run_impl(self, case):
        return read(case['text'])

    def coq_case(self, case, impl):
        return ('{| c_braces := %s; c_ast := %s; c_text := %s; c_fo := %s; c_judge := %s; c_impl := %s |}'
                % (lit.b(case['braces']), G.coq_ast(case['ast'] or []), lit.s(case['text']), fo_table(case['text']),
                   lit.b(case['judge']), outcome_lit(impl)))

    def known_class(self, case, impl, code):
        return CLASSES_C04.get(code // 10)

    def case_class(self, case, impl):
        return case['mode'] + (':exception:' + impl['exc'] if 'err' in impl else ':graph')

    def nontrivial(self, case, impl):
        return len(case['text']) > 6

    def describe(self, case):
        return case

    def python_oracle(self, case, impl):
        if not case['judge'] or case['ast'] is None:
            return 0
        d = G.denote(case['ast'])
        if 'error' in d:
            return 0
        if 'err' in impl:
            return 2
        nodes = [dict(a) for _, a in sorted(impl['nodes'])]
        edges = sorted([min(u, v), max(u, v), a.get('order')] for u, v, a in impl['edges'])
        return 0 if (nodes == d['nodes'] and edges == d['edges']) else 1


C04.fail_text.update({n + 10 * k: C04.fail_text[n] + ' [input lies in known defect class %s]' % c
                     for k, c in CLASSES_C04.items() for n in (1, 2)})
PROP = C04()
