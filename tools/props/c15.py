"""C15 — stereo information survives fragmentation and renumbering.

Generator: tree-shaped molecules with 0-3 stereo double bonds (every substituent position
recognisable: the heavy-atom graph has exactly one element/bond-order preserving automorphism) and
labelled stereocentres; for one molecule many VARIANTS (single fragment / cut at a stereo double bond /
cut at single bonds elsewhere / several cuts, every base-graph order, different start atoms and branch
orders of each fragment's SMILES).  A cut never separates a slash mark from one of its two atoms.
Renderings are restricted to those whose per-atom token storage (pysmiles' own design) is unambiguous
(`unambiguous`), and every single-fragment rendering is cross-checked with pysmiles.read_smiles alone.

Tie: annotate_ez_isomers_cgsmiles (+ the third-party pysmiles functions it calls) is hand-modelled in
theories/Stereo/EzImpl.v and compared with the implementation on every run by wrapping the function
inside a real resolve_all() (molecule before / after).  The property's clauses are evaluated in Coq
(theories/Stereo/EzCheck.v, `prop_fail`) on the molecule resolve_all() RETURNED."""
import copy
import itertools

import networkx as nx

import common
import lit

HAL = ['F', 'Cl', 'Br', 'I']
FLIP = {'u': 'd', 'd': 'u'}


# ------------------------------------------------------------------------------ abstract molecule
class SMol:
    def __init__(self):
        self.el = []
        self.adj = {}
        self.order = {}       # frozenset({a, b}) -> order
        self.stereo = []      # [a1, a2]
        self.side = {}        # (ligand, anchor) -> 'u' | 'd'   (MARKED ligands only)
        self.chiral = {}      # atom -> 'R' | 'S'

    def add(self, el):
        k = len(self.el)
        self.el.append(el)
        self.adj[k] = []
        return k

    def bond(self, a, b, o=1):
        self.adj[a].append(b)
        self.adj[b].append(a)
        self.order[frozenset((a, b))] = o

    def bo(self, a, b):
        return self.order[frozenset((a, b))]

    def marked(self, a, b):
        return (a, b) in self.side or (b, a) in self.side

    def graph(self):
        g = nx.Graph()
        for k, e in enumerate(self.el):
            g.add_node(k, element=e)
        for fs, o in self.order.items():
            a, b = tuple(fs)
            g.add_edge(a, b, order=o)
        return g

    def relations(self):
        """ground truth: [l1, a1, a2, l2, cis] for every pair of marked ligands across a stereo bond"""
        out = []
        for a1, a2 in self.stereo:
            for l1 in self.adj[a1]:
                for l2 in self.adj[a2]:
                    if (l1, a1) in self.side and (l2, a2) in self.side and l1 != a2 and l2 != a1:
                        out.append([l1, a1, a2, l2, self.side[(l1, a1)] == self.side[(l2, a2)]])
        return out

    def dump(self):
        return {'atoms': list(self.el),
                'bonds': sorted([sorted(fs) + [o] for fs, o in self.order.items()]),
                'stereo': [list(x) for x in self.stereo],
                'side': sorted([[l, a, s] for (l, a), s in self.side.items()]),
                'chiral': sorted([[a, c] for a, c in self.chiral.items()]),
                'rel': self.relations()}


def load_mol(d):
    m = SMol()
    for e in d['atoms']:
        m.add(e)
    for a, b, o in d['bonds']:
        m.bond(a, b, o)
    m.stereo = [list(x) for x in d['stereo']]
    m.side = {(l, a): s for l, a, s in d['side']}
    m.chiral = {a: c for a, c in d['chiral']}
    return m


def _subst(rng, m, root_of):
    """attach a small substituent to atom `root_of`; returns its first atom"""
    kind = rng.choice(['hal', 'hal', 'hal', 'me', 'chx', 'och', 'cc', 'chir', 'keto', 'n', 'ring', 'ring'])
    if kind == 'ring':
        # saturated 5- or 6-ring, made asymmetric by a decoration next to the attachment atom
        n = rng.choice([5, 6])
        ring = [m.add('C') for _ in range(n)]
        for i in range(n):
            m.bond(ring[i], ring[(i + 1) % n])
        m.bond(root_of, ring[0])
        m.bond(ring[1], m.add(rng.choice(HAL + ['O', 'N'])))
        if rng.random() < 0.5:
            m.chiral[ring[1]] = rng.choice('RS')
        if rng.random() < 0.3:
            m.chiral[ring[0]] = rng.choice('RS')
        return ring[0]
    if kind == 'hal':
        a = m.add(rng.choice(HAL))
        m.bond(root_of, a)
    elif kind == 'me':
        a = m.add('C')
        m.bond(root_of, a)
    elif kind == 'chx':
        a = m.add('C')
        m.bond(root_of, a)
        m.bond(a, m.add(rng.choice(HAL)))
    elif kind == 'och':
        a = m.add('O')
        m.bond(root_of, a)
        if rng.random() < 0.7:
            c = m.add('C')
            m.bond(a, c)
            if rng.random() < 0.4:
                m.bond(c, m.add(rng.choice(HAL)))
    elif kind == 'cc':
        a = m.add('C')
        m.bond(root_of, a)
        b = m.add('C')
        m.bond(a, b)
        if rng.random() < 0.5:
            m.bond(b, m.add(rng.choice(HAL + ['O', 'N'])))
    elif kind == 'chir':
        a = m.add('C')
        m.bond(root_of, a)
        x, y = rng.sample(HAL + ['C', 'O'], 2)
        m.bond(a, m.add(x))
        if rng.random() < 0.7:
            m.bond(a, m.add(y))
        m.chiral[a] = rng.choice('RS')
    elif kind == 'keto':
        a = m.add('C')
        m.bond(root_of, a)
        c = m.add('C')
        m.bond(a, c)
        m.bond(c, m.add('O'), 2)
        if rng.random() < 0.6:
            m.bond(c, m.add(rng.choice(['C', 'O', 'N'])))
    else:
        a = m.add('N')
        m.bond(root_of, a)
        if rng.random() < 0.5:
            m.bond(a, m.add('C'))
    return a


def rand_stereo_mol(rng, ndb=None):
    """None when the draw is not usable (symmetric molecule)"""
    m = SMol()
    if ndb is None:
        ndb = rng.choice([0, 1, 1, 1, 2, 2, 2, 3])
    if ndb == 0:
        # chain with labelled stereocentres only
        prev = m.add(rng.choice(HAL))
        for _ in range(rng.randint(1, 3)):
            c = m.add('C')
            m.bond(prev, c)
            for _ in range(rng.randint(0, 2)):
                _subst(rng, m, c)
            if rng.random() < 0.8 or not m.chiral:
                m.chiral[c] = rng.choice('RS')
            prev = c
        for c in list(m.chiral):
            if len(m.adj[c]) > 4:
                return None
    prev = None
    for i in range(ndb):
        a1, a2 = m.add('C'), m.add('C')
        m.bond(a1, a2, 2)
        m.stereo.append([a1, a2])
        if prev is not None:
            m.bond(prev, a1)
        want1 = rng.choice([1, 2])
        while len(m.adj[a1]) - 1 < want1:
            _subst(rng, m, a1)
        want2 = rng.choice([1, 2])
        prev = None
        if i < ndb - 1:
            kind = rng.choice(['conj', 'sp1', 'sp1', 'sp2'])
            if kind == 'conj':
                prev = a2
                nxt = 1
            else:
                s1 = m.add('C')
                m.bond(a2, s1)
                if rng.random() < 0.4:
                    m.bond(s1, m.add(rng.choice(HAL + ['C'])))
                    m.chiral[s1] = rng.choice('RS')
                prev = s1
                if kind == 'sp2':
                    s2 = m.add('C')
                    m.bond(s1, s2)
                    prev = s2
                nxt = 0
            while len(m.adj[a2]) - 1 + nxt < want2:
                _subst(rng, m, a2)
        else:
            while len(m.adj[a2]) - 1 < want2:
                _subst(rng, m, a2)
    # explicitly written hydrogens ([H]/C(F)=C/Cl, the imine [H]/N=C…) and imine nitrogens: only where the
    # hydrogen is the ONLY hydrogen of its anchor, so that it can be recognised in the returned molecule
    for a1, a2 in m.stereo:
        for A, B in ((a1, a2), (a2, a1)):
            ligs = [n for n in m.adj[A] if n != B]
            if len(ligs) != 1 or m.el[A] != 'C':
                continue
            r = rng.random()
            if r < 0.25:
                m.bond(A, m.add('H'))
            elif r < 0.33 and len(m.adj[ligs[0]]) == 1 and m.el[ligs[0]] in HAL:
                m.el[ligs[0]] = 'H'
                m.el[A] = 'N'
            elif r < 0.40:
                m.el[A] = 'N'
    # sides and marks
    anchors = {a for sb in m.stereo for a in sb}
    partner = {}
    for a1, a2 in m.stereo:
        partner[a1] = a2
        partner[a2] = a1
    side = {}
    for a1, a2 in m.stereo:
        for A in (a1, a2):
            ligs = [n for n in m.adj[A] if n != partner[A]]
            preset = [l for l in ligs if (l, A) in side]
            if not preset:
                side[(ligs[0], A)] = rng.choice('ud')
                preset = [ligs[0]]
            for l in ligs:
                if (l, A) not in side:
                    side[(l, A)] = FLIP[side[(preset[0], A)]]
            for l in ligs:
                if l in anchors:           # conjugated link: one bond, seen from both ends
                    side[(A, l)] = FLIP[side[(l, A)]]
    marked = set()
    for a1, a2 in m.stereo:
        for A in (a1, a2):
            ligs = [n for n in m.adj[A] if n != partner[A]]
            for l in ligs:
                if l in anchors:
                    marked.add((l, A))
                    marked.add((A, l))
            if not any((l, A) in marked for l in ligs):
                hl = [l for l in ligs if m.el[l] == 'H']
                marked.add(((hl[0] if hl and rng.random() < 0.7 else rng.choice(ligs)), A))
            for l in ligs:
                if (l, A) not in marked and rng.random() < 0.35:
                    marked.add((l, A))
    m.side = {k: v for k, v in side.items() if k in marked}
    # every atom must be recognisable: exactly one automorphism
    g = m.graph()
    g = g.subgraph([n for n in g if m.el[n] != 'H'])
    gm = nx.isomorphism.GraphMatcher(g, g, node_match=lambda x, y: x['element'] == y['element'],
                                     edge_match=lambda x, y: x['order'] == y['order'])
    n_auto = 0
    for _ in gm.isomorphisms_iter():
        n_auto += 1
        if n_auto > 1:
            return None
    if len(m.el) > 26:
        return None
    return m


# ------------------------------------------------------------------------------ rendering
def first_token(m, first, second):
    """token written on the bond first..second when `first` is written before `second`, or None"""
    if (second, first) in m.side:          # second is a ligand of the anchor `first`
        return '/' if m.side[(second, first)] == 'u' else '\\'
    if (first, second) in m.side:          # first is a ligand of the anchor `second`
        return '\\' if m.side[(first, second)] == 'u' else '/'
    return None


def atom_text(m, a, rng, plain):
    e = m.el[a]
    if e == 'H':
        # an explicitly written hydrogen: plain bracket atom, or annotated (weight)
        return '[H]' if plain or rng.random() < 0.7 else '[H;w=0.5]'
    if a in m.chiral and not plain:
        h = 4 - sum(m.bo(a, b) for b in m.adj[a]) if e == 'C' else 0
        hs = ('H' if h == 1 else 'H%d' % h) if (h > 0 and rng.random() < 0.6) else ''
        return '[%s%s;x=%s]' % (e, hs, m.chiral[a])
    return e


def render_part(m, part, rng, desc, plain=False, start=None, lead_cut=None, trail_cut=None):
    """SMILES of the sub-molecule `part` (rings allowed) with bonding descriptors.
    desc: {atom: [(name, order)]} ordinary descriptors.
    lead_cut: (atom, name, token) - a CUT MARKED bond whose other end is written first: `[name]/atom…`
              (the atom must be the start atom); trail_cut: {atom: [(name, token)]} - the other end is written
              later: `atom(…)/[name]` after all (parenthesised) branches of the atom.
    Returns (text, written order, events) where events, in text order, are what the slash marks do to the
    per-atom token store: ('mark', prev_atom, index_of_next_atom, token)."""
    pset = set(part)
    trail_cut = trail_cut or {}
    if lead_cut is not None:
        start = lead_cut[0]
    start = rng.choice(sorted(part)) if start is None else start
    style = rng.choice(['early', 'early', 'late', 'lead'])
    ring_style = rng.choice(['digit', 'pct', 'pct'])
    # pass 1: DFS tree, written order, ring bonds
    order, children, rings = [], {}, []
    seen = set()

    def dfs(a, parent):
        seen.add(a)
        order.append(a)
        children[a] = []
        nb = [x for x in m.adj[a] if x in pset and x != parent]
        rng.shuffle(nb)
        for x in nb:
            if x in seen:
                if (x, a) not in rings and (a, x) not in rings:
                    rings.append((x, a))       # opened at x (earlier), closed at a
                continue
            children[a].append(x)
            dfs(x, a)
    dfs(start, None)
    pos = {a: i for i, a in enumerate(order)}
    free = list(range(1, 10)) if ring_style == 'digit' else list(range(10, 40))
    if ring_style == 'pct':
        rng.shuffle(free)
    label = {}
    digits = {a: '' for a in order}
    for a in order:
        for rb in rings:
            if rb[1] == a:
                mk = label.pop(rb)
                digits[a] += (str(mk) if mk < 10 else '%%%d' % mk)
                free.append(mk)
        for rb in rings:
            if rb[0] == a:
                mk = free.pop(0)
                label[rb] = mk
                digits[a] += (str(mk) if mk < 10 else '%%%d' % mk)
    events = []
    count = [0]

    def dtext(a, leading=False):
        out = ''
        for name, o in desc.get(a, []):
            sym = '=' if o == 2 else ''
            out += ('[%s]%s' % (name, sym)) if leading else ('%s[%s]' % (sym, name))
        return out

    def emit(a, first=False):
        t = ''
        d = dtext(a)
        ch = children[a]
        late = False
        if first and lead_cut is not None:
            # [$x]/A : the mark is read before any atom: prev_node = node_count = 0
            t += '[%s]%s' % (lead_cut[1], lead_cut[2])
            events.append(('mark', a, 0, lead_cut[2]))
            if d and style == 'lead':
                t = dtext(a, leading=True) + t
                d = ''
        elif d and first and style == 'lead':
            t += dtext(a, leading=True)
            d = ''
        elif d and style == 'late' and ch:
            late = True
        t += atom_text(m, a, rng, plain) + digits[a]
        count[0] += 1
        if not late:
            t += d
        paren_all = late or bool(trail_cut.get(a)) or (ch and rng.random() < 0.15)
        for k, c in enumerate(ch):
            tok = first_token(m, a, c)
            if tok is not None:
                sym = tok
                events.append(('mark', a, count[0], tok))      # the child is the next atom read
            else:
                sym = '=' if m.bo(a, c) == 2 else ''
            body = sym + emit(c)
            if k < len(ch) - 1 or paren_all:
                t += '(' + body + ')'
            else:
                t += body
        if late:
            t += d
        for name, tok in trail_cut.get(a, []):
            # A(...)/[$x] : prev_node = A, node_count = the NEXT atom of the text (if any)
            t += '%s[%s]' % (tok, name)
            events.append(('mark', a, count[0], tok))
        return t
    text = emit(start, True)
    return text, order, events


def stored_tokens(order, events):
    """what strip_bonding_descriptors / pysmiles' parser keep: one token per ATOM (`ez[node_count] = token;
    ez[prev_node] = token`), the last mark wins; a node_count beyond the fragment is dropped"""
    tok = {}
    for _, prev, nxt, t in events:
        if nxt < len(order):
            tok[order[nxt]] = t
        tok[prev] = t
    return tok


def unambiguous(m, wb, tok):
    """wb: (ligand, anchor) -> ligand written before anchor (for every marked pair); tok: stored token per
    atom.  True iff, for every stereo double bond, both anchors are tagged, the tagged neighbours of each
    anchor are exactly its marked ligands and each carries the token of ITS bond to that anchor (the
    per-atom storage loses nothing)."""
    for a1, a2 in m.stereo:
        if a1 not in tok or a2 not in tok:
            return False
        for A, B in ((a1, a2), (a2, a1)):
            for n in m.adj[A]:
                if n == B:
                    continue
                if (n, A) in m.side:
                    if n not in tok:
                        return False
                    up = m.side[(n, A)] == 'u'
                    want = ('\\' if up else '/') if wb[(n, A)] else ('/' if up else '\\')
                    if tok[n] != want:
                        return False
                elif n in tok:
                    return False
    # no atom is tagged that is not an end of a marked bond (a mark written before a descriptor tags the
    # NEXT atom of the text, whatever it is)
    intended = {x for k in m.side for x in k}
    if not set(tok) <= intended:
        return False
    # an order-2 bond with exactly one tagged end is a "dangling token" for pysmiles
    for fs, o in m.order.items():
        a, b = tuple(fs)
        if o == 2 and ((a in tok) != (b in tok)):
            return False
    return True


NAMES = 'ABCDEFGH'
LABS = 'abcdefghk'


BASE_SYM = {1: '', 2: '=', 3: '#'}


def base_string(perm, edges, names, mult=None):
    """base graph listing the parts in the order `perm`; edges: set of frozenset({p, q}).
    consecutive parts that are bonded are written next to each other, other consecutive parts are
    separated by '.', the remaining bonds are ring bonds.  mult: {edge: number of cut bonds between the two parts}
    (two ring bonds cut: the base edge has order 2, written `[#A]=[#B]`); None when such an edge would have to be
    written as a ring bond"""
    mult = mult or {}
    where = {p: i for i, p in enumerate(perm)}
    direct = set()
    for i in range(1, len(perm)):
        if frozenset((perm[i - 1], perm[i])) in edges:
            direct.add(frozenset((perm[i - 1], perm[i])))
    rings = sorted([tuple(sorted(e, key=lambda p: where[p])) for e in edges if e not in direct],
                   key=lambda e: (where[e[0]], where[e[1]]))
    marker = {}
    free = list(range(1, 10))
    out = ''
    if any(mult.get(frozenset(e), 1) != 1 for e in rings):
        return None
    for i, p in enumerate(perm):
        if i > 0 and frozenset((perm[i - 1], p)) not in direct:
            out += '.'
        elif i > 0:
            out += BASE_SYM[mult.get(frozenset((perm[i - 1], p)), 1)]
        out += '[#%s]' % names[p]
        for e in rings:
            if e[1] == p:
                mk = marker.pop(e)
                out += str(mk)
                free.append(mk)
                free.sort()
        for e in rings:
            if e[0] == p:
                mk = free.pop(0)
                marker[e] = mk
                out += str(mk)
    return '{' + out + '}'


def components(m, cut):
    g = m.graph()
    for a, b in cut:
        g.remove_edge(a, b)
    return [sorted(c) for c in nx.connected_components(g)]


def make_variant(m, rng, cut, perm=None, kind='', check=True):
    """cut: list of bonds (a, b) to cut; a MARKED bond ligand-anchor may be cut too: its mark is then written
    at both ends (`F/[$a]` … `[$a]/C(Cl)=…`), the only way to keep the mark next to an atom in each of the
    two fragments.  Returns the case dict or None (ambiguous rendering / not expressible)."""
    parts = components(m, cut)
    rng.shuffle(parts)
    owner = {a: i for i, p in enumerate(parts) for a in p}
    desc, lead, trail = {}, {}, {}
    wb = {}
    cutoff = set()
    for (a, b), lab in zip(cut, rng.sample(LABS, len(cut))):
        o = m.bo(a, b)
        if m.marked(a, b):
            first, second = (a, b) if rng.random() < 0.5 else (b, a)
            # a single-atom fragment can take either role; otherwise `second` must start its fragment
            tok = first_token(m, first, second)
            if owner[second] in lead:
                first, second = second, first
                tok = first_token(m, first, second)
                if owner[second] in lead:
                    return None
            lead[owner[second]] = (second, '$' + lab, tok)
            trail.setdefault(first, []).append(('$' + lab, tok))
            for l, an in ((a, b), (b, a)):
                if (l, an) in m.side:
                    wb[(l, an)] = (l == first)
                    cutoff.add((l, an))
        else:
            desc.setdefault(a, []).append(('$' + lab, o))
            desc.setdefault(b, []).append(('$' + lab, o))
    texts, orders, toks, simtok = [], [], {}, []
    for i, p in enumerate(parts):
        t, ol, events = render_part(m, p, rng, desc, lead_cut=lead.get(i),
                                    trail_cut={x: v for x, v in trail.items() if x in p})
        texts.append(t)
        orders.append(ol)
        st = stored_tokens(ol, events)
        toks.update(st)
        # the generator's simulation of the per-atom token store, by text position (checked against the strip model)
        simtok.append(sorted([ol.index(a), tk] for a, tk in st.items()))
    pos = {a: (owner[a], orders[owner[a]].index(a)) for a in owner}
    for (l, an) in m.side:
        if (l, an) not in wb:
            wb[(l, an)] = pos[l] < pos[an]
    amb = not unambiguous(m, wb, toks)
    if amb and check:
        return None
    edges = {frozenset((owner[a], owner[b])) for a, b in cut}
    mult = {}
    for a, b in cut:
        e = frozenset((owner[a], owner[b]))
        mult[e] = mult.get(e, 0) + 1
    if any(len(e) != 2 or k > 3 for e, k in mult.items()):
        return None
    names = {i: NAMES[i] for i in range(len(parts))}
    perm = list(range(len(parts))) if perm is None else perm
    base = base_string(perm, edges, names, mult)
    if base is None:
        return None
    defs = ['#%s=%s' % (names[i], texts[i]) for i in range(len(parts))]
    rng.shuffle(defs)
    return {'s': base + '.{' + ','.join(defs) + '}', 'mol': m.dump(), 'kind': kind, 'nparts': len(parts),
            'texts': texts, 'perm': perm, 'ambiguous': amb, 'simtok': {NAMES[i]: simtok[i] for i in range(len(parts))},
            'wb': sorted([[l, an, bool(v), (l, an) in cutoff] for (l, an), v in wb.items()])}


def variants_of(m, rng, budget):
    """list of cases for one molecule"""
    out = []
    bonds = [tuple(sorted(fs)) for fs in m.order]
    bridges = {tuple(sorted(e)) for e in nx.bridges(m.graph())}
    cuttable = [b for b in bonds if not m.marked(*b) and b in bridges]
    stereo = [tuple(sorted(sb)) for sb in m.stereo]

    def add(cut, kind, all_perms, tries=3):
        for _ in range(tries):
            v = make_variant(m, rng, cut, kind=kind)
            if v is None:
                STATS['ambiguous'] += 1
                continue
            parts = components(m, cut)
            k = len(parts)
            if k == 1:
                out.append(v)
                return
            # the same fragment texts under every listing order of the base graph
            perms = list(itertools.permutations(range(k)))
            if not all_perms and len(perms) > 6:
                perms = rng.sample(perms, 6)
            for pm in perms:
                r = reorder(v, pm)
                if r is not None:
                    out.append(r)
            return

    # single fragment: several start atoms / branch orders
    for _ in range(3):
        add([], 'single', True)
    # cut at each stereo double bond
    for sb in stereo:
        for _ in range(2):
            add([sb], 'cut-at-double-bond', True)
    # one cut elsewhere
    others = [b for b in cuttable if b not in stereo]
    rng.shuffle(others)
    for b in others[:5]:
        add([b], 'cut-elsewhere', True)
    # a marked substituent cut off at its bond to the anchor (the mark written at both ends);
    # one-heavy-atom substituents (F, Br, CH3, OH ...) first
    anchors = {a for sb in m.stereo for a in sb}
    mb = sorted({tuple(sorted(k)) for k in m.side if not (k[0] in anchors and k[1] in anchors)})
    mb.sort(key=lambda b: (min(len(c) for c in components(m, [b])), rng.random()))
    for b in mb[:4]:
        add([b], 'cut-marked-substituent', True, tries=4)
    # RING LINK bonds: a ring atom cut out of its ring at both ring bonds (two cut bonds between the same two fragments,
    # base edge of order 2), first the ring atoms NEXT TO a stereo double bond (ligands of an anchor), then any other;
    # alone and together with one cut elsewhere
    g0 = m.graph()
    ringb = [b for b in bonds if b not in bridges and not m.marked(*b) and b not in stereo]
    ratoms = sorted({a for b in ringb for a in b})
    def ring_cut(r):
        bs = [b for b in ringb if r in b]
        if len(bs) != 2 or len([n for n in g0[r] if tuple(sorted((r, n))) not in bridges]) != 2:
            return None
        return bs if len(components(m, bs)) == 2 else None
    near = [r for r in ratoms if any(n in anchors for n in g0[r])]
    far = [r for r in ratoms if r not in near]
    rng.shuffle(far)
    for r in near[:3] + far[:2]:
        rc = ring_cut(r)
        if rc is None:
            continue
        add(rc, 'cut-ring-links' + ('-next-to-stereo' if r in near else ''), True)
        extra = [b for b in cuttable if b not in rc]
        if extra and rng.random() < 0.6:
            add(rc + [rng.choice(extra)], 'cut-ring-links+elsewhere', True)
    # several cuts (<= 4 fragments: every order)
    pool = cuttable + mb
    for _ in range(3):
        if len(pool) >= 2:
            k = rng.randint(2, min(3, len(pool)))
            cut = rng.sample(pool, k)
            kind = ('multi-cut' + ('+double-bond' if any(c in stereo for c in cut) else '')
                    + ('+marked' if any(c in mb for c in cut) else ''))
            add(cut, kind, rng.random() < 0.5)
    rng.shuffle(out)
    return out[:budget]


def reorder(v, perm):
    """variant v with the base graph listing its fragments in the order perm"""
    c = dict(v)
    # part adjacency: two fragments are bonded iff they share a descriptor label
    import re
    labs = [set(re.findall(r'\[\$([a-z])\]', t)) for t in v['texts']]
    edges = {frozenset((i, j)) for i in range(len(labs)) for j in range(i + 1, len(labs)) if labs[i] & labs[j]}
    mult = {frozenset((i, j)): len(labs[i] & labs[j]) for i in range(len(labs)) for j in range(i + 1, len(labs)) if labs[i] & labs[j]}
    frs = v['s'].split('.{', 1)[1]
    c['perm'] = list(perm)
    base = base_string(list(perm), edges, {i: NAMES[i] for i in range(len(labs))}, mult)
    if base is None:
        return None
    c['s'] = base + '.{' + frs
    return c


def repeated_end_cases(rng, tries=12):
    """Variants whose base graph names ONE fragment twice with a different fragment in between:
    E-HC=C(L1)-spacer-C(L2)=CH-E with both double bonds stereo and both cut AT the double bond; the two identical end
    groups =CH-E are one fragment definition.  Every listing order of the three (four, with a cut in the spacer) base
    nodes.  Judged against the ground truth (sides) like every other variant."""
    out = []
    for _ in range(tries):
        m = SMol()
        e = rng.choice(HAL)
        l1, l2 = rng.sample([x for x in HAL + ['C', 'O'] if x != e], 2)
        a1, b1 = m.add('C'), m.add('C')
        m.bond(a1, b1, 2)
        e1 = m.add(e)
        m.bond(a1, e1)
        m.bond(b1, m.add(l1))
        sp = [m.add('C')]
        m.bond(b1, sp[0])
        if rng.random() < 0.6:
            sp.append(m.add('C'))
            m.bond(sp[0], sp[1])
        if rng.random() < 0.3:
            m.bond(sp[0], m.add(rng.choice(HAL)))
            m.chiral[sp[0]] = rng.choice('RS')
        b2, a2 = m.add('C'), m.add('C')
        m.bond(sp[-1], b2)
        m.bond(b2, a2, 2)
        m.bond(b2, m.add(l2))
        e2 = m.add(e)
        m.bond(a2, e2)
        m.stereo = [[a1, b1], [b2, a2]]
        send = rng.choice('ud')
        m.side = {(e1, a1): send, (e2, a2): send}
        for b, other in ((b1, a1), (b2, a2)):
            ligs = [n for n in m.adj[b] if n != other]
            s0 = rng.choice('ud')
            pick = rng.choice([[ligs[0]], [ligs[1]], ligs])
            for l in pick:
                m.side[(l, b)] = s0 if l == ligs[0] else FLIP[s0]
        g = m.graph()
        gm = nx.isomorphism.GraphMatcher(g, g, node_match=lambda x, y: x['element'] == y['element'],
                                         edge_match=lambda x, y: x['order'] == y['order'])
        if sum(1 for _ in gm.isomorphisms_iter()) != 1:
            continue
        # parts: 0 = first end, then the middle (one or two parts), last = second end
        cut = [(a1, b1), (b2, a2)]
        mid_cut = False     # a cut in the spacer would leave two compatible `$a` descriptors across the P-Q base edge
        desc = {a1: [('$a', 2)], b1: [('$a', 2)], b2: [('$a', 2)], a2: [('$a', 2)]}
        if mid_cut:
            desc.setdefault(sp[0], []).append(('$m', 1))
            desc.setdefault(sp[1], []).append(('$m', 1))
            cut.append((sp[0], sp[1]))
        comps = components(m, cut)
        end1 = next(c for c in comps if a1 in c)
        end2 = next(c for c in comps if a2 in c)
        mids = [c for c in comps if a1 not in c and a2 not in c]
        mids.sort(key=lambda c: b1 not in c)
        parts = [end1] + mids + [end2]
        names = ['X'] + (['Y'] if len(mids) == 1 else ['P', 'Q']) + ['X']
        texts, orders, toks, simtok = [], [], {}, {}
        tX, oX, evX = render_part(m, end1, rng, desc)
        twin = {a1: a2, e1: e2}
        stX = stored_tokens(oX, evX)
        for p, nm in zip(parts, names):
            if p is end1:
                t, ol, st = tX, oX, stX
            elif p is end2:
                t, ol, st = tX, [twin[x] for x in oX], {twin[x]: tk for x, tk in stX.items()}
            else:
                t, ol, ev = render_part(m, p, rng, desc)
                st = stored_tokens(ol, ev)
            texts.append(t)
            orders.append(ol)
            toks.update(st)
            simtok[nm] = sorted([ol.index(x), tk] for x, tk in st.items())
        owner = {x: i for i, p in enumerate(parts) for x in p}
        pos = {x: (owner[x], orders[owner[x]].index(x)) for x in owner}
        wb = {(l, an): pos[l] < pos[an] for (l, an) in m.side}
        if not unambiguous(m, wb, toks):
            STATS['ambiguous'] += 1
            continue
        edges = {frozenset((owner[x], owner[y])) for x, y in cut}
        defs = []
        for nm, t in zip(names, texts):
            if '#%s=%s' % (nm, t) not in defs:
                defs.append('#%s=%s' % (nm, t))
        rng.shuffle(defs)
        block = '.{' + ','.join(defs) + '}'
        k = len(parts)
        seen = set()
        for pm in itertools.permutations(range(k)):
            base = base_string(list(pm), edges, {i: names[i] for i in range(k)})
            if base in seen:
                continue
            seen.add(base)
            out.append({'s': base + block, 'mol': m.dump(), 'kind': 'repeated-fragment-name', 'nparts': k, 'texts': texts,
                        'perm': list(pm), 'ambiguous': False, 'simtok': simtok,
                        'wb': sorted([[l, an, bool(v), False] for (l, an), v in wb.items()])})
        if len(out) >= 18:
            break
    return out


def aryl_cases(rng):
    """An aryl thioether written BEFORE the stereo part of the same fragment text: the upper-case S directly before
    the aromatic c (`CSc1ccc(cc1)…`; `Sc` is also an element symbol) followed by a labelled stereocentre and a marked
    double bond, in several cuts and base orders.  Hand-written texts (the random renderer does not write aromatic
    atoms).  The benzene ring has a mirror automorphism; every judged atom is a fixed point of it."""
    x1, x2, x3 = rng.sample(HAL, 3)
    lab = rng.choice('RS')
    t1, t2 = rng.choice('/\\'), rng.choice('/\\')
    para = rng.random() < 0.6
    m = SMol()
    me, su = m.add('C'), m.add('S')
    m.bond(me, su)
    ring = [m.add('C') for _ in range(6)]
    for i in range(6):
        m.bond(ring[i], ring[(i + 1) % 6], 1.5)
    m.bond(su, ring[0])
    att = ring[3] if para else ring[4]
    cst = m.add('C')
    m.bond(att, cst)
    f1, f2 = m.add(x1), m.add(x2)
    m.bond(cst, f1)
    m.bond(cst, f2)
    d1, d2 = m.add('C'), m.add('C')
    m.bond(cst, d1)
    m.bond(d1, d2, 2)
    br = m.add(x3)
    m.bond(d2, br)
    m.chiral[cst] = lab
    m.stereo = [[d1, d2]]
    # C*<t1>C : the ligand C* is written BEFORE its anchor; C<t2>X : the ligand is written after
    m.side = {(cst, d1): ('d' if t1 == '/' else 'u'), (br, d2): ('u' if t2 == '/' else 'd')}
    arom = ring
    rg = 'c1ccc(cc1)' if para else 'c1cccc(c1)'
    hs = 'H0' if False else ''
    star = '[C%s;x=%s]' % (hs, lab)
    tail = '%s(%s)(%s)%sC=C%s%s' % (star, x1, x2, t1, t2, x3)
    wb = [[cst, d1, True, False], [br, d2, False, False]]
    strings = [
        ('single', '{[#M]}.{#M=CS%s%s}' % (rg, tail)),
        ('cut S|ring', '{[#A][#B]}.{#A=CS[$],#B=[$]%s%s}' % (rg, tail)),
        ('cut S|ring, reversed', '{[#B][#A]}.{#A=CS[$],#B=[$]%s%s}' % (rg, tail)),
        ('cut methyl|S', '{[#A][#B]}.{#A=C[$],#B=[$]S%s%s}' % (rg, tail)),
        ('cut ring|centre', '{[#A][#B]}.{#A=CS%s[$],#B=[$]%s}' % (rg, tail)),
        ('cut ring|centre, reversed', '{[#B][#A]}.{#A=CS%s[$],#B=[$]%s}' % (rg, tail)),
        ('cut at double bond', '{[#A][#B]}.{#A=CS%s%s(%s)(%s)%sC=[$],#B=[$]=C%s%s}' % (rg, star, x1, x2, t1, t2, x3)),
        ('cut at double bond, reversed', '{[#B][#A]}.{#A=CS%s%s(%s)(%s)%sC=[$],#B=[$]=C%s%s}' % (rg, star, x1, x2, t1, t2, x3)),
        ('substituent cut off', '{[#A][#B]}.{#A=CS%s%s([$])(%s)%sC=C%s%s,#B=[$]%s}' % (rg, star, x2, t1, t2, x3, x1)),
        ('cut in three', '{[#A][#B][#C]}.{#A=CS[$a],#B=[$a]%s[$b],#C=[$b]%s}' % (rg, tail)),
        ('cut in three, middle first', '{[#B]([#A])[#C]}.{#A=CS[$a],#B=[$a]%s[$b],#C=[$b]%s}' % (rg, tail)),
    ]
    mol = m.dump()
    return [{'s': st, 'mol': mol, 'kind': 'aryl-thioether:' + k, 'nparts': st.split('.{')[0].count('#'),
             'wb': wb, 'aromatic': True} for k, st in strings]


def styrene_cases(rng):
    """AROMATIC molecules with the stereo double bond in a side chain, the aromatic ring atom itself the marked ligand
    (`Fc1ccc(cc1)/C(Cl)=C/Br`: ligand written before its anchor, the mark after a closed branch; `Br/C(Cl)=C/c1ccc(F)cc1`:
    ligand written after), single, cut at the double bond, cut at the ring's other substituent, both base orders.
    Hand-written texts.  The para-substituted ring has a mirror automorphism; every judged atom is a fixed point."""
    out = []
    for before in (True, False):
        x1, x2, x3 = rng.sample(HAL, 3)
        t1, t2 = rng.choice('/\\'), rng.choice('/\\')
        m = SMol()
        if before:
            h = m.add(x1)
            ring = [m.add('C') for _ in range(6)]
            att = ring[3]
            d1, d2 = m.add('C'), m.add('C')
            y, z = m.add(x2), m.add(x3)
            m.bond(h, ring[0]); m.bond(att, d1); m.bond(d1, y); m.bond(d1, d2, 2); m.bond(d2, z)
            m.side = {(att, d1): ('d' if t1 == '/' else 'u'), (z, d2): ('u' if t2 == '/' else 'd')}
            wb = [[att, d1, True, False], [z, d2, False, False]]
            head, tail = '%sC(%s)=' % (t1, x2), 'C%s%s' % (t2, x3)
            strings = [
                ('single', '{[#M]}.{#M=%sc1ccc(cc1)%s%s}' % (x1, head, tail)),
                ('cut at double bond', '{[#A][#B]}.{#A=%sc1ccc(cc1)%s[$],#B=[$]=%s}' % (x1, head, tail)),
                ('cut at double bond, reversed', '{[#B][#A]}.{#A=%sc1ccc(cc1)%s[$],#B=[$]=%s}' % (x1, head, tail)),
                ('cut halogen|ring', '{[#A][#B]}.{#A=%s[$],#B=[$]c1ccc(cc1)%s%s}' % (x1, head, tail)),
                ('cut halogen|ring, reversed', '{[#B][#A]}.{#A=%s[$],#B=[$]c1ccc(cc1)%s%s}' % (x1, head, tail)),
                ('cut in three', '{[#A][#B][#C]}.{#A=%s[$a],#B=[$a]c1ccc(cc1)%s[$b],#C=[$b]=%s}' % (x1, head, tail)),
                ('cut in three, last first', '{[#C][#B][#A]}.{#A=%s[$a],#B=[$a]c1ccc(cc1)%s[$b],#C=[$b]=%s}' % (x1, head, tail)),
            ]
        else:
            z = m.add(x3)
            d1, d2 = m.add('C'), m.add('C')
            y = m.add(x2)
            ring = [m.add('C') for _ in range(6)]
            att = ring[0]
            h = m.add(x1)
            m.bond(z, d1); m.bond(d1, y); m.bond(d1, d2, 2); m.bond(d2, att); m.bond(ring[3], h)
            m.side = {(z, d1): ('d' if t1 == '/' else 'u'), (att, d2): ('u' if t2 == '/' else 'd')}
            wb = [[z, d1, True, False], [att, d2, False, False]]
            head, tail = '%s%sC(%s)=' % (x3, t1, x2), 'C%sc1ccc(%s)cc1' % (t2, x1)
            strings = [
                ('single', '{[#M]}.{#M=%s%s}' % (head, tail)),
                ('cut at double bond', '{[#A][#B]}.{#A=%s[$],#B=[$]=%s}' % (head, tail)),
                ('cut at double bond, reversed', '{[#B][#A]}.{#A=%s[$],#B=[$]=%s}' % (head, tail)),
                ('cut ring|halogen', '{[#A][#B]}.{#A=%sC%sc1ccc([$])cc1,#B=[$]%s}' % (head, t2, x1)),
                ('cut ring|halogen, reversed', '{[#B][#A]}.{#A=%sC%sc1ccc([$])cc1,#B=[$]%s}' % (head, t2, x1)),
                ('cut in three', '{[#A][#B][#C]}.{#A=%s[$a],#B=[$a]=C%sc1ccc([$b])cc1,#C=[$b]%s}' % (head, t2, x1)),
                ('cut in three, middle first', '{[#B]([#A])[#C]}.{#A=%s[$a],#B=[$a]=C%sc1ccc([$b])cc1,#C=[$b]%s}' % (head, t2, x1)),
            ]
        for i in range(6):
            m.bond(ring[i], ring[(i + 1) % 6], 1.5)
        m.stereo = [[d1, d2]]
        mol = m.dump()
        out += [{'s': st, 'mol': mol, 'kind': 'styrene-%s:%s' % ('aryl-first' if before else 'aryl-last', k),
                 'nparts': st.split('.{')[0].count('#'), 'wb': wb, 'aromatic': True} for k, st in strings]
    return out


STATS = {'ambiguous': 0, 'pysmiles_disagrees': 0, 'asymmetric_retry': 0}


def pysmiles_reads(m, rng):
    """cross-check: some single-fragment rendering without annotations, read by pysmiles.read_smiles
    ALONE, gives the ground-truth relations (else the molecule is outside what pysmiles reads
    consistently and is not used)"""
    import pysmiles
    import logging
    logging.getLogger('pysmiles').setLevel(logging.CRITICAL)
    for _ in range(3):
        text, order, events = render_part(m, list(range(len(m.el))), rng, {}, plain=True)
        wb = {(l, an): order.index(l) < order.index(an) for (l, an) in m.side}
        if not unambiguous(m, wb, stored_tokens(order, events)):
            continue
        try:
            g = pysmiles.read_smiles(text, explicit_hydrogen=True)
        except Exception:
            return False
        got = set()
        for n, d in g.nodes(data=True):
            for l1, a1, a2, l2, c in d.get('ez_isomer', []):
                got.add((order[l1], order[a1], order[a2], order[l2], c == 'cis'))
        want = set()
        for l1, a1, a2, l2, c in m.relations():
            want.add((l1, a1, a2, l2, c))
            want.add((l2, a2, a1, l1, c))
        if got != want:
            return False
    return True


# ------------------------------------------------------------------------------ implementation driver
KEEP_NODE = ('element', 'fragid', 'chiral', 'ez_isomer_class', 'ez_isomer')
FRAG_KEYS = ('element', 'chiral', 'ez_isomer_class', 'bonding')


def graph_lit(g):
    h = nx.Graph()
    for n, d in g._node.items():
        h.add_node(n, **{k: v for k, v in d.items() if k in KEEP_NODE})
    # keep the adjacency insertion order
    recs = []
    for n, d in g._node.items():
        adj = lit.lst([lit.pair(lit.z(w), lit.attrs({k: v for k, v in ed.items() if k == 'order'}))
                       for w, ed in g._adj[n].items()])
        recs.append('{| nk := %s; na := %s; nadj := %s |}'
                    % (lit.z(n), lit.attrs({k: v for k, v in d.items() if k in KEEP_NODE}), adj))
    return lit.lst(recs)


def graph_json(g):
    return {'nodes': [[n, {k: v for k, v in d.items() if k in KEEP_NODE}] for n, d in g._node.items()],
            'adj': [[n, [[w, ed.get('order')] for w, ed in g._adj[n].items()]] for n in g._node]}


def in_class_py(before, wb=None, ident=None):
    """mirror of EzCheck.case_class_code on the recorded molecule.  For every pair (x, y) the annotation
    forms: kb = ligand key < anchor key, wb = ligand WRITTEN before its anchor (from the variant; equal to kb
    when both lie in one fragment).  pysmiles' table is right iff  not ((kb_x != wb_x) xor wb_y).
    Returns 0 (no pair breaks the table's assumptions), 14 (some pair does, all its ligands in their anchors'
    fragments: then simply  ligand_y < anchor_y) or 15 (a cut-off ligand is involved)."""
    nodes = dict((n, d) for n, d in before['nodes'])
    adj = dict((n, a) for n, a in before['adj'])
    ez = {n for n, d in nodes.items() if 'ez_isomer_class' in d}
    idm = dict((a, b) for a, b in (ident or []))
    wbm = {(l, an): (w, c) for l, an, w, c in (wb or [])}

    def look(l, a):
        return wbm.get((idm.get(l), idm.get(a)), (l < a, False))
    seen = set()
    code = 0
    for n in nodes:
        for w, o in adj[n]:
            if w in seen:
                continue
            if o == 2 or o == 2.0:
                a1, a2 = n, w
                first = [x for x, _ in adj[a1] if x not in (a1, a2) and x in ez]
                second = [x for x, _ in adj[a2] if x not in (a1, a2) and x in ez]
                for x in first:
                    for y in second:
                        wx, cx = look(x, a1)
                        wy, cy = look(y, a2)
                        if ((x < a1) != wx) != wy:
                            code = max(code, 15 if (cx or cy) else 14)
        seen.add(n)
    return code


def conflict_class_py(before, wb=None, ident=None):
    """mirror of EzCheck.conflict_class (without the model's own verdict): some anchor of an order-2 edge has
    exactly two tagged ligands of which exactly one has its key on the other side of the anchor than where
    it was written"""
    nodes = dict((n, d) for n, d in before['nodes'])
    adj = dict((n, a) for n, a in before['adj'])
    ez = {n for n, d in nodes.items() if 'ez_isomer_class' in d}
    idm = dict((a, b) for a, b in (ident or []))
    wbm = {(l, an): w for l, an, w, c in (wb or [])}
    seen = set()
    for n in nodes:
        for w, o in adj[n]:
            if w in seen:
                continue
            if o == 2 or o == 2.0:
                for a, other in ((n, w), (w, n)):
                    tg = [x for x, _ in adj[a] if x not in (a, other) and x in ez]
                    if len(tg) == 2:
                        fl = [((x < a) != wbm.get((idm.get(x), idm.get(a)), x < a)) for x in tg]
                        if fl[0] != fl[1]:
                            return True
        seen.add(n)
    return False


def damaged(v, rng):
    """one slash mark of a variant flipped or deleted: outside the domain, correspondence only"""
    base, frs = v['s'].split('.{', 1)
    idx = [i for i, c in enumerate(frs) if c in '/\\']
    if not idx:
        return None
    i = rng.choice(idx)
    if rng.random() < 0.5:
        frs = frs[:i] + ('\\' if frs[i] == '/' else '/') + frs[i + 1:]
    else:
        frs = frs[:i] + frs[i + 1:]
    d = dict(v)
    d['s'] = base + '.{' + frs
    d['kind'] = 'unjudged:damaged-mark'
    d.pop('simtok', None)
    d['judged'] = False
    return d


def raw_graph_case(rng):
    """a random small graph with random marks handed to annotate_ez_isomers_cgsmiles directly: validates
    the model of the third-party pysmiles code on all its branches (dangling token, conflicts, three
    tagged neighbours, bad token, float order, existing 'ez_isomer' list)"""
    n = rng.randint(3, 8)
    keys = rng.sample(range(0, 14), n)
    mode = rng.random()
    nodes = []
    for k in keys:
        d = {'element': rng.choice(['C', 'C', 'F', 'S', 'P'])}
        if mode < 0.45 or rng.random() < 0.55:
            d['ez_isomer_class'] = rng.choice(['/', '\\']) if rng.random() > 0.02 else rng.choice(['x', ''])
        if rng.random() < 0.05:
            d['ez_isomer'] = [(9, 9, 9, 9, 'cis')]
        if rng.random() < 0.2:
            d['chiral'] = rng.choice('RS')
        nodes.append([k, d])
    edges = []
    seen = set()
    for i in range(1, n):
        j = rng.randrange(i)
        edges.append([keys[i], keys[j], None])
        seen.add(frozenset((keys[i], keys[j])))
    for _ in range(rng.randint(0, 3)):
        a, b = rng.sample(keys, 2)
        if frozenset((a, b)) not in seen:
            seen.add(frozenset((a, b)))
            edges.append([a, b, None])
    rng.shuffle(edges)
    for e in edges:
        e[2] = rng.choice([1, 1, 1, 2, 2, 2, 2.0, 1.5, 3])
        if rng.random() < 0.5:
            e[0], e[1] = e[1], e[0]
    return {'raw': {'nodes': nodes, 'edges': edges}, 'kind': 'unjudged:raw-graph', 'judged': False,
            's': 'raw graph', 'mol': {'atoms': [], 'bonds': [], 'stereo': [], 'side': [], 'chiral': [], 'rel': []}}


def identify(g, mol):
    """returned key -> atom id of the written molecule: element / bond order preserving isomorphism of the
    heavy-atom graphs (unique by construction of the generator); an explicitly written hydrogen of the
    molecule is the ONLY hydrogen on its neighbour (by construction), so it is recognised too.
    None when there is no such identification."""
    want = nx.Graph()
    for k, e in enumerate(mol['atoms']):
        if e != 'H':
            want.add_node(k, element=e)
    for a, b, o in mol['bonds']:
        if a in want and b in want:
            want.add_edge(a, b, order=o)
    heavy = g.subgraph([n for n, d in g.nodes(data=True) if d.get('element') != 'H'])
    if len(heavy) != len(want):
        return None
    gm = nx.isomorphism.GraphMatcher(heavy, want, node_match=lambda x, y: x.get('element') == y['element'],
                                     edge_match=lambda x, y: x.get('order') == y['order'])
    iso = next(gm.isomorphisms_iter(), None)
    if iso is None:
        return None
    iso = dict(iso)
    inv = {v: k for k, v in iso.items()}
    for a, b, o in mol['bonds']:
        for h, x in ((a, b), (b, a)):
            if mol['atoms'][h] == 'H':
                hs = [n for n in g[inv[x]] if g.nodes[n].get('element') == 'H']
                if len(hs) != 1:
                    return None
                iso[hs[0]] = h
    return sorted(iso.items())


class C15(common.Prop):
    id = 'C15'
    level = 'proof'
    technique = ('Coq proofs about a model of annotate_ez_isomers_cgsmiles + pysmiles _annotate_ez_isomers '
                 '(validated against the installed library inside real resolve_all() runs) + generated metamorphic '
                 'search over molecule x cut placement x base-graph order x SMILES rendering with the clauses '
                 'evaluated in Coq on the returned molecule')
    vo_deps = ['theories/Stereo/EzCheck.vo']
    prop_file = 'theories/Properties/C15.v'
    case_requires = ('From Coq Require Import String.\nFrom Coq Require Import List Ascii ZArith Bool.\n'
                     'From CGV Require Import Base.PyBase Base.PyVal Base.NxGraph Stereo.EzImpl Stereo.EzDefs Stereo.EzCheck.')
    quick_cases = 440
    thorough_cases = 6000
    extended_cases = 2500
    shard = 30
    fail_text = {1: 'the returned heavy-atom graph is not the written molecule (atoms cannot be recognised)',
                 2: "a tuple stored in 'ez_isomer' is not a path ligand-anchor=anchor-ligand of the returned molecule",
                 3: "a 'chiral' label is missing, extra or sits on another atom than the one it was written on",
                 4: 'the cis/trans class of a substituent pair differs from the other variants of the same molecule',
                 5: 'a cis/trans relation is missing or an unexpected one is stored',
                 14: 'the cis/trans class of a substituent pair differs from the other variants (inside the class '
                     'second_anchor_ligand_lower: a ligand of the second-enumerated anchor has the smaller key)',
                 15: 'the cis/trans class of a substituent pair differs from the other variants (inside the class '
                     'cut_off_ligand_key_order: a marked substituent cut off from its anchor got a key on the other '
                     'side of the anchor than where it was written)',
                 16: 'the resolver raised "Conflicting cis/trans assignment" on consistently marked input (inside the '
                     'class cut_off_ligand_conflict_error: one of two marked ligands of an anchor is cut off and got a '
                     'key on the other side of the anchor than where it was written)',
                 9: 'the resolver raised an exception on a valid stereo input'}

    def corpus(self, ctx):
        out = []
        for w in WITNESSES:
            out.append(w)
        return out

    def generate(self, ctx, n):
        rng = ctx.rng
        out = []
        rep = repeated_end_cases(rng)
        rng.shuffle(rep)
        out += rep[:max(6, n // 12)]
        for _ in range(max(1, n // 150)):
            out += aryl_cases(rng)
            out += styrene_cases(rng)
        guard = 0
        while len(out) < n and guard < 50 * n:
            guard += 1
            m = rand_stereo_mol(rng)
            if m is None:
                STATS['asymmetric_retry'] += 1
                continue
            if m.stereo and not pysmiles_reads(m, rng):
                STATS['pysmiles_disagrees'] += 1
                continue
            vs = variants_of(m, rng, budget=min(60, n - len(out)))
            out += vs
            # correspondence-only cases (never judged): ambiguous renderings, damaged marks, raw graphs
            extra = []
            bridges = {tuple(sorted(e)) for e in nx.bridges(m.graph())}
            bonds = [b for b in (tuple(sorted(fs)) for fs in m.order) if not m.marked(*b) and b in bridges]
            for _ in range(max(1, len(vs) // 8)):
                cut = rng.sample(bonds, min(len(bonds), rng.randint(0, 2)))
                v = make_variant(m, rng, cut, kind='unjudged:any-rendering', check=False)
                if v is not None and v['ambiguous']:
                    v['judged'] = False
                    extra.append(v)
            for v in rng.sample(vs, min(len(vs), max(1, len(vs) // 10))):
                d = damaged(v, rng)
                if d is not None:
                    extra.append(d)
            for _ in range(max(2, len(vs) // 6)):
                extra.append(raw_graph_case(rng))
            out += extra
        return out[:n]

    def describe(self, case):
        d = {'s': case['s'], 'mol': case['mol'], 'kind': case.get('kind', '')}
        for k in ('raw', 'judged', 'wb', 'simtok', 'aromatic'):
            if k in case:
                d[k] = case[k]
        return d

    def run_impl(self, case):
        import cgsmiles.resolve as R
        rec = {}
        if 'raw' in case:
            from cgsmiles.pysmiles_utils import annotate_ez_isomers_cgsmiles
            g = nx.Graph()
            for k, d in case['raw']['nodes']:
                d = dict(d)
                if 'ez_isomer' in d:
                    d['ez_isomer'] = [tuple(t) for t in d['ez_isomer']]
                g.add_node(k, **d)
            for a, b, o in case['raw']['edges']:
                g.add_edge(a, b, order=o)
            rec['before_lit'] = graph_lit(g)
            rec['before'] = graph_json(g)
            try:
                annotate_ez_isomers_cgsmiles(g)
                rec['after_lit'] = graph_lit(g)
            except Exception as exc:
                rec['exc'] = type(exc).__name__
            return rec
        orig = R.annotate_ez_isomers_cgsmiles

        def wrapped(molecule):
            rec['before_lit'] = graph_lit(molecule)
            rec['before'] = graph_json(molecule)
            rec['ident_before'] = identify(molecule, case['mol'])
            try:
                orig(molecule)
            except Exception as exc:
                rec['exc'] = type(exc).__name__
                raise
            rec['after_lit'] = graph_lit(molecule)
        R.annotate_ez_isomers_cgsmiles = wrapped
        try:
            try:
                resolver = R.MoleculeResolver.from_string(case['s'])
                # the fragment graphs read_fragments built, with the fragment texts (for EzCheck.frag_ok)
                texts = {}
                for f in case['s'].split('.{', 1)[1][:-1].split(','):
                    d = f.find('=')
                    texts.setdefault(f[1:d], f[d + 1:])
                rec['frags'] = [(name, texts[name], lit.obs_graph(fg, only_node=FRAG_KEYS, only_edge=('order',)))
                                for name, fg in resolver.fragment_dicts[-1].items() if name in texts]
                _, g = resolver.resolve_all()
            except Exception as exc:
                rec['raised'] = '%s: %s' % (type(exc).__name__, str(exc)[:100])
                return rec
        finally:
            R.annotate_ez_isomers_cgsmiles = orig
        rec['ret_lit'] = graph_lit(g)
        rec['ret'] = graph_json(g)
        # recognise the atoms of the returned molecule by their neighbourhood
        rec['ident'] = identify(g, case['mol'])
        return rec

    def nontrivial(self, case, impl):
        return 'ret' in impl or 'raw' in case

    def case_class(self, case, impl):
        k = case.get('kind', '?')
        m = case['mol']
        tag = '%s db=%d chiral=%d' % (k, len(m['stereo']), min(len(m['chiral']), 2))
        if 'H' in m['atoms']:
            tag += ' explicit-H'
        if 'raw' in case:
            return 'unjudged:raw-graph ' + ('ok' if 'after_lit' in impl else str(impl.get('exc')))
        if 'raised' in impl:
            tag += ' RAISED'
        elif 'before' in impl and in_class_py(impl['before'], case.get('wb'), impl.get('ident')):
            tag += ' in-class%d' % in_class_py(impl['before'], case.get('wb'), impl.get('ident'))
        return tag

    def known_class(self, case, impl, code):
        # the Coq predicates (EzCheck.case_class_code / conflict_class) decide: codes 14, 15, 16; the Python
        # mirrors must agree
        if not case.get('judged', True) or 'before' not in impl:
            return None
        if code in (14, 15) and in_class_py(impl['before'], case.get('wb'), impl.get('ident')) == code:
            return {14: 'second_anchor_ligand_lower', 15: 'cut_off_ligand_key_order'}[code]
        if code == 16 and str(impl.get('raised', '')).startswith('ValueError: Conflicting') \
                and conflict_class_py(impl['before'], case.get('wb'), self._ident_before(case, impl)):
            return 'cut_off_ligand_conflict_error'
        return None

    def _ident_before(self, case, impl):
        return impl.get('ident_before')

    def coq_case(self, case, impl):
        mol = case['mol']
        atoms = lit.lst([lit.pair(lit.z(k), lit.s(e)) for k, e in enumerate(mol['atoms'])])
        bonds = lit.lst(['(%s, %s, %s)' % (lit.z(a), lit.z(b), lit.z(-1 if o == 1.5 else o)) for a, b, o in mol['bonds']])
        chir = lit.lst([lit.pair(lit.z(a), lit.s(c)) for a, c in mol['chiral']])
        rel = lit.lst(['(%s, %s, %s, %s, %s)' % (lit.z(l1), lit.z(a1), lit.z(a2), lit.z(l2), lit.b(c))
                       for l1, a1, a2, l2, c in mol['rel']])
        before = impl.get('before_lit')
        after = impl.get('after_lit')
        ret = impl.get('ret_lit')
        ident = impl.get('ident') or impl.get('ident_before')
        wbl = lit.lst(['(%s, %s, %s, %s)' % (lit.z(l), lit.z(an), lit.b(w), lit.b(c)) for l, an, w, c in case.get('wb', [])])
        return ('{| c_judged := %s; c_before := %s; c_after := %s; c_ret := %s; c_atoms := %s; c_bonds := %s; '
                'c_ident := %s; c_chiral := %s; c_rel := %s; c_wb := %s; c_frags := %s; c_str := %s; c_side := %s; '
                'c_simtok := %s |}'
                % (lit.b(case.get('judged', True)), '(Some %s)' % before if before else 'None',
                   '(Some %s)' % after if after else 'None',
                   '(Some %s)' % ret if ret else 'None',
                   atoms, bonds,
                   lit.lst([lit.pair(lit.z(a), lit.z(b)) for a, b in ident]) if ident is not None else '[]',
                   chir, rel, wbl,
                   lit.lst(['(%s, %s, %s)' % (lit.s(n), lit.s(t), o) for n, t, o in impl.get('frags', [])]),
                   '(Some %s)' % lit.s(case['s']) if ('raw' not in case and not case.get('aromatic')) else 'None',
                   lit.lst(['(%s, %s, %s)' % (lit.z(l), lit.z(a), lit.b(sd == 'u')) for l, a, sd in mol['side']]),
                   lit.lst(['(%s, %s)' % (lit.s(n), lit.lst(['(%s, %s)' % (lit.z(i), lit.s(tk)) for i, tk in tl]))
                            for n, tl in sorted(case.get('simtok', {}).items())])))

    def python_oracle(self, case, impl):
        return py_oracle(case, impl)


def py_oracle(case, impl):
    """the clauses in Python (development aid and fall-back when the Coq side cannot be built)"""
    if not case.get('judged', True):
        return 0
    if 'ret' not in impl:
        if 'before' in impl and str(impl.get('raised', '')).startswith('ValueError: Conflicting') \
                and conflict_class_py(impl['before'], case.get('wb'), impl.get('ident_before')):
            return 16
        return 9
    if impl.get('ident') is None:
        return 1
    ident = dict((a, b) for a, b in impl['ident'])
    nodes = dict((n, d) for n, d in impl['ret']['nodes'])
    adj = {n: dict((w, o) for w, o in a) for n, a in impl['ret']['adj']}
    mol = case['mol']
    for n, d in nodes.items():
        for l1, a1, a2, l2, c in d.get('ez_isomer', []):
            ok = (all(x in nodes for x in (l1, a1, a2, l2)) and l1 in adj[a1] and l2 in adj[a2] and a2 in adj[a1]
                  and adj[a1][a2] == 2 and l1 not in (a1, a2) and l2 not in (a1, a2) and n == l1)
            if not ok:
                return 2
    got_ch = sorted([[ident.get(n), d['chiral']] for n, d in nodes.items() if 'chiral' in d], key=str)
    if got_ch != sorted(mol['chiral'], key=str):
        return 3
    want = {}
    for l1, a1, a2, l2, c in mol['rel']:
        want[(l1, a1, a2, l2)] = c
        want[(l2, a2, a1, l1)] = c
    got = {}
    for n, d in nodes.items():
        for l1, a1, a2, l2, c in d.get('ez_isomer', []):
            key = tuple(ident.get(x) for x in (l1, a1, a2, l2))
            got[key] = (c == 'cis')
    for k, c in got.items():
        if k in want and want[k] != c:
            return ('before' in impl and in_class_py(impl['before'], case.get('wb'), impl.get('ident'))) or 4
    if set(got) != set(want):
        return 5
    return 0


def _wmol(atoms, bonds, stereo, side, chiral=()):
    m = SMol()
    for e in atoms:
        m.add(e)
    for a, b, o in bonds:
        m.bond(a, b, o)
    m.stereo = [list(x) for x in stereo]
    m.side = {(l, a): s for l, a, s in side}
    m.chiral = dict(chiral)
    return m.dump()


# F/C(Cl)=C(Br)/I : F below, I above -> trans  (DESIGN section 5 row 18)
_W18 = _wmol(['F', 'C', 'Cl', 'C', 'Br', 'I'], [(0, 1, 1), (1, 2, 1), (1, 3, 2), (3, 4, 1), (3, 5, 1)],
             [(1, 3)], [(0, 1, 'd'), (5, 3, 'u')])
# F/C=C/I with one hydrogen on each anchor (the hydrogens are renumbered into their fragments)
_WH = _wmol(['F', 'C', 'C', 'I'], [(0, 1, 1), (1, 2, 2), (2, 3, 1)], [(1, 2)], [(0, 1, 'd'), (3, 2, 'u')])
_WC = _wmol(['F', 'C', 'Cl', 'C', 'Br', 'I'], [(0, 1, 1), (1, 2, 1), (1, 3, 1), (3, 4, 1), (3, 5, 1)], [], [],
            [(1, 'R'), (3, 'S')])
# F/C(/Cl)=C(/Br)I : F below, Cl above; Br above
_W2L = _wmol(['F', 'C', 'Cl', 'C', 'Br', 'I'], [(0, 1, 1), (1, 2, 1), (1, 3, 2), (3, 4, 1), (3, 5, 1)],
             [(1, 3)], [(0, 1, 'd'), (2, 1, 'u'), (4, 3, 'u')])
_W1L = _wmol(['F', 'C', 'Cl', 'C', 'Br', 'I'], [(0, 1, 1), (1, 2, 1), (1, 3, 2), (3, 4, 1), (3, 5, 1)],
             [(1, 3)], [(0, 1, 'd'), (4, 3, 'u')])
# Br-[C;x=S]H2-C(Cl)=C(F)I with the CH2 written before its anchor with '\\' (above), F after with '/' (above): cis
_WL = _wmol(['Br', 'C', 'C', 'Cl', 'C', 'F', 'I'], [(0, 1, 1), (1, 2, 1), (2, 3, 1), (2, 4, 2), (4, 5, 1), (4, 6, 1)],
            [(2, 4)], [(1, 2, 'u'), (5, 4, 'u')], [(1, 'S')])
# [H]/C(F)=C/Cl : H below, Cl above -> trans ; [H]/N=C(/C)F : H below, C above -> trans
_WHX = _wmol(['H', 'C', 'F', 'C', 'Cl'], [(0, 1, 1), (1, 2, 1), (1, 3, 2), (3, 4, 1)], [(1, 3)], [(0, 1, 'd'), (4, 3, 'u')])
_WIM = _wmol(['H', 'N', 'C', 'C', 'F'], [(0, 1, 1), (1, 2, 2), (2, 3, 1), (2, 4, 1)], [(1, 2)], [(0, 1, 'd'), (3, 2, 'u')])
# C(/F)=C(/Cl)CC/C(Br)=C/F : F0 up, Cl3 up (cis); C5 (written before its anchor C6 with '/') down, F9 up (trans)
_WRP = _wmol(['C', 'F', 'C', 'Cl', 'C', 'C', 'C', 'Br', 'C', 'F'],
             [(0, 1, 1), (0, 2, 2), (2, 3, 1), (2, 4, 1), (4, 5, 1), (5, 6, 1), (6, 7, 1), (6, 8, 2), (8, 9, 1)],
             [(0, 2), (6, 8)], [(1, 0, 'u'), (3, 2, 'u'), (5, 6, 'd'), (9, 8, 'u')])
WITNESSES = [
    {'s': '{[#B][#A]}.{#A=F/C(Cl)=[$],#B=[$]=C(Br)/I}', 'mol': _W18, 'kind': 'known-finding witness', 'nparts': 2},
    {'s': '{[#A][#B]}.{#A=F/C(Cl)=[$],#B=[$]=C(Br)/I}', 'mol': _W18, 'kind': 'witness other order', 'nparts': 2},
    {'s': '{[#A]}.{#A=F/C(Cl)=C(Br)/I}', 'mol': _W18, 'kind': 'witness single', 'nparts': 1},
    {'s': '{[#A][#B]}.{#A=F/C=[$],#B=[$]=C/I}', 'mol': _WH, 'kind': 'witness with hydrogens', 'nparts': 2},
    {'s': '{[#B][#A]}.{#A=F/C=[$],#B=[$]=C/I}', 'mol': _WH, 'kind': 'known-finding witness with hydrogens', 'nparts': 2},
    {'s': '{[#B][#A]}.{#A=F[C;x=R](Cl)[$],#B=[$][CH;x=S](Br)I}', 'mol': _WC, 'kind': 'witness chiral', 'nparts': 2},
    # a marked substituent cut off at its bond to the anchor, the mark written at both ends of the cut
    {'s': '{[#A][#B]}.{#A=F/[$],#B=[$]/C(Cl)=C(/Br)I}', 'mol': _W1L, 'kind': 'witness F cut off', 'nparts': 2,
     'wb': [[0, 1, True, True], [4, 3, False, False]]},
    {'s': '{[#B][#A]}.{#A=F/[$],#B=[$]/C(Cl)=C(/Br)I}', 'mol': _W1L, 'kind': 'known-finding witness F cut off, listed second',
     'nparts': 2, 'wb': [[0, 1, True, True], [4, 3, False, False]]},
    {'s': '{[#A][#B]}.{#A=F/[$],#B=[$]/C(/Cl)=C(/Br)I}', 'mol': _W2L, 'kind': 'witness F cut off, two ligands', 'nparts': 2,
     'wb': [[0, 1, True, True], [2, 1, False, False], [4, 3, False, False]]},
    {'s': '{[#B][#A]}.{#A=F/[$],#B=[$]/C(/Cl)=C(/Br)I}', 'mol': _W2L,
     'kind': 'known-finding witness F cut off, two ligands, listed second', 'nparts': 2,
     'wb': [[0, 1, True, True], [2, 1, False, False], [4, 3, False, False]]},
    # a marked substituent that is a one-atom fragment, written with / without hydrogens (the second lost its
    # mark before fix commit d472632 of /repo: fixed finding lone_atom_fragment_drops_mark, kept in the corpus)
    {'s': '{[#A][#D][#B]}.{#A=Br[$h],#D=[CH2;x=S][$h]\\[$f],#B=[$f]\\C(Cl)=C(/F)I}', 'mol': _WL, 'kind': 'witness lone atom with H',
     'nparts': 3, 'wb': [[1, 2, True, True], [5, 4, False, False]]},
    {'s': '{[#A][#D][#B]}.{#A=Br[$h],#D=[C;x=S][$h]\\[$f],#B=[$f]\\C(Cl)=C(/F)I}', 'mol': _WL,
     'kind': 'fixed-finding witness (d472632) lone bracket atom without H', 'nparts': 3,
     'wb': [[1, 2, True, True], [5, 4, False, False]]},
    # a marked substituent that is an explicitly written hydrogen (seeded/C15-3): inside a multi-atom fragment,
    # as a fragment of its own, annotated; the imine
    {'s': '{[#A]}.{#A=[H]/C(F)=C/Cl}', 'mol': _WHX, 'kind': 'witness explicit H', 'nparts': 1},
    {'s': '{[#A][#B]}.{#A=[H]/C(F)=[$],#B=[$]=C/Cl}', 'mol': _WHX, 'kind': 'witness explicit H, cut at double bond', 'nparts': 2},
    {'s': '{[#H][#A]}.{#H=[H]/[$],#A=[$]/C(F)=C/Cl}', 'mol': _WHX, 'kind': 'witness explicit H own fragment', 'nparts': 2,
     'wb': [[0, 1, True, True], [4, 3, False, False]]},
    {'s': '{[#A]}.{#A=[H;w=0.5]/C(F)=C/Cl}', 'mol': _WHX, 'kind': 'witness explicit H annotated', 'nparts': 1},
    {'s': '{[#A]}.{#A=[H]/N=C(/C)F}', 'mol': _WIM, 'kind': 'witness imine explicit H', 'nparts': 1},
    # one fragment named twice in the base graph with another in between, both double bonds cut (seeded/C15-6)
    {'s': '{[#X][#Y][#X]}.{#X=[$]=C/F,#Y=[$]=C(/Cl)CC/C(Br)=[$]}', 'mol': _WRP, 'kind': 'witness repeated fragment name', 'nparts': 3},
    {'s': '{[#M]}.{#M=C(/F)=C(/Cl)CC/C(Br)=C/F}', 'mol': _WRP, 'kind': 'witness repeated fragment name, single', 'nparts': 1},
    # an upper-case atom directly before an aromatic one, written before the stereo part (seeded/C15-8): appended below
    # two-digit ring labels before labelled stereocentres (seeded/C15-1)
    {'s': '{[#A][#B]}.{#A=OC%10CCCC%10[$],#B=[$][C;x=R](F)[C;x=S](Cl)Br}', 'mol': None, 'kind': 'witness ring label', 'nparts': 2},
]
_WR = _wmol(['O', 'C', 'C', 'C', 'C', 'C', 'C', 'F', 'C', 'Cl', 'Br'],
            [(0, 1, 1), (1, 2, 1), (2, 3, 1), (3, 4, 1), (4, 5, 1), (5, 1, 1), (5, 6, 1), (6, 7, 1), (6, 8, 1), (8, 9, 1),
             (8, 10, 1)], [], [], [(6, 'R'), (8, 'S')])
WITNESSES[-1]['mol'] = _WR
WITNESSES.append({'s': '{[#A]}.{#A=OC%10CCCC%10[C;x=R](F)[C;x=S](Cl)Br}', 'mol': _WR, 'kind': 'witness ring label single',
                  'nparts': 1})


class _FixedRng:
    """deterministic choices for the corpus copy of the aryl thioether family: CSc1ccc(cc1)[C;x=R](F)(Cl)/C=C/Br"""
    def sample(self, seq, k):
        return ['F', 'Cl', 'Br'][:k]

    def choice(self, seq):
        return 'R' if 'R' in seq else '/'

    def random(self):
        return 0.0


WITNESSES += aryl_cases(_FixedRng())

PROP = C15()
