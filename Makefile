all:
	@true
