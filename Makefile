# setup: regenerate theories/Gen from /repo, then a full .vo build of the whole development
all:
	PYTHONPATH=/verif/tools /venv/bin/python -c "import common,sys; ok,log,g=common.build(None); print(log[-3000:]); sys.exit(0 if ok else 1)"
clean:
	-$(MAKE) -f Makefile.coq clean
	rm -rf .work Makefile.coq Makefile.coq.conf _CoqProject
.PHONY: all clean
