# setup: regenerate theories/Gen from /repo, then a full .vo build of the whole development.
# Keep going past a file that does not compile and do not fail the setup because of it: every
# check builds exactly the files it needs again and reports a broken obligation for its own property.
all:
	PYTHONPATH=/verif/tools /venv/bin/python -c "import common,sys; ok,log,g=common.build(None, keep_going=True); print(log[-3000:]); print('SETUP: full build', 'ok' if ok else 'INCOMPLETE (see above)')"
clean:
	-$(MAKE) -f Makefile.coq clean
	rm -rf .work Makefile.coq Makefile.coq.conf _CoqProject
.PHONY: all clean
