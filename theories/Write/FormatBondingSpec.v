(** FormatBondingSpec: theorems about the GENERATED [format_bonding] (Gen/WriterGen.v, translated from
    write_cgsmiles.py statement by statement on every run). *)
From Coq Require Import String.
From Coq Require Import List Ascii ZArith Bool Lia.
From CGV Require Import Base.PyBase Base.PyVal Base.PyGen Gen.WriterGen.
Import ListNotations.
Open Scope Z_scope.

(** a stored descriptor: kind and label [kl], then the order as one digit *)
Definition mk_descr (kl : pystr) (o : nat) : pystr := kl ++ [digit_char o].
(** the symbol write_cgsmiles.order_to_symbol gives for an integer order *)
Definition sym_of (o : nat) : pystr :=
  match o with 0%nat => S "." | 1%nat => S "-" | 2%nat => S "=" | 3%nat => S "#" | _ => S "$" end.
Definition wrap (kl : pystr) : pystr := S "[" ++ kl ++ S "]".

Definition symtext (o : nat) : pystr := if Nat.eqb o 1 then [] else sym_of o.
(** the writing Appendix A asks for: every descriptor keeps its own symbol (nothing for order 1) *)
Definition fb_item (klo : pystr * nat) : pystr := symtext (snd klo) ++ wrap (fst klo).
Definition fb_expected (L : list (pystr * nat)) : pystr := concat (map fb_item L).

Lemma py_index_last kl c : py_index (kl ++ [c]) (-1) = Ok [c].
Proof.
  unfold py_index. rewrite app_length. cbn [length].
  replace (Z.of_nat (length kl + 1)) with (Z.of_nat (length kl) + 1) by lia.
  cbn [Z.ltb Z.compare]. 
  replace (Z.of_nat (length kl) + 1 + -1) with (Z.of_nat (length kl)) by lia.
  destruct (Z.ltb_spec (Z.of_nat (length kl)) 0); [lia|].
  destruct (Z.leb_spec (Z.of_nat (length kl) + 1) (Z.of_nat (length kl))); [lia|]. cbn [orb].
  rewrite Nat2Z.id. rewrite nth_error_app2 by lia. rewrite Nat.sub_diag. reflexivity.
Qed.
Lemma drop_last_snoc kl c : py_drop_last (kl ++ [c]) = kl.
Proof. unfold py_drop_last. apply removelast_last. Qed.
Lemma small_digit o : (o <= 4)%nat ->
  py_int [digit_char o] = Ok (Z.of_nat o) /\ order_to_symbol_lookup (Z.of_nat o) = Ok (sym_of o).
Proof.
  intros H. destruct o as [|[|[|[|[|o]]]]]; try lia; split; reflexivity.
Qed.
Lemma sym_is_dash o : (o <= 4)%nat -> str_eqb (sym_of o) (S "-") = Nat.eqb o 1.
Proof. intros H. destruct o as [|[|[|[|[|o]]]]]; try lia; reflexivity. Qed.

(** FULL theorem (holds since fix 1a5deb0 `bond_str += order_symb`): the generated function writes ANY
    descriptor list with orders 0..4 as the concatenation of sym ++ "[" ++ kind label ++ "]" *)
Theorem format_bonding_spec : forall L : list (pystr * nat),
  Forall (fun klo => (snd klo <= 4)%nat) L ->
  format_bonding (map (fun klo => mk_descr (fst klo) (snd klo)) L) = Ok (fb_expected L).
Proof.
  intros L HL. unfold format_bonding, unwrap_return.
  cbn [bind ret id].
  match goal with |- context [py_for _ _ ?f] => set (body := f) end.
  change (S "") with (@nil ascii).
  assert (G : forall acc, py_for (map (fun klo => mk_descr (fst klo) (snd klo)) L) acc body
                          = Ok (RNext (acc ++ fb_expected L))).
  { induction HL as [|[kl o] L Ho HL IH]; intros acc.
    - cbn. now rewrite app_nil_r.
    - cbn [map py_for fst snd]. unfold body at 1. unfold mk_descr at 1 2 3.
      cbn [bind ret]. rewrite py_index_last. cbn [bind].
      destruct (small_digit o Ho) as [E1 E2]. rewrite E1. cbn [bind]. rewrite E2. cbn [bind].
      unfold py_ne. cbn [bind ret pyeqb PyEq_str]. rewrite sym_is_dash by assumption.
      unfold fb_expected. cbn [map concat]. unfold fb_item at 1, symtext. cbn [fst snd].
      destruct (Nat.eqb o 1); cbn [negb]; unfold py_concat; cbn [bind ret]; rewrite drop_last_snoc;
        cbn [bind ret]; rewrite IH; unfold wrap, fb_expected; rewrite <- ?app_assoc; reflexivity. }
  rewrite G. reflexivity.
Qed.

(** ---------------------------------------------------------------- consequences *)
(** exact output for lists of order-1 descriptors: "[d1][d2]..." *)
Theorem format_bonding_order1 : forall kls : list pystr,
  format_bonding (map (fun kl => mk_descr kl 1) kls) = Ok (concat (map wrap kls)).
Proof.
  intros kls.
  replace (map (fun kl => mk_descr kl 1) kls)
    with (map (fun klo => mk_descr (fst klo) (snd klo)) (map (fun kl => (kl, 1%nat)) kls))
    by (rewrite map_map; reflexivity).
  rewrite format_bonding_spec.
  - unfold fb_expected. rewrite map_map. reflexivity.
  - apply Forall_forall. intros x Hx. apply in_map_iff in Hx as [kl [<- _]]. cbn. lia.
Qed.

(** one descriptor of any order 0..4 is written sym[kind label] (no symbol for order 1) *)
Theorem format_bonding_single : forall kl o, (o <= 4)%nat ->
  format_bonding [mk_descr kl o] = Ok (symtext o ++ wrap kl).
Proof.
  intros kl o Ho. change [mk_descr kl o] with (map (fun klo => mk_descr (fst klo) (snd klo)) [(kl, o)]).
  rewrite format_bonding_spec by (constructor; [assumption|constructor]).
  unfold fb_expected, fb_item. cbn [map concat fst snd]. now rewrite app_nil_r.
Qed.

(** the former defect class (a non-single descriptor after the first) is written correctly now *)
Example format_bonding_examples :
  format_bonding [S "$a1"; S "$b2"] = Ok (S "[$a]=[$b]") /\ format_bonding [S "$2"; S ">x1"] = Ok (S "=[$][>x]")
  /\ format_bonding [S "$0"] = Ok (S ".[$]") /\ format_bonding [S "$"] = Err EValue /\ format_bonding [S "$7"] = Err EKey
  /\ format_bonding [S "$3"; S "<1"; S "!A2"] = Ok (S "#[$][<]=[!A]").
Proof. repeat split; reflexivity. Qed.
